"""C20 — placement of input images on the detector, and freshness of loaded files.

Encoded: pyxel.util.image.fit_into_array, _set_relative_position, load_cropped_and_aligned_image
(with its real lru_cache).  Offsets are unbounded symbolic integers, elements symbolic reals,
shapes enumerated.
"""

from __future__ import annotations

import itertools
import os
import tempfile

import vx
from vx import symnp
from vx.core import unjson
from vx.patching import Patch

from .common import arr_eq, close, nums, sym_array

PROPERTY = "C20"
LEVEL = "model_checking"
FUNCTIONS = [
    "pyxel.util.image:fit_into_array",
    "pyxel.util.image:_set_relative_position",
    "pyxel.util.image:load_cropped_and_aligned_image",
    "pyxel.models.photon_collection.load_image:load_image",
    "pyxel.models.charge_generation.load_charge:load_charge",
    "pyxel.inputs.loader:load_image (witness layer)", "pyxel.inputs.loader:load_table (witness layer)",
]
STUBS = [
    "np in pyxel.util.image -> vx.symnp; builtin range in pyxel.util.image -> symbolic-start range",
    "freshness harness: pyxel.inputs.load_image replaced by a reader of a symbolic file store keyed by path "
    "(file contents arbitrary); the path itself is a real temporary file that is rewritten (new mtime, new bytes) between loads",
]
OUTSIDE = [
    "the format decoders (np.load, astropy.io.fits, text sniffing): C / third-party parsers - the first sentence of the statement is covered by a "
    "concrete witness layer (boundary values of eight dtypes, scaled FITS, five text layouts), not symbolically",
]
ASSUMPTIONS = ["rewriting a file changes its modification time (at the nanosecond resolution os.stat reports) or its size (file-system contract); "
               "rewrites that leave both unchanged are outside the claim"]
# second version of the file relative to the first: (change of st_mtime_ns, change of size in bytes)
REWRITES = {"same_second_same_size_1ns": (1, 0), "same_second_same_size_50ms": (50_000_000, 0), "next_second_same_size": (1_000_000_000, 0),
            "crosses_second_same_size": (900_000_000, 0), "same_mtime_size_plus_1": (0, 1), "older_mtime_same_size": (-1_000_000_000, 0),
            "same_second_older_same_size": (-1_000, 0)}
EXPLANATION = (
    "fit_into_array is executed with symbolic offsets; np.intersect1d forks on membership, which enumerates the "
    "finitely many overlap configurations while the no-overlap regions stay symbolic half-lines; per path z3 "
    "decides pixelwise placement, rejection iff no overlap, and the alignment geometry."
)
ALIGN = ("center", "top_left", "top_right", "bottom_left", "bottom_right")


def bounds(tier):
    m = 3 if tier == "quick" else 4
    return {"input_shapes": f"1..{m} x 1..{m}", "detector_shapes": f"1..{m} x 1..{m}", "offsets": "unbounded integers", "elements": "reals"}


def tasks(tier, seed):
    m = 3 if tier == "quick" else 4
    shapes = list(itertools.product(range(1, m + 1), repeat=2))
    out = []
    for ish in shapes:
        for osh in shapes:
            lab = f"{ish[0]}x{ish[1]},{osh[0]}x{osh[1]}"
            out.append({"fn": "place", "kwargs": {"ish": list(ish), "osh": list(osh)}, "label": f"fit/offset/{lab}",
                        "caps": {"max_seconds": 120}})
            out.append({"fn": "align", "kwargs": {"ish": list(ish), "osh": list(osh)}, "label": f"fit/align/{lab}"})
    for model in ("raw", "load_image", "load_charge"):
        out.append({"fn": "fresh", "kwargs": {"model": model}, "label": f"cache/{model}"})
        for case in REWRITES:
            out.append({"fn": "fresh", "kwargs": {"model": model, "case": case}, "label": f"cache/{model}/{case}"})
    for ish, osh in (((1, 2), (2, 2)), ((2, 1), (2, 3)), ((2, 3), (2, 2))):
        for stamped in (True, False):
            out.append({"fn": "loader", "kwargs": {"ish": list(ish), "osh": list(osh), "stamped": stamped}, "label": f"loader/{ish[0]}x{ish[1]},{osh[0]}x{osh[1]}/{'stamped' if stamped else 'no_stamp'}"})
    for i in range(0, len(FORMAT_CASES), 6):
        out.append({"fn": "formats_witness", "kwargs": {"cases": [list(c) for c in FORMAT_CASES[i:i + 6]]}, "label": f"witness/formats/{i // 6}", "kind": "direct"})
    for i in range(0, len(TABLE_CASES), 6):
        out.append({"fn": "tables_witness", "kwargs": {"cases": [list(c) for c in TABLE_CASES[i:i + 6]]}, "label": f"witness/tables/{i // 6}", "kind": "direct"})
    return out


def REQUIRED_REACH(tier):
    return ["C20/fit/pixelwise/*", "C20/fit/reject_iff_no_overlap/*", "C20/fit/align/*", "C20/fit/too_small_refused/*", "C20/cache/fresh_after_rewrite/*"]


def _patch(p):
    p.numpy("pyxel.util.image")
    p.builtins("pyxel.util.image", "range", "int")


def _expected(inp, ish, osh, pos):
    """Statement-level definition: out[i,j] = in[i-p, j-q] when that index exists, else 0."""
    p_, q_ = pos
    exp = []
    for i in range(osh[0]):
        for j in range(osh[1]):
            v = 0
            for a in range(ish[0]):
                for b in range(ish[1]):
                    v = vx.ite(vx.all_of([i - p_ == a, j - q_ == b]), inp[a, b], v)
            exp.append(v)
    return exp


def place(ish, osh):
    from pyxel.util import image as im

    ish, osh = tuple(ish), tuple(osh)
    inp = sym_array("in", ish)
    py, px = vx.integer("py"), vx.integer("px")
    allow = vx.boolean("allow_smaller")
    lab = f"{ish[0]}x{ish[1]},{osh[0]}x{osh[1]}"
    with Patch() as p:
        _patch(p)
        try:
            out = im.fit_into_array(inp, osh, relative_position=(py, px), allow_smaller_array=allow)
            ok = True
        except ValueError:
            ok = False
    overlap = vx.all_of([py + ish[0] - 1 >= 0, py <= osh[0] - 1, px + ish[1] - 1 >= 0, px <= osh[1] - 1])
    too_small = ish[0] < osh[0] or ish[1] < osh[1]
    refused = vx.all_of([~allow, too_small]) if too_small else False
    accept_expected = vx.all_of([overlap, ~refused if vx.is_sym(refused) else (not refused)])
    vx.prove(f"C20/fit/reject_iff_no_overlap/{lab}", accept_expected == ok)
    if too_small:
        # whenever allow_smaller_array is False on this path the call must have been refused
        vx.prove(f"C20/fit/too_small_refused/{lab}", vx.implies(~allow, not ok))
    if ok:
        vx.prove(f"C20/fit/shape/{lab}", tuple(out.shape) == osh)
        vx.prove(f"C20/fit/pixelwise/{lab}", vx.all_of([a == b for a, b in zip(out.elems(), _expected(inp, ish, osh, (py, px)))]))
        vx.observe("out", out.elems())
    vx.observe("ok", ok)


def loader(ish, osh, stamped):
    """The loader every file-reading model calls (load_cropped_and_aligned_image) with symbolic offsets: the cached route (the file
    has a stamp) and the un-cached route (a file os.stat cannot see: URL, path relative to the working directory) place the same pixels."""
    from pyxel.util import image as im

    ish, osh = tuple(ish), tuple(osh)
    inp = sym_array("in", ish)
    py, px = vx.integer("py"), vx.integer("px")
    vx.assume((py >= -3) & (py <= 3) & (px >= -3) & (px <= 3), "offsets around the detector")
    for f in vars(im).values():
        if callable(getattr(f, "cache_clear", None)):
            f.cache_clear()
    with Patch() as p:
        _patch(p)
        import pyxel.inputs

        p.attr(pyxel.inputs, "load_image", lambda f: inp.copy(), "arbitrary file content")
        p.attr(im, "load_image", lambda f: inp.copy(), "arbitrary file content") if hasattr(im, "load_image") else None
        p.attr(im, "_get_file_stamp", (lambda f: (17, 4)) if stamped else (lambda f: None), "file with / without a stamp")
        try:
            out = im.load_cropped_and_aligned_image(shape=osh, filename="frames/img.npy", position_x=px, position_y=py)
            ok = True
        except ValueError:
            ok = False
    for f in vars(im).values():
        if callable(getattr(f, "cache_clear", None)):
            f.cache_clear()
    lab = f"{ish[0]}x{ish[1]},{osh[0]}x{osh[1]},{'stamped' if stamped else 'no_stamp'}"
    overlap = vx.all_of([py + ish[0] - 1 >= 0, py <= osh[0] - 1, px + ish[1] - 1 >= 0, px <= osh[1] - 1])
    vx.prove(f"C20/loader/reject_iff_no_overlap/{lab}", overlap == ok)
    if ok:
        vx.prove(f"C20/loader/pixelwise/{lab}", tuple(out.shape) == osh and vx.all_of([a == b for a, b in zip(symnp.asarray(out).elems(), _expected(inp, ish, osh, (py, px)))]))


def fidelity_place(kwargs, w):
    import numpy as np

    from pyxel.util import fit_into_array

    inp = unjson(w["inputs"])
    ish, osh = tuple(kwargs["ish"]), tuple(kwargs["osh"])
    a = np.array([float(inp[f"in_{i}"]) for i in range(ish[0] * ish[1])]).reshape(ish)
    try:
        out = fit_into_array(a, osh, relative_position=(int(inp["py"]), int(inp["px"])), allow_smaller_array=bool(inp["allow_smaller"]))
        ok = True
    except ValueError:
        ok = False
    obs = unjson(w["observed"])
    if ok != obs["ok"]:
        return False, {"concrete_ok": ok, "symbolic_ok": obs["ok"]}
    if ok:
        return close(out.ravel().tolist(), nums(obs["out"])), {"concrete": out.ravel().tolist()}
    return True, {}


def align(ish, osh):
    from pyxel.util import image as im

    ish, osh = tuple(ish), tuple(osh)
    inp = sym_array("in", ish)
    lab = f"{ish[0]}x{ish[1]},{osh[0]}x{osh[1]}"
    for kw in ALIGN:
        with Patch() as p:
            _patch(p)
            pos = im._set_relative_position(array_x=ish[1], array_y=ish[0], output_x=osh[1], output_y=osh[0], alignment=im.Alignment(kw))
            try:
                out = im.fit_into_array(inp, osh, relative_position=(vx.integer(f"junk_y_{kw}"), vx.integer(f"junk_x_{kw}")), align=kw)
                ok = True
            except ValueError:
                ok = False
        p_, q_ = pos
        geo = []
        if kw.startswith("top"):
            geo.append(p_ + ish[0] == osh[0])
        if kw.startswith("bottom"):
            geo.append(p_ == 0)
        if kw.endswith("left"):
            geo.append(q_ == 0)
        if kw.endswith("right"):
            geo.append(q_ + ish[1] == osh[1])
        if kw == "center":
            my = p_ - (osh[0] - (p_ + ish[0]))
            mx = q_ - (osh[1] - (q_ + ish[1]))
            geo += [abs(my) <= 1, abs(mx) <= 1]
        vx.prove(f"C20/fit/align/{kw}/{lab}", vx.all_of(geo))
        # an aligned input always overlaps the detector: never rejected, and the given offset is ignored
        vx.prove(f"C20/fit/align_accepts/{kw}/{lab}", ok)
        if ok:
            vx.prove(f"C20/fit/align_pixelwise/{kw}/{lab}", vx.all_of([a == b for a, b in zip(out.elems(), _expected(inp, ish, osh, pos))]))


# -- freshness --------------------------------------------------------------------------------
def _rewrite(path, n, case=None):
    t0, size0 = 1_000_000_000 * 1000 + 200_000_000, 16
    if case is None or n == 1:
        t, size = (t0, size0) if case is not None else (1_000_000_000 * (1000 + n), 10 + n)
    else:
        t, size = t0 + REWRITES[case][0], size0 + REWRITES[case][1]
    with open(path, "wb") as fh:
        fh.write(b"x" * size)
    os.utime(path, ns=(t, t))


def _load_via(model, det, path, im):
    if model == "raw":
        return im.load_cropped_and_aligned_image(shape=(2, 2), filename=path, position_x=0, position_y=0)
    if model == "load_image":
        import importlib

        li = importlib.import_module("pyxel.models.photon_collection.load_image")

        det.photon.empty()
        li.load_image(det, image_file=path, convert_to_photons=False, multiplier=1.0, time_scale=1.0)
        return det.photon.array
    if model == "load_charge":
        import importlib

        lc = importlib.import_module("pyxel.models.charge_generation.load_charge")

        det.charge.empty()
        lc.load_charge(det, filename=path, time_scale=1.0)
        return det.charge.array
    raise AssertionError(model)


def _fresh_run(model, A, B, symbolic, case=None):
    import numpy as np

    from pyxel.util import image as im

    from .common import make_ccd

    def cc():
        for f in vars(im).values():
            clear = getattr(f, "cache_clear", None)
            if callable(clear):
                clear()

    cc()
    tmp = tempfile.mkdtemp(prefix="vx_c20_")
    path = os.path.join(tmp, "img.npy")
    store = {}
    det = make_ccd(2, 2)
    det.set_readout(times=[1.0], start_time=0.0)
    det.readout_properties.time_step = 1.0
    try:
        with Patch() as p:
            import pyxel.inputs

            p.attr(pyxel.inputs, "load_image", lambda f: store[str(f)].copy(), "reads the symbolic file store")
            if symbolic:
                _patch(p)
                p.numpy("pyxel.models.photon_collection.load_image", "pyxel.models.charge_generation.load_charge",
                        "pyxel.data_structure.photon", "pyxel.data_structure.charge", "pyxel.data_structure.array")
            store[path] = A
            _rewrite(path, 1, case)
            r1 = _load_via(model, det, path, im)
            r1 = r1.copy()
            store[path] = B
            _rewrite(path, 2, case)
            r2 = _load_via(model, det, path, im)
            r2 = r2.copy()
    finally:
        try:
            os.remove(path)
            os.rmdir(tmp)
        except OSError:
            pass
        cc()
    return r1, r2


def fresh(model, case=None):
    A, B = sym_array("A", (2, 2)), sym_array("B", (2, 2))
    for e in A.elems() + B.elems():
        vx.assume(e >= 0, "file contents are non-negative (photon / charge inputs)")
    r1, r2 = _fresh_run(model, A, B, True, case)
    lab = model if case is None else f"{model}/{case}"
    vx.prove(f"C20/cache/first_load/{lab}", arr_eq(r1, A))
    vx.prove(f"C20/cache/fresh_after_rewrite/{lab}", arr_eq(r2, B))


FORMAT_CASES = [(fmt, dt) for fmt in ("npy", "fits") for dt in ("uint8", "uint16", "uint32", "int16", "int32", "int64", "float32", "float64")] + \
    [("fits_scaled", "float64"), ("txt_space", "float64"), ("txt_comma", "float64"), ("txt_pipe", "float64"), ("txt_tab", "float64"), ("data", "float64"), ("txt_1row", "float64"), ("txt_1col", "float64")]


def _format_case(fmt, dt, variant=0):
    """Write an image of dtype `dt` in format `fmt` with the standard writer, read it back with pyxel.inputs.load_image."""
    import numpy as np
    from astropy.io import fits

    from pyxel.inputs import load_image

    d = np.dtype(dt)
    if d.kind in "iu":
        info = np.iinfo(d)
        pool = [info.min, info.min + 1, 0, 1, 2, info.max - 1, info.max, info.max // 2, info.max // 2 + 1]
        if d.itemsize == 8:
            pool = [v for v in pool if abs(v) <= 2**53]  # the text / float paths of the property are about values a double holds
    else:
        pool = [0.0, 1.0, -1.5, 0.1, 1e-30, 1e30, 65535.0, 2.5e-7, 123456.789]
    shape = (3, 2) if variant % 2 == 0 else (2, 3)
    vals = [pool[(i + variant) % len(pool)] for i in range(6)]
    arr = np.array(vals, dtype=d).reshape(shape)
    tmp = tempfile.mkdtemp(prefix="vx_c20_")
    try:
        if fmt == "npy":
            path = os.path.join(tmp, "img.npy")
            np.save(path, arr)
        elif fmt == "fits":
            path = os.path.join(tmp, "img.fits")
            fits.PrimaryHDU(arr).writeto(path)
        elif fmt == "fits_scaled":
            path = os.path.join(tmp, "img.fits")
            hdu = fits.PrimaryHDU(np.array([[0, 1, 2], [10, 100, 1000]], dtype=np.int16))
            hdu.header["BSCALE"], hdu.header["BZERO"] = 0.5, 10.0
            hdu.writeto(path)
            arr = np.array([[0, 1, 2], [10, 100, 1000]], dtype=float) * 0.5 + 10.0
        else:
            if fmt == "txt_1row":
                arr = arr.reshape(1, -1)
            elif fmt == "txt_1col":
                arr = arr.reshape(-1, 1)
            sep = {"txt_space": " ", "txt_comma": ",", "txt_pipe": "|", "txt_tab": "\t", "data": " ", "txt_1row": " ", "txt_1col": " "}[fmt]
            path = os.path.join(tmp, "img.data" if fmt == "data" else "img.txt")
            np.savetxt(path, arr, delimiter=sep, fmt="%.17g")
        back = np.asarray(load_image(path))
    finally:
        import shutil

        shutil.rmtree(tmp, ignore_errors=True)
    same = back.shape == arr.shape and bool(np.all(back.astype(object) == arr.astype(object))) if d.kind in "iu" and not fmt.startswith(("txt", "data", "fits_scaled")) else (
        back.shape == arr.shape and bool(np.array_equal(np.asarray(back, dtype=float), np.asarray(arr, dtype=float))))
    return same, {"format": fmt, "dtype": dt, "stored": arr.tolist(), "read_back": back.tolist(), "read_back_dtype": str(back.dtype)}


SEPS = {"tab": "\t", "space": " ", "comma": ",", "bar": "|", "semicolon": ";"}
TABLE_CASES = [(sep, kind) for sep in SEPS for kind in ("plain", "holes", "holes_end", "empty_col")] + [("npy", "plain"), ("npy", "holes")]


def _table_case(sep, kind, ext, variant=0):
    """A table written by the standard writer (pandas to_csv with the delimiter / numpy save) and read back with pyxel.inputs.load_table:
    same shape and values, missing values included."""
    import numpy as np
    import pandas as pd

    from pyxel.inputs import load_table

    a = np.array([[1.0, 2.5, 3.0], [4.0, 0.1, 6.0], [7.0, 8.0, 1e-30], [123456.789, -1.5, 65535.0]])
    a = np.roll(a, variant, axis=0)
    if kind == "holes":
        a[1, 1] = a[2, 0] = np.nan
    elif kind == "holes_end":
        a[1, 2] = a[3, 2] = np.nan
    elif kind == "empty_col":
        a[:, 1] = np.nan
    tmp = tempfile.mkdtemp(prefix="vx_c20_")
    path = os.path.join(tmp, "table." + ext)
    try:
        if sep == "npy":
            path = os.path.join(tmp, "table.npy")
            np.save(path, a)
        else:
            pd.DataFrame(a).to_csv(path, sep=SEPS[sep], header=False, index=False, float_format="%.17g")
        try:
            back = load_table(path).to_numpy()
            err = None
        except Exception as e:  # noqa: BLE001
            back, err = None, f"{type(e).__name__}: {str(e)[:100]}"
    finally:
        import shutil

        shutil.rmtree(tmp, ignore_errors=True)
    same = back is not None and back.shape == a.shape and bool(np.array_equal(back.astype(float), a, equal_nan=True))
    return same, {"delimiter": sep, "table": kind, "extension": ext, "stored": a.tolist(), "read_back": None if back is None else back.tolist(), "error": err}


def tables_witness(tier, seed, cases):
    """Tables of the first sentence (text delimited by tab, space, comma, bar or semicolon; npy): concrete witness layer over delimiters,
    extensions and missing-value layouts."""
    obligations = []
    for sep, kind in cases:
        for ext in (("txt",) if sep == "npy" else ("txt", "csv", "data")):
            for variant in range(1 if tier == "quick" else 4):
                same, info = _table_case(sep, kind, ext, variant + seed)
                obligations.append({"id": f"C20/tables/roundtrip/{sep},{kind},{ext}", "verdict": "unsat" if same else "sat", "info": info,
                                    "model": {"sep": sep, "kind": kind, "ext": ext, "variant": variant + seed}, "observed": {}})
    return {"obligations": obligations, "paths": len(obligations), "reached": {o["id"]: 1 for o in obligations}}


def formats_witness(tier, seed, cases):
    """First sentence of the statement (same shape and values after a write / read cycle): the decoders are C / third-party code, so this
    is a concrete witness layer - boundary values of every integer width and awkward doubles, written by the standard writer."""
    obligations = []
    for fmt, dt in cases:
        for variant in range(2 if tier == "quick" else 6):
            same, info = _format_case(fmt, dt, variant + seed)
            obligations.append({"id": f"C20/formats/roundtrip/{fmt},{dt}", "verdict": "unsat" if same else "sat", "info": info, "model": {"fmt": fmt, "dtype": dt, "variant": variant + seed}, "observed": {}})
    return {"obligations": obligations, "paths": len(obligations), "reached": {o["id"]: 1 for o in obligations}}


def replay(oid, kwargs, model, data):
    import numpy as np

    if data["fn"] == "loader":
        import pyxel.inputs
        from pyxel.util import image as im

        ish, osh = tuple(kwargs["ish"]), tuple(kwargs["osh"])
        a = np.array([float(model.get(f"in_{i}", i + 1)) for i in range(ish[0] * ish[1])]).reshape(ish)
        if len(set(a.ravel().tolist())) < a.size:
            a = np.arange(1.0, a.size + 1).reshape(ish)
        py, px = int(model.get("py", 0)), int(model.get("px", 0))
        for f in vars(im).values():
            if callable(getattr(f, "cache_clear", None)):
                f.cache_clear()
        real_load, real_stamp = pyxel.inputs.load_image, im._get_file_stamp
        pyxel.inputs.load_image = lambda f: a.copy()
        im._get_file_stamp = (lambda f: (17, 4)) if kwargs["stamped"] else (lambda f: None)
        try:
            try:
                out = im.load_cropped_and_aligned_image(shape=osh, filename="frames/img.npy", position_x=px, position_y=py)
                ok = True
            except ValueError:
                ok, out = False, None
        finally:
            pyxel.inputs.load_image, im._get_file_stamp = real_load, real_stamp
        exp = np.zeros(osh)
        overlap = False
        for i in range(osh[0]):
            for j in range(osh[1]):
                if 0 <= i - py < ish[0] and 0 <= j - px < ish[1]:
                    exp[i, j] = a[i - py, j - px]
                    overlap = True
        return (ok != overlap) or (ok and not np.array_equal(out, exp)), {"offset_yx": [py, px], "input": a.tolist(), "placed": None if out is None else np.asarray(out).tolist(), "expected": exp.tolist() if overlap else "rejected"}
    if data["fn"] == "formats_witness":
        same, info = _format_case(model["fmt"], model["dtype"], int(model["variant"]))
        return (not same), info
    if data["fn"] == "tables_witness":
        same, info = _table_case(model["sep"], model["kind"], model["ext"], int(model["variant"]))
        return (not same), info

    from pyxel.util import fit_into_array

    if data["fn"] == "fresh":
        A = np.array([float(model[f"A_{i}"]) for i in range(4)]).reshape(2, 2)
        B = np.array([float(model[f"B_{i}"]) for i in range(4)]).reshape(2, 2)
        r1, r2 = _fresh_run(kwargs["model"], A, B, False, kwargs.get("case"))
        bad = not np.allclose(r1, A) or not np.allclose(r2, B)
        return bad, {"first": np.asarray(r1).tolist(), "second": np.asarray(r2).tolist(), "file_after_rewrite": B.tolist()}
    ish, osh = tuple(kwargs["ish"]), tuple(kwargs["osh"])
    a = np.array([float(model.get(f"in_{i}", 0)) for i in range(ish[0] * ish[1])]).reshape(ish)

    def expected(p_, q_):
        exp = np.zeros(osh)
        for i in range(osh[0]):
            for j in range(osh[1]):
                if 0 <= i - p_ < ish[0] and 0 <= j - q_ < ish[1]:
                    exp[i, j] = a[i - p_, j - q_]
        return exp

    if data["fn"] == "place":
        py, px, allow = int(model["py"]), int(model["px"]), bool(model["allow_smaller"])
        overlap = py + ish[0] - 1 >= 0 and py <= osh[0] - 1 and px + ish[1] - 1 >= 0 and px <= osh[1] - 1
        too_small = ish[0] < osh[0] or ish[1] < osh[1]
        want_ok = overlap and not (too_small and not allow)
        try:
            out = fit_into_array(a, osh, relative_position=(py, px), allow_smaller_array=allow)
            ok = True
        except (ValueError, IndexError):
            ok = False
        if ok != want_ok:
            return True, {"accepted": ok, "expected_accept": want_ok, "pos": [py, px]}
        if ok and (out.shape != osh or not np.allclose(out, expected(py, px))):
            return True, {"out": out.tolist(), "expected": expected(py, px).tolist(), "pos": [py, px]}
        return False, {}
    # align
    from pyxel.util.image import Alignment, _set_relative_position

    bad = {}
    for kw in ALIGN:
        p_, q_ = _set_relative_position(array_x=ish[1], array_y=ish[0], output_x=osh[1], output_y=osh[0], alignment=Alignment(kw))
        geo = True
        if kw.startswith("top"):
            geo &= p_ + ish[0] == osh[0]
        if kw.startswith("bottom"):
            geo &= p_ == 0
        if kw.endswith("left"):
            geo &= q_ == 0
        if kw.endswith("right"):
            geo &= q_ + ish[1] == osh[1]
        if kw == "center":
            geo &= abs(p_ - (osh[0] - (p_ + ish[0]))) <= 1 and abs(q_ - (osh[1] - (q_ + ish[1]))) <= 1
        try:
            out = fit_into_array(a, osh, relative_position=(99, -99), align=kw)
            if not np.allclose(out, expected(p_, q_)):
                bad[kw] = {"out": out.tolist(), "expected": expected(p_, q_).tolist()}
        except ValueError as e:
            bad[kw] = repr(e)
        if not geo:
            bad[kw + "_geometry"] = [p_, q_]
    key = oid.split("/")[3] if oid.count("/") >= 4 else None
    hit = {k: v for k, v in bad.items() if key is None or k.startswith(key)}
    return bool(hit), hit
