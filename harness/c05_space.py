"""C05 — observation runs exactly the requested parameter space, correctly labelled.

Real ParameterValues / ProductMode / SequentialMode / CustomMode code executed on opaque symbolic list
elements and table cells (they pass unharmed through pandas MultiIndex / DataFrame), symbolic
`enabled` flags.  Oracles are independent definitions written from the statement.  Labels attached to
the merged result are checked by replaying every path witness through the real run_mode and
selecting by label.
"""

from __future__ import annotations

import itertools

import numpy as np

import vx
import vxprobes
from vx.core import Fraction, unjson

from .common import make_ccd

PROPERTY = "C05"
LEVEL = "model_checking"
FUNCTIONS = [
    "pyxel.observation.parameter_values:ParameterValues.__init__",
    "pyxel.observation.parameter_values:ParameterValues.__iter__",
    "pyxel.observation.parameter_values:ParameterValues.__len__",
    "pyxel.evaluator:eval_range",
    "pyxel.observation.misc:ProductMode._product_indices",
    "pyxel.observation.misc:ProductMode._product_parameters",
    "pyxel.observation.misc:ProductMode.get_parameters_item",
    "pyxel.observation.misc:ProductMode.create_params",
    "pyxel.observation.misc:SequentialMode._sequential_parameters",
    "pyxel.observation.misc:SequentialMode.get_parameters_item",
    "pyxel.observation.misc:SequentialMode.create_params",
    "pyxel.observation.misc:CustomMode._custom_parameters",
    "pyxel.observation.misc:CustomMode.get_parameters_item",
    "pyxel.observation.misc:CustomMode.create_params",
    "pyxel.observation.misc:CustomMode.build",
    "pyxel.observation.misc:convert_custom_data",
    "pyxel.observation.observation:_get_short_dimension_names_new",
    "pyxel.observation.observation:Observation.validate_steps",
    "pyxel.observation.observation:Observation.run_pipelines",
]
STUBS = ["none: the mode classes run unmodified; list elements and table cells are opaque z3 terms carried by real pandas / xarray containers"]
OUTSIDE = ["coordinate attachment and the final xr.merge are checked on solver-chosen witnesses (concrete replay), not symbolically",
           "dask graph execution (C07); the function each worker executes is driven directly", "numpy expressions are covered for four fixed expression texts"]
ASSUMPTIONS = ["values inside one list are pairwise distinct (pandas / xarray need unique labels)"]
EXPLANATION = "oracle: lexicographic product with mixed-radix indices / concatenation with defaults / one run per table row"

KEYS = ["pipeline.photon_collection.p.arguments.a", "pipeline.charge_generation.q.arguments.a", "detector.environment.temperature",
        "pipeline.photon_collection.p.arguments.v"]


def bounds(tier):
    return {"parameters": "1..3 (4 thorough)", "list_lengths": "1..3", "vector_parameters": "'_' lists of 1..2", "modes": ["product", "sequential", "custom"]}


def _shapes(tier):
    out = []
    for n in (1, 2, 3):
        for lens in itertools.product((1, 2, 3), repeat=n):
            if tier == "quick" and n == 3 and sorted(lens) not in ([1, 2, 3], [2, 2, 2], [1, 1, 2], [2, 3, 3]):
                continue
            out.append(list(lens))
    if tier == "thorough":
        out += [[2, 1, 3, 2], [3, 2, 2, 1]]
    return out


def tasks(tier, seed):
    out = []
    for lens in _shapes(tier):
        lab = "x".join(map(str, lens))
        for order in ("asc", "desc"):
            out.append({"fn": "product", "kwargs": {"lens": lens, "order": order}, "label": f"product/{lab}/{order}", "caps": {"max_seconds": 300}})
        out.append({"fn": "sequential", "kwargs": {"lens": lens}, "label": f"sequential/{lab}"})
    for w in range(len(EXPRS)):
        for mode in ("product", "sequential"):
            out.append({"fn": "product_expr", "kwargs": {"which": w, "mode": mode}, "label": f"expr/{w}/{mode}"})
    for ko in itertools.permutations(range(3)):
        out.append({"fn": "worker_pairing", "kwargs": {"keyorder": list(ko)}, "label": "worker/" + "".join(map(str, ko))})
    for ko in ((0, 2), (2, 0), (1, 2), (2, 1), (0, 1), (1, 0)):
        out.append({"fn": "worker_pairing", "kwargs": {"keyorder": list(ko)}, "label": "worker/" + "".join(map(str, ko))})
    for layout in ([1], [1, 1], [2], [1, 2], [2, 1, 1], [1, 2, 2]):
        for rows in (1, 2, 3):
            out.append({"fn": "custom", "kwargs": {"layout": layout, "rows": rows}, "label": f"custom/{'-'.join(map(str, layout))}/rows={rows}"})
    for rows, lead, trail in ((2, 0, 1), (3, 1, 0), (3, 0, 1), (2, 1, 1)):
        out.append({"fn": "custom_file", "kwargs": {"rows": rows, "lead": lead, "trail": trail}, "label": f"custom_file/rows={rows},lead={lead},trail={trail}"})
    out.append({"fn": "dimnames", "kwargs": {}, "label": "dimnames"})
    return out


def REQUIRED_REACH(tier):
    return ["C05/product/sequence/*", "C05/product/indices/*", "C05/sequential/sequence/*", "C05/sequential/defaults/*", "C05/custom/rows/*",
            "C05/parallel_array/product/*", "C05/parallel_array/sequential/*", "C05/parallel_array/custom/*", "C05/dimnames/collision"]


def _lists(lens, prefix="v", order="asc"):
    """Symbolic value lists, strictly monotone (ascending or descending): pandas sorts index levels, so an
    unordered symbolic list would fork on every comparison of the sort; both directions are covered and
    arbitrary orders by the concrete label replays."""
    lists = []
    for k, n in enumerate(lens):
        vals = [vx.integer(f"{prefix}{k}_{i}") if k % 2 == 0 else vx.real(f"{prefix}{k}_{i}") for i in range(n)]
        for a, b in zip(vals, vals[1:]):
            vx.assume(a < b if order == "asc" else a > b, "values inside one list are strictly monotone (hence distinct)")
        lists.append(vals)
    return lists


def _processor():
    from pyxel.pipelines import DetectionPipeline, ModelFunction, Processor

    pipe = DetectionPipeline(
        scene_generation=[ModelFunction(name="init", func="vxprobes.init_buckets")],
        photon_collection=[ModelFunction(name="p", func="vxprobes.probe", arguments={"tag": "p", "a": -1, "v": [0, 0]})],
        charge_generation=[ModelFunction(name="q", func="vxprobes.probe_a", arguments={"tag": "q", "a": -2})],
    )
    return Processor(detector=make_ccd(2, 2), pipeline=pipe)


def _dim_names(keys):
    from pyxel.observation.observation import _get_short_dimension_names_new
    from pyxel.observation.parameter_values import ParameterType

    return _get_short_dimension_names_new({k: ParameterType.Simple for k in keys})


def product(lens, order="asc"):
    from pyxel.observation import ParameterValues
    from pyxel.observation.misc import ProductMode

    lists = _lists(lens, order=order)
    flags = [vx.boolean(f"en{k}") for k in range(len(lens))]
    params = [ParameterValues(key=KEYS[k], values=lists[k], enabled=flags[k]) for k in range(len(lens))]
    mode = ProductMode(params)
    items = mode.get_parameters_item()
    on = [k for k in range(len(lens)) if bool(flags[k])]  # decided by the run above: no new fork
    lab = "x".join(map(str, lens))
    want = []
    for n, idx in enumerate(itertools.product(*[range(lens[k]) for k in on])):
        want.append((idx, {KEYS[k]: lists[k][i] for k, i in zip(on, idx)}, n))
    ok_seq = [len(items) == len(want)]
    ok_idx = []
    for it, (idx, dct, n) in zip(items, want):
        ok_seq += [set(it.parameters) == set(dct)] + [it.parameters.get(k) is v or it.parameters.get(k) == v for k, v in dct.items()]
        ok_idx += [tuple(it.index) == idx, it.run_index == n]
    vx.prove(f"C05/product/sequence/{lab}", vx.all_of(ok_seq))
    vx.prove(f"C05/product/indices/{lab}", vx.all_of(ok_idx))
    vx.prove(f"C05/product/disabled_ignored/{lab}", all(KEYS[k] not in it.parameters for it in items for k in range(len(lens)) if k not in on))
    if on:
        dn = _dim_names([KEYS[k] for k in on])
        arr = mode.create_params(dim_names=dn)
        ok = [tuple(arr.shape) == tuple(lens[k] for k in on), tuple(arr.dims) == tuple(dn[KEYS[k]] for k in on)]
        # a run is identified by its own parameter tuple: every expected combination occurs in exactly one cell,
        # and every cell sits at the coordinates that carry its own values
        coords = [list(arr.coords[dn[KEYS[k]]].values) for k in on]
        cells = {}
        for idx in itertools.product(*[range(lens[k]) for k in on]):
            cell = arr.values[idx]
            ok.append(len(cell) == len(on) and all(c is coords[j][i] for j, (c, i) in enumerate(zip(cell, idx))))
            cells[tuple(id(c) for c in cell)] = cells.get(tuple(id(c) for c in cell), 0) + 1
        expected = {tuple(id(dct[KEYS[k]]) for k in on) for _, dct, _ in want}
        ok.append(set(cells) == expected and all(v == 1 for v in cells.values()))
        vx.prove(f"C05/parallel_array/product/{lab}", vx.all_of(ok), order=order)
    vx.observe("on", on)


def fidelity_product(kwargs, w):
    """Path witness through the real run_mode: selecting by label yields the data produced with those values."""
    import pyxel
    from pyxel.exposure import Readout
    from pyxel.observation import Observation, ParameterValues

    inp = unjson(w["inputs"])
    lens = kwargs["lens"]
    if len(lens) > 3:
        return True, {"skipped": "4 parameters: label replay limited to 3"}
    lists = [[(int(inp[f"v{k}_{i}"]) if k % 2 == 0 else float(inp[f"v{k}_{i}"])) for i in range(n)] for k, n in enumerate(lens)]
    if any(len(set(l)) != len(l) for l in lists):
        return True, {"skipped": "rounded witness values collide"}
    if len(lens) > 2 and not (0 < min(lists[2]) and max(lists[2]) <= 1000):
        lists[2] = [10.0 + i for i in range(lens[2])]
    flags = [bool(inp[f"en{k}"]) for k in range(len(lens))]
    if not any(flags):
        return True, {"skipped": "no enabled parameter"}
    seen = []

    def hook(d, tag, kwargs_, rec):
        if tag == "p":
            d._memory["pa"] = kwargs_["a"]
        if tag == "q":
            seen.append((d._memory["pa"], kwargs_["a"], d.environment.temperature))
            d.pixel.array = np.full((2, 2), float(len(seen)))

    vxprobes.reset(hook)
    try:
        obs = Observation(parameters=[ParameterValues(key=KEYS[k], values=lists[k], enabled=flags[k]) for k in range(len(lens))], readout=Readout(times=[1.0]))
        dt = pyxel.run_mode(mode=obs, detector=_processor().detector, pipeline=_processor().pipeline, with_inherited_coords=True)
    finally:
        vxprobes.reset(None)
    on = [k for k in range(len(lens)) if flags[k]]
    exp = list(itertools.product(*[lists[k] for k in on]))
    if len(seen) != len(exp):
        return False, {"runs": len(seen), "expected": len(exp)}
    names = {0: "a", 1: "a", 2: "temperature"}
    dn = _dim_names([KEYS[k] for k in on])
    pix = dt["/bucket/pixel"]
    for n, combo in enumerate(exp):
        got = seen[n]
        for k, v in zip(on, combo):
            if abs(float(got[k]) - float(v)) > 1e-9 * max(1, abs(v)):
                return False, {"run": n, "received": got, "expected": combo}
        sel = pix.sel({dn[KEYS[k]]: v for k, v in zip(on, combo)})
        if not np.allclose(np.asarray(sel).squeeze(), float(n + 1)):
            return False, {"run": n, "label": combo, "selected": np.asarray(sel).tolist()}
    return True, {"runs": len(seen)}


def _seq_params(mode, dn, proc):
    """SequentialMode.create_params, whatever its signature (the processor supplies the default values)."""
    import inspect

    if "processor" in inspect.signature(mode.create_params).parameters:
        return mode.create_params(dim_names=dn, processor=proc)
    return mode.create_params(dim_names=dn)


def sequential(lens, order="asc"):
    from pyxel.observation import ParameterValues
    from pyxel.observation.misc import SequentialMode

    lists = _lists(lens, order=order)
    flags = [vx.boolean(f"en{k}") for k in range(len(lens))]
    params = [ParameterValues(key=KEYS[k], values=lists[k], enabled=flags[k]) for k in range(len(lens))]
    proc = _processor()
    defaults = {}
    for k in range(len(lens)):
        d = vx.integer(f"default{k}") if k != 2 else 150.0
        defaults[KEYS[k]] = d
        proc.set(KEYS[k], d, convert_value=False) if k != 2 else proc.set(KEYS[k], d)
    mode = SequentialMode(params)
    items = mode.get_parameters_item(processor=proc)
    on = [k for k in range(len(lens)) if bool(flags[k])]
    lab = "x".join(map(str, lens))
    want = []
    for k in on:
        for v in lists[k]:
            d = {KEYS[j]: defaults[KEYS[j]] for j in on}
            d[KEYS[k]] = v
            want.append(d)
    ok = [len(items) == len(want)]
    okd = []
    for n, (it, d) in enumerate(zip(items, want)):
        ok += [set(it.parameters) == set(d), it.run_index == n, it.index == n]
        for key, v in d.items():
            got = it.parameters.get(key)
            (okd if v is defaults[key] else ok).append(got is v or got == v)
    vx.prove(f"C05/sequential/sequence/{lab}", vx.all_of(ok))
    vx.prove(f"C05/sequential/defaults/{lab}", vx.all_of(okd))
    if on:
        # the parameter array of the parallel path must denote the same runs: one changed key at a time,
        # the others at the processor's configured values
        dn = _dim_names([KEYS[k] for k in on])
        try:
            arr = _seq_params(mode, dn, proc)
            cells = [tuple(c) for c in arr.values.tolist()]
            same = len(cells) == len(want) and all(
                all((c[j] is want[n][KEYS[k]] or bool(c[j] == want[n][KEYS[k]])) for j, k in enumerate(on)) for n, c in enumerate(cells))
        except Exception:  # noqa: BLE001
            same = False
        vx.prove(f"C05/parallel_array/sequential/{lab}", same, n_on=len(on), lens=[lens[k] for k in on])
    vx.observe("on", on)


def custom(layout, rows):
    import pandas as pd

    from pyxel.observation import ParameterValues
    from pyxel.observation.misc import CustomMode

    ncol = sum(layout)
    cells = [[vx.integer(f"c{r}_{c}") for c in range(ncol)] for r in range(rows)]
    skeys = iter([KEYS[0], KEYS[1], KEYS[2]])
    vkeys = iter([KEYS[3], "pipeline.charge_generation.q.arguments.w"])
    params = []
    for k, n in enumerate(layout):
        if n == 1:
            params.append(ParameterValues(key=next(skeys), values="_"))
        else:
            params.append(ParameterValues(key=next(vkeys), values=["_"] * n))
    flag = vx.boolean("en_extra")
    params.append(ParameterValues(key="detector.geometry.pixel_scale", values=[1, 2], enabled=False))
    df = pd.DataFrame(cells)
    mode = CustomMode(parameters=params, custom_data=df)
    items = mode.get_parameters_item(processor=None)
    lab = "-".join(map(str, layout)) + f"/rows={rows}"
    ok = [len(items) == rows]
    for r, it in enumerate(items):
        ok += [it.run_index == r, it.index == r, len(it.parameters) == len(layout)]
        col = 0
        for k, n in enumerate(layout):
            got = it.parameters.get(params[k].key)
            if params[k].values == "_":
                ok.append(got is cells[r][col])
            else:
                ok.append(len(got) == n)
                ok += [g is cells[r][col + j] for j, g in enumerate(got)]
            col += n
    vx.prove(f"C05/custom/rows/{lab}", vx.all_of(ok))
    vx.prove(f"C05/custom/disabled_ignored/{lab}", all("detector.geometry.pixel_scale" not in it.parameters for it in items))
    on_keys = [p.key for p in params[:-1]]
    dn = _dim_names(on_keys)
    arr = mode.create_params(dim_names=dn)
    got_cells = arr.values.tolist()
    okp = [len(got_cells) == rows]
    for r, cell in enumerate(got_cells):
        col = 0
        okp.append(len(cell) == len(layout))
        for k, n in enumerate(layout):
            if n == 1:
                okp.append(cell[k] is cells[r][col])
            else:
                okp += [len(cell[k]) == n] + [g is cells[r][col + j] for j, g in enumerate(cell[k])]
            col += n
    vx.prove(f"C05/parallel_array/custom/{lab}", vx.all_of(okp))


def _custom_from_table(table, lead, ncol):
    """CustomMode.build on a table (the table file stubbed or real); returns the per-run parameter cells."""
    from pyxel.observation import ParameterValues
    from pyxel.observation.misc import CustomMode

    params = [ParameterValues(key=KEYS[k], values="_") for k in range(ncol)]
    mode = CustomMode.build(parameters=params, custom_file=table, custom_columns=slice(lead, lead + ncol - 1))  # label-based, inclusive (column_range of the configuration)
    items = mode.get_parameters_item(processor=None)
    return [[it.run_index, it.index] + [it.parameters.get(KEYS[k]) for k in range(ncol)] for it in items]


def custom_file(rows, lead, trail):
    """Custom mode built from a table file (CustomMode.build) that is wider than the selected column range: `lead` columns in front
    and `trail` columns behind the used ones hold remarks that may be missing (each cell symbolic: present or empty).  One run per
    table row, each with the cells of its own row, whatever the unused columns hold."""
    import pandas as pd

    ncol = 2
    cells = [[vx.integer(f"c{r}_{c}") for c in range(ncol)] for r in range(rows)]
    holes = [[bool(vx.boolean(f"empty{r}_{c}")) for c in range(lead + trail)] for r in range(rows)]
    data = []
    for r in range(rows):
        extra = [float("nan") if h else 7.0 + r for h in holes[r]]
        data.append(extra[:lead] + cells[r] + extra[lead:])
    df = pd.DataFrame(data, dtype=object)
    from vx.patching import Patch

    with Patch() as p:
        import pyxel

        p.attr(pyxel, "load_table", lambda filename, **kw: df.copy(), "returns the symbolic table")
        got = _custom_from_table("table.txt", lead, ncol)
    lab = f"rows={rows},lead={lead},trail={trail}"
    ok = [len(got) == rows]
    for r, g in enumerate(got[:rows]):
        ok += [g[0] == r, g[1] == r] + [g[2 + c] is cells[r][c] for c in range(ncol)]
    vx.prove(f"C05/custom_file/one_run_per_row/{lab}", vx.all_of(ok), runs=len(got))


EXPRS = ["numpy.arange(3)", "numpy.linspace(1, 2, 30)", "numpy.arange(0.5, 2.0, 0.5)", "numpy.logspace(0, 2, 3)"]


def product_expr(which, mode):
    """Value lists given as textual numpy expressions (as in the YAML files): the runs are the evaluated values - as many as the
    expression yields, whatever the length of its text - combined with a symbolic literal list."""
    import numpy as _np

    from pyxel.observation import ParameterValues
    from pyxel.observation.misc import ProductMode, SequentialMode

    expr = EXPRS[which]
    evaluated = [v.item() if hasattr(v, "item") else v for v in eval(expr, {"numpy": _np})]  # noqa: S307 - fixed strings above
    lit = [vx.integer("lit_0"), vx.integer("lit_1")]
    vx.assume(lit[0] < lit[1], "literal values distinct")
    first = vx.boolean("expression_first")
    params = [ParameterValues(key=KEYS[1], values=expr), ParameterValues(key=KEYS[0], values=lit)]
    if not bool(first):
        params.reverse()
    lists = [evaluated if p_.key == KEYS[1] else lit for p_ in params]
    lab = f"{expr.replace(' ', '')}/{mode}"
    if mode == "product":
        items = ProductMode(params).get_parameters_item()
        want = [(idx, {params[0].key: lists[0][idx[0]], params[1].key: lists[1][idx[1]]}) for idx in itertools.product(range(len(lists[0])), range(len(lists[1])))]
        ok = [len(items) == len(want)]
        for it, (idx, dct) in zip(items, want):
            ok += [tuple(it.index) == idx] + [it.parameters.get(k) is v or it.parameters.get(k) == v for k, v in dct.items()]
        vx.prove(f"C05/product/numpy_expression/{lab}", vx.all_of(ok), runs=len(items), expected=len(want))
    else:
        proc = _processor()
        items = SequentialMode(params).get_parameters_item(processor=proc)
        want = []
        for p_, lst in zip(params, lists):
            for v in lst:
                d = {q.key: proc.get(q.key) for q in params}
                d[p_.key] = v
                want.append(d)
        ok = [len(items) == len(want)]
        for it, dct in zip(items, want):
            ok += [it.parameters.get(k) is v or it.parameters.get(k) == v for k, v in dct.items()]
        vx.prove(f"C05/sequential/numpy_expression/{lab}", vx.all_of(ok), runs=len(items), expected=len(want))


WKEYS = ["pipeline.photon_collection.p.arguments.a", "pipeline.charge_generation.q.arguments.a", "pipeline.photon_collection.p.arguments.v"]


def _worker_run(keyorder, values):
    """Parallel path for one cell: dimension names, parameter array, then the function every dask worker executes."""
    import vxprobes
    from pyxel.exposure import Readout
    from pyxel.observation import ParameterValues
    from pyxel.observation.misc import ProductMode
    from pyxel.observation.observation_dask import _run_pipelines_array_to_datatree

    keys = [WKEYS[i] for i in keyorder]
    dn = _dim_names(keys)
    mode = ProductMode([ParameterValues(key=k, values=[values[k]]) for k in keys])
    arr = mode.create_params(dim_names=dn)
    cell = tuple(arr.values[(0,) * len(keys)])
    seen = {}

    def hook(d, tag, kw, rec):
        seen[tag] = dict(kw)
        if d.pixel._array is None:
            d.pixel.array = np.zeros((2, 2))

    vxprobes.reset(hook)
    try:
        _run_pipelines_array_to_datatree(params_tuple=cell, output_filename_suffix=None, dimension_names=dn, processor=_processor(), readout=Readout(times=[1.0]),
                                         outputs=None, pipeline_seed=None, progressbar=False)
    finally:
        vxprobes.reset(None)
    return keys, dn, seen


def worker_pairing(keyorder):
    """A dask worker receives one cell of the parameter array and pairs its values with the keys of the dimension-name mapping
    positionally: every model must end up with the value requested for *its* key, whatever the declaration order."""
    values = {k: vx.integer(f"x{i}") for i, k in enumerate(WKEYS)}
    keys, dn, seen = _worker_run(keyorder, values)
    lab = "".join(map(str, keyorder))
    vx.prove(f"C05/worker/mapping_in_declaration_order/{lab}", list(dn) == keys and len(set(dn.values())) == len(keys))
    ok = []
    for k in keys:
        _, grp, name, _, arg = k.split(".")
        got = seen.get(name, {}).get(arg)
        ok.append(got is values[k] or got == values[k])
    vx.prove(f"C05/worker/each_model_gets_its_own_value/{lab}", vx.all_of(ok), seen=repr(seen)[:200])


def dimnames():
    from pyxel.observation.observation import _get_short_dimension_names_new
    from pyxel.observation.parameter_values import ParameterType

    keys = [KEYS[0], KEYS[1], KEYS[2], "observation.readout.times"]
    dn = _get_short_dimension_names_new({k: ParameterType.Simple for k in keys})
    vx.prove("C05/dimnames/collision", len(set(dn.values())) == len(keys) and dn[KEYS[2]] == "temperature" and dn[KEYS[0]] == "p.a" and dn[KEYS[1]] == "q.a")
    dn2 = _get_short_dimension_names_new({k: ParameterType.Simple for k in keys[2:]})
    vx.prove("C05/dimnames/short", dn2[KEYS[2]] == "temperature" and dn2["observation.readout.times"] == "readout_time")


def _replay_custom(oid, kwargs, model):
    import pandas as pd

    from pyxel.observation import ParameterValues
    from pyxel.observation.misc import CustomMode

    layout, rows = kwargs["layout"], kwargs["rows"]
    ncol = sum(layout)
    cells = [[100 * r + c for c in range(ncol)] for r in range(rows)]
    skeys = iter([KEYS[0], KEYS[1], KEYS[2]])
    vkeys = iter([KEYS[3], "pipeline.charge_generation.q.arguments.w"])
    params = [ParameterValues(key=next(skeys), values="_") if n == 1 else ParameterValues(key=next(vkeys), values=["_"] * n) for n in layout]
    mode = CustomMode(parameters=params, custom_data=pd.DataFrame(cells))
    items = mode.get_parameters_item(processor=None)
    bad = []
    for r, it in enumerate(items):
        col = 0
        for k, n in enumerate(layout):
            got = it.parameters.get(params[k].key)
            want = cells[r][col] if n == 1 else cells[r][col : col + n]
            if (list(got) if n > 1 else got) != want:
                bad.append({"row": r, "parameter": params[k].key, "got": list(got) if n > 1 else got, "table_columns": want})
            col += n
    if len(items) != rows:
        bad.append({"runs": len(items), "rows": rows})
    if not bad and "parallel_array" in oid:
        arr = mode.create_params(dim_names=_dim_names([p.key for p in params]))
        for r, cell in enumerate(arr.values.tolist()):
            col = 0
            for k, n in enumerate(layout):
                want = cells[r][col] if n == 1 else tuple(cells[r][col : col + n])
                if cell[k] != want:
                    bad.append({"row": r, "parallel_cell": cell[k], "want": want})
                col += n
    return bool(bad), {"mismatches": bad[:6]}


def replay(oid, kwargs, model, data):
    fn = data["fn"]
    if fn == "product_expr":
        import numpy as _np

        from pyxel.observation import ParameterValues
        from pyxel.observation.misc import ProductMode, SequentialMode

        expr = EXPRS[kwargs["which"]]
        evaluated = [v.item() for v in eval(expr, {"numpy": _np})]  # noqa: S307
        lit = [int(model.get("lit_0", 1)), int(model.get("lit_1", 2))]
        if lit[0] >= lit[1]:
            lit = [1, 2]
        params = [ParameterValues(key=KEYS[1], values=expr), ParameterValues(key=KEYS[0], values=lit)]
        if not bool(model.get("expression_first", True)):
            params.reverse()
        if kwargs["mode"] == "product":
            items = ProductMode(params).get_parameters_item()
            want = len(evaluated) * 2
        else:
            items = SequentialMode(params).get_parameters_item(processor=_processor())
            want = len(evaluated) + 2
        got_vals = sorted({float(it.parameters[KEYS[1]]) for it in items if KEYS[1] in it.parameters})
        bad = len(items) != want or not set(float(v) for v in evaluated) <= set(got_vals)
        return bad, {"expression": expr, "values_it_yields": len(evaluated), "runs_planned": len(items), "runs_expected": want}
    if fn == "worker_pairing":
        vals = {k: int(model.get(f"x{i}", 0)) for i, k in enumerate(WKEYS)}
        if len(set(vals.values())) < len(vals):
            vals = {k: 11 * (i + 1) for i, k in enumerate(WKEYS)}
        keys, dn, seen = _worker_run(kwargs["keyorder"], vals)
        got = {k: seen.get(k.split(".")[2], {}).get(k.split(".")[4]) for k in keys}
        return got != {k: vals[k] for k in keys} or list(dn) != keys, {"requested": {k: vals[k] for k in keys}, "models_received": got, "dimension_names": dict(dn)}
    if fn == "custom":
        return _replay_custom(oid, kwargs, model)
    if fn == "custom_file":
        import os
        import tempfile

        import numpy as _np

        rows, lead, trail = kwargs["rows"], kwargs["lead"], kwargs["trail"]
        cells = [[float(int(model.get(f"c{r}_{c}", 10 * r + c))) for c in range(2)] for r in range(rows)]
        if len({tuple(c) for c in cells}) < rows:
            cells = [[10.0 * r + 1, 10.0 * r + 2] for r in range(rows)]
        tmp = tempfile.mkdtemp(prefix="vx_c05_")
        path = os.path.join(tmp, "table.txt")
        try:
            with open(path, "w") as fh:
                for r in range(rows):
                    extra = ["" if bool(model.get(f"empty{r}_{c}", False)) else repr(7.0 + r) for c in range(lead + trail)]
                    fh.write(",".join(extra[:lead] + [repr(v) for v in cells[r]] + extra[lead:]) + "\n")
            try:
                got = _custom_from_table(path, lead, 2)
                err = None
            except Exception as e:  # noqa: BLE001
                got, err = [], f"{type(e).__name__}: {e}"
        finally:
            os.remove(path)
            os.rmdir(tmp)
        want = [[r, r] + cells[r] for r in range(rows)]
        have = [[int(g[0]), int(g[1])] + [float(x) for x in g[2:]] for g in got]
        return have != want, {"table_rows": cells, "runs": have, "error": err}
    if fn == "sequential":
        import pandas as pd

        from pyxel.observation import ParameterValues
        from pyxel.observation.misc import SequentialMode

        lens = kwargs["lens"]
        lists = [[(int(model.get(f"v{k}_{i}", i)) if k % 2 == 0 else float(model.get(f"v{k}_{i}", i))) for i in range(n)] for k, n in enumerate(lens)]
        for k in range(len(lists)):
            if len(set(lists[k])) != len(lists[k]):
                lists[k] = [10.0 + i + 100 * k for i in range(lens[k])]
        flags = [bool(model.get(f"en{k}", True)) for k in range(len(lens))]
        on = [k for k in range(len(lens)) if flags[k]]
        params = [ParameterValues(key=KEYS[k], values=lists[k], enabled=flags[k]) for k in range(len(lens))]
        proc = _processor()
        for k in range(len(lens)):
            if k != 2 and f"default{k}" in model:
                proc.set(KEYS[k], int(model[f"default{k}"]), convert_value=False)
        mode = SequentialMode(params)
        items = mode.get_parameters_item(processor=proc)
        want = []
        for k in on:
            for v in lists[k]:
                d = {KEYS[j]: proc.get(KEYS[j]) for j in on}
                d[KEYS[k]] = v
                want.append(d)
        if "parallel_array" in oid:
            dn = _dim_names([KEYS[k] for k in on])
            try:
                arr = _seq_params(mode, dn, proc)
                cells = [tuple(c) for c in arr.values.tolist()]
            except Exception as e:  # noqa: BLE001
                return True, {"create_params_raised": repr(e)}
            exp = [tuple(d[KEYS[k]] for k in on) for d in want]
            return cells != exp, {"parallel_runs": cells[:8], "sequential_runs": exp[:8], "n_parallel": len(cells), "n_sequential": len(exp)}
        got = [dict(it.parameters) for it in items]
        return got != want, {"got": got[:6], "want": want[:6]}
    if fn == "product":
        from pyxel.observation import ParameterValues
        from pyxel.observation.misc import ProductMode

        lens = kwargs["lens"]
        lists = [[(int(model.get(f"v{k}_{i}", i)) if k % 2 == 0 else float(model.get(f"v{k}_{i}", i))) for i in range(n)] for k, n in enumerate(lens)]
        for k in range(len(lists)):
            if len(set(lists[k])) != len(lists[k]):
                lists[k] = [10.0 + i + 100 * k for i in range(lens[k])]
        flags = [bool(model.get(f"en{k}", True)) for k in range(len(lens))]
        on = [k for k in range(len(lens)) if flags[k]]
        mode = ProductMode([ParameterValues(key=KEYS[k], values=lists[k], enabled=flags[k]) for k in range(len(lens))])
        items = mode.get_parameters_item()
        want = [(idx, {KEYS[k]: lists[k][i] for k, i in zip(on, idx)}, n) for n, idx in enumerate(itertools.product(*[range(lens[k]) for k in on]))]
        got = [(tuple(it.index), dict(it.parameters), it.run_index) for it in items]
        bad = got != want
        if not bad and on and "parallel_array" in oid:
            dn = _dim_names([KEYS[k] for k in on])
            arr = mode.create_params(dim_names=dn)
            coords = [list(arr.coords[dn[KEYS[k]]].values) for k in on]
            cells = [tuple(arr.values[idx]) for idx in itertools.product(*[range(lens[k]) for k in on])]
            at_own_label = all(tuple(arr.values[idx]) == tuple(coords[j][i] for j, i in enumerate(idx)) for idx in itertools.product(*[range(lens[k]) for k in on]))
            expected = sorted(tuple(d[KEYS[k]] for k in on) for idx, d, n in want)
            bad = (not at_own_label) or sorted(cells) != expected
            return bad, {"cells_sit_at_the_coordinates_carrying_their_values": at_own_label, "cells": [list(map(float, c)) for c in cells][:8], "labels": [list(map(float, c)) for c in coords]}
        return bad, {"got": got[:4], "want": want[:4]}
    return False, {}
