"""C06 — parameter runs are isolated from each other and from the caller's objects.

One inductive step from an arbitrary valid state: every settable detector field holds a symbolic
value, buckets / detector memory / trapped charge are symbolic arrays, model arguments are symbolic
scalars and mutable lists / dicts.  `new = f(processor, {key: v})` for every entry point that makes a
per-run copy; then the copy is havocked (fresh values in every leaf, arrays mutated in place, mutable
arguments appended to, a mutating probe model run on it) and the solver must show that every leaf of
the caller's processor still equals its initial term.  Because the caller's state is invariant under
any run, every run starts from the same state: independence of order, subset and failures follows.
"""

from __future__ import annotations

import copy

import numpy as np

import vx
import vxprobes
from vx import symnp
from vx.core import unjson
from vx.patching import Patch

from .c08_keys import GEO, INTS, RANGE, _make_det
from .common import DATA_MODULES, arr_eq, sym_array

PROPERTY = "C06"
LEVEL = "model_checking"
FUNCTIONS = [
    "pyxel.pipelines.processor:Processor.__deepcopy__",
    "pyxel.pipelines.model_group:ModelGroup.__deepcopy__",
    "pyxel.observation.misc:create_new_processor",
    "pyxel.pipelines.processor:Processor.replace",
    "pyxel.calibration.fitting_datatree:ModelFittingDataTree.update_processor",
    "pyxel.calibration.fitting_datatree:build_processors",
    "pyxel.pipelines.processor:Processor.set",
    "pyxel.observation.observation:Observation._run_single_pipeline",
]
STUBS = ["np -> vx.symnp in pipelines.processor, data_structure.*, detectors.characteristics, exposure.readout, detectors.readout_properties",
         "_extract_datatree_2d -> empty DataTree while the mutating probe model runs on the copy"]
OUTSIDE = ["equality of a run's result with a standalone exposure's result is a concrete replay (C05 label replays), not a solver obligation",
           "dask worker processes (pickling) — C07"]
ASSUMPTIONS = ["pre-state holds valid values"]
EXPLANATION = "frame condition + havoc of the copy; single path per (entry point, key)"
SHAPE = (2, 2)
ENTRIES = ("deepcopy", "create_new_processor", "replace", "update_processor", "build_processors")
KEYS = ["detector.geometry.total_thickness", "detector.environment.temperature", "detector.characteristics.quantum_efficiency",
        "detector.characteristics.full_well_capacity", "pipeline.photon_collection.m1.arguments.level", "pipeline.photon_collection.m1.arguments.opt",
        "pipeline.charge_generation.m3.arguments.level", "pipeline.photon_collection.m2.enabled", "observation.readout.times"]


def bounds(tier):
    return {"entry_points": list(ENTRIES) + ["_run_single_pipeline with a mutating model"], "keys": KEYS, "buckets": "2x2 symbolic photon, pixel, signal, image, charge, memory, trapped charge"}


def tasks(tier, seed):
    out = []
    for e in ENTRIES:
        for k in (KEYS if e != "deepcopy" else KEYS[:1]):
            if k.startswith("observation.") and e not in ("create_new_processor", "replace"):
                continue  # not a calibration variable
            out.append({"fn": "step", "kwargs": {"entry": e, "key": k}, "label": f"{e}/{k}"})
    out.append({"fn": "run_mutating", "kwargs": {"n": 1}, "label": "run/mutating_model/n=1"})
    out.append({"fn": "run_mutating", "kwargs": {"n": 2}, "label": "run/mutating_model/n=2"})
    return out


def REQUIRED_REACH(tier):
    return ["C06/copy/frame/*", "C06/copy/target_set/*", "C06/havoc/caller_unchanged/*", "C06/run/caller_unchanged/*"]


MODS = ("pyxel.pipelines.processor", "pyxel.detectors.characteristics", "pyxel.exposure.readout", "pyxel.detectors.readout_properties") + DATA_MODULES


def _state(sym_enabled=True):
    """Processor in an arbitrary valid state + a function returning the flat list of all its leaves."""
    from pyxel.data_structure import Persistence
    from pyxel.pipelines import DetectionPipeline, ModelFunction, Processor

    d = _make_det("cmos")
    d.geometry._row, d.geometry._col = SHAPE
    d._initialize()
    for f in GEO[2:]:
        v = vx.real("geo_" + f)
        lo, hi = RANGE[f]
        vx.assume((v > lo) & (v <= hi), "pre-state holds valid values")
        setattr(d.geometry, "_" + f, v)
    t = vx.real("env_temperature")
    vx.assume((t > 0) & (t <= 1000), "pre-state holds valid values")
    d.environment._temperature = t
    for f in ("quantum_efficiency", "charge_to_volt_conversion", "pre_amplification", "full_well_capacity"):
        v = vx.real("char_" + f)
        lo, hi = RANGE[f]
        vx.assume((v >= lo) & (v <= hi), "pre-state holds valid values")
        setattr(d.characteristics, "_" + f, v)
    d.photon._array = sym_array("photon", SHAPE)
    d.pixel._array = sym_array("pixel", SHAPE)
    d.signal._array = sym_array("signal", SHAPE)
    d.image._array = sym_array("image", SHAPE, kind="int", dtype="uint16")
    d.charge._array = sym_array("charge", SHAPE)
    # models keep state in the memory the detector came with (filled in place, as the models do: never re-bound)
    d._memory.clear()
    d._memory.update({"trap": sym_array("mem", SHAPE), "counter": vx.integer("mem_counter")})
    d._persistence = Persistence(trap_time_constants=[1.0, 10.0], trap_proportions=[0.5, 0.5], geometry=SHAPE)
    d._persistence._trapped_charge_array = sym_array("trapped", (2,) + SHAPE) if hasattr(d._persistence, "_trapped_charge_array") else None
    if d._persistence._trapped_charge_array is None:
        d._persistence.trapped_charge_array = sym_array("trapped", (2,) + SHAPE)
    def en(name):
        # whether a model is switched on is part of the arbitrary state (copies must not treat switched-off models differently)
        return bool(vx.boolean(f"{name}_enabled")) if sym_enabled else True

    pipe = DetectionPipeline(
        photon_collection=[ModelFunction(func="vxprobes.probe", name="m1", arguments={"level": vx.real("m1_level"), "opt": [vx.real("m1_opt0"), vx.real("m1_opt1")],
                                                                                         "cfg": {"a": vx.integer("m1_cfg_a")}}, enabled=en("m1")),
                           ModelFunction(func="vxprobes.probe_a", name="m2", arguments={"level": vx.real("m2_level")}, enabled=en("m2"))],
        charge_generation=[ModelFunction(func="vxprobes.probe_b", name="m3", arguments={"level": vx.real("m3_level")}, enabled=en("m3"))],
    )
    # the running mode the user passed in travels with the processor (exposure-time sweeps address it as `observation.readout.*`)
    from pyxel.exposure import Readout
    from pyxel.observation import Observation, ParameterValues

    r0, r1 = vx.real("readout_t0"), vx.real("readout_t1")
    vx.assume((r0 > 0) & (r0 < r1), "the caller's readout schedule is valid")
    obs = Observation(parameters=[ParameterValues(key="pipeline.photon_collection.m1.arguments.level", values=[1, 2])], readout=Readout(times=[r0, r1], start_time=0.0))
    return Processor(detector=d, pipeline=pipe, observation_mode=obs)


def _trapped(d):
    p = d._persistence
    return getattr(p, "_trapped_charge_array", None) if getattr(p, "_trapped_charge_array", None) is not None else p.trapped_charge_array


def _leaves(proc):
    d = proc.detector
    out = {}
    for f in GEO:
        out["geometry." + f] = getattr(d.geometry, "_" + f)
    out["environment.temperature"] = d.environment._temperature
    for f in ("quantum_efficiency", "charge_to_volt_conversion", "pre_amplification", "full_well_capacity", "adc_bit_resolution", "adc_voltage_range"):
        out["characteristics." + f] = getattr(d.characteristics, "_" + f)
    for b in ("photon", "pixel", "signal", "image", "charge"):
        a = getattr(d, b)._array
        out["bucket." + b] = None if a is None else list(symnp.asarray(a).elems())
    out["memory.trap"] = list(symnp.asarray(d._memory["trap"]).elems())
    out["memory.counter"] = d._memory["counter"]
    out["memory.keys"] = sorted(d._memory)
    out["trapped"] = list(symnp.asarray(_trapped(d)).elems())
    for grp in ("photon_collection", "charge_generation"):
        for m in getattr(proc.pipeline, grp).models:
            out[f"{grp}.{m.name}.enabled"] = m.enabled
            for k, v in m.arguments._arguments.items():
                out[f"{grp}.{m.name}.{k}"] = copy.copy(v) if isinstance(v, (list, dict)) else v
            out[f"{grp}.{m.name}.argnames"] = sorted(m.arguments._arguments)
    if proc.observation is not None:
        ro = proc.observation.readout
        out["observation.readout.times"] = list(symnp.asarray(ro._times).elems())
        out["observation.readout.steps"] = list(symnp.asarray(ro._steps).elems())
        out["observation.readout.start_time"] = ro._start_time
        out["observation.readout.non_destructive"] = ro._non_destructive
    return out


def _eq(a, b):
    if isinstance(a, list) and isinstance(b, list):
        return vx.all_of([len(a) == len(b)] + [_eq(x, y) for x, y in zip(a, b)]) if len(a) == len(b) else False
    if isinstance(a, dict) and isinstance(b, dict):
        return vx.all_of([sorted(a) == sorted(b)] + [_eq(a[k], b[k]) for k in a if k in b])
    if isinstance(a, tuple) and isinstance(b, tuple):
        return _eq(list(a), list(b))
    if a is b:
        return True
    return a == b


def _havoc(proc):
    """Overwrite / mutate everything reachable from the copy."""
    d = proc.detector
    n = [0]

    def fresh():
        n[0] += 1
        return vx.real(f"havoc_{n[0]}")

    for f in GEO[2:]:
        setattr(d.geometry, "_" + f, fresh())
    d.environment._temperature = fresh()
    for f in ("quantum_efficiency", "charge_to_volt_conversion", "pre_amplification", "full_well_capacity"):
        setattr(d.characteristics, "_" + f, fresh())
    for b in ("photon", "pixel", "signal", "charge"):
        a = getattr(d, b)._array
        if a is None:  # a copy that lost a bucket: the caller-side obligations report it
            continue
        a += 1.5  # in place
        a[0, 0] = fresh()
    if d.image._array is not None:
        d.image._array += 1
    d._memory["trap"] *= 2
    d._memory["counter"] = vx.integer("havoc_counter")
    d._memory["new_entry"] = 1
    t = _trapped(d)
    t += 3.0
    for grp in ("photon_collection", "charge_generation"):
        for m in getattr(proc.pipeline, grp).models:
            m.enabled = not m.enabled
            for k, v in list(m.arguments._arguments.items()):
                if isinstance(v, list):
                    v.append(fresh())
                    v[0] = fresh()
                elif isinstance(v, dict):
                    v["a"] = fresh()
                    v["new"] = 1
                else:
                    m.arguments._arguments[k] = fresh()
    getattr(proc.pipeline, "photon_collection").models.pop()
    if proc.observation is not None:
        ro = proc.observation.readout
        ro._start_time = fresh()
        ro._non_destructive = True
        tt = symnp.asarray(ro._times)
        tt[0] = fresh()


def _value_for(key):
    if key.endswith(".enabled"):
        return vx.boolean("v")
    if key.endswith(".opt"):
        return [vx.real("v0"), vx.real("v1"), vx.real("v2")]
    if key.endswith("readout.times"):
        t = [vx.real("v0"), vx.real("v1"), vx.real("v2")]
        vx.assume((t[0] > 0) & (t[0] < t[1]) & (t[1] < t[2]), "swept readout times are a valid schedule")
        return t
    v = vx.real("v")
    fld = key.rsplit(".", 1)[-1]
    if key.startswith("detector.") and fld in RANGE:
        lo, hi = RANGE[fld]
        vx.assume((v > lo) & (v <= hi), "assigned value inside the documented range")
    return v


LEAF_OF_KEY = {
    "detector.geometry.total_thickness": "geometry.total_thickness", "detector.environment.temperature": "environment.temperature",
    "detector.characteristics.quantum_efficiency": "characteristics.quantum_efficiency", "detector.characteristics.full_well_capacity": "characteristics.full_well_capacity",
    "pipeline.photon_collection.m1.arguments.level": "photon_collection.m1.level", "pipeline.photon_collection.m1.arguments.opt": "photon_collection.m1.opt",
    "pipeline.charge_generation.m3.arguments.level": "charge_generation.m3.level", "pipeline.photon_collection.m2.enabled": "photon_collection.m2.enabled",
    "observation.readout.times": "observation.readout.times",
}


def step(entry, key):
    from pyxel.calibration.fitting_datatree import ModelFittingDataTree, build_processors
    from pyxel.observation import ParameterValues
    from pyxel.observation.misc import create_new_processor

    with Patch() as p:
        p.numpy(*MODS)
        p.builtins("pyxel.detectors.environment", "isinstance", "float", "int")
        proc = _state()
        before = _leaves(proc)
        v = _value_for(key)
        if entry == "deepcopy":
            new = copy.deepcopy(proc)
            target = None
        elif entry == "create_new_processor":
            new = create_new_processor(processor=proc, parameter_dict={key: v})
            target = key
        elif entry == "replace":
            new = proc.replace({key: v})
            target = key
        elif entry == "update_processor":
            prob = ModelFittingDataTree.__new__(ModelFittingDataTree)
            if isinstance(v, list):
                prob._variables = [ParameterValues(key=key, values=["_"] * 3, boundaries=(0.0, 1.0))]
                new = prob.update_processor(parameter=symnp.asarray(v), processor=proc)
                v = list(v)
            elif isinstance(v, vx.SymBool):
                return  # a boolean flag is not a calibration variable
            else:
                prob._variables = [ParameterValues(key=key, values="_", boundaries=(0.0, 1.0))]
                new = prob.update_processor(parameter=symnp.asarray([v]), processor=proc)
            target = key
        else:
            if isinstance(v, (list, vx.SymBool)):
                vals = [v, v]
            else:
                v2 = vx.real("v_second")
                vx.assume((v2 > 0) & (v2 <= 1) & (v2 != v), "second value of the list valid and different")
                vals = [v, v2]
            procs = build_processors(processor=proc, arguments=[ParameterValues(key=key, values=vals)])
            new = procs[0]
            target = key
            other = procs[1]
        lab = f"{entry}/{key}"
        mid = _leaves(proc)
        newl = _leaves(new)
        vx.prove(f"C06/copy/caller_unchanged_by_copy/{lab}", vx.all_of([_eq(mid[k], before[k]) for k in before]))
        tl = LEAF_OF_KEY.get(target)
        derived = {"observation.readout.steps"} if tl == "observation.readout.times" else set()  # steps are a function of the times
        vx.prove(f"C06/copy/frame/{lab}", vx.all_of([_eq(newl[k], before[k]) for k in before if k != tl and k not in derived]))
        if target is not None:
            got = newl[tl]
            if isinstance(got, symnp.SymArray):
                got = list(got.elems())
            vx.prove(f"C06/copy/target_set/{lab}", _eq(got, v))
        vx.prove(f"C06/copy/distinct_objects/{lab}", new is not proc and new.detector is not proc.detector and new.pipeline is not proc.pipeline
                 and new.detector._memory is not proc.detector._memory)
        _havoc(new)
        after = _leaves(proc)
        vx.prove(f"C06/havoc/caller_unchanged/{lab}", vx.all_of([_eq(after[k], before[k]) for k in before]))
        if entry == "build_processors":
            ol = _leaves(other)
            vx.prove(f"C06/calibration/build_processors/independent/{key}", vx.all_of([_eq(ol[k], before[k]) for k in before if k != tl]))


def run_mutating(n):
    """A model that mutates its own arguments and the detector memory runs on the per-run copy only."""
    import xarray as xr

    from pyxel.exposure import Readout
    from pyxel.observation import Observation, ParameterValues
    from pyxel.observation.misc import ParameterEntry

    with Patch() as p:
        p.numpy(*MODS)
        p.builtins("pyxel.detectors.environment", "isinstance", "float", "int")
        p.attr("pyxel.exposure.exposure", "_extract_datatree_2d", lambda detector: xr.DataTree(), "empty DataTree")
        proc = _state(sym_enabled=False)
        before = _leaves(proc)

        def hook(d, tag, kwargs, rec):
            if "opt" in kwargs:
                kwargs["opt"].append(99)
                kwargs["cfg"]["a"] = 5
            d._memory["trap"] += 1
            d._memory["counter"] = d._memory["counter"] + 1
            d.pixel.array = d.pixel.array + kwargs["level"]
            t = _trapped(d)
            t += 1

        vxprobes.reset(hook)
        obs = Observation(parameters=[ParameterValues(key="pipeline.photon_collection.m1.arguments.level", values=[1, 2])], readout=Readout(times=[1.0, 2.0][:n] + []))
        results = []
        vals = [vx.real("run_value_0"), vx.real("run_value_1")]
        try:
            for i, val in enumerate(vals):
                item = ParameterEntry(index=(i,), parameters={"pipeline.photon_collection.m1.arguments.level": val}, run_index=i)
                obs._run_single_pipeline(item, dimension_names={}, processor=proc, types={}, with_inherited_coords=True, with_outputs=False, with_extra_dims=False)
                results.append([r["kwargs"].get("level") for r in vxprobes.TRACE if r["tag"] is None][-3 * n:])
        finally:
            trace = list(vxprobes.TRACE)
            vxprobes.reset(None)
        after = _leaves(proc)
    vx.prove(f"C06/run/caller_unchanged/mutating_model/n={n}", vx.all_of([_eq(after[k], before[k]) for k in before]))
    # the second run does not see what the first run did to its copy (same starting state => same first observation)
    lv = [r["kwargs"].get("level") for r in trace]
    per = 3 * n
    vx.prove(f"C06/run/second_run_sees_own_value/n={n}", vx.all_of([len(lv) == 2 * per, _eq(lv[0], vals[0]), _eq(lv[per], vals[1]), _eq(lv[1], before["photon_collection.m2.level"]),
                                                                    _eq(lv[per + 1], before["photon_collection.m2.level"])]))


def replay(oid, kwargs, model, data):
    """Concrete re-run: deep structural snapshot of the caller's processor before / after the copy is havocked."""
    from pyxel.calibration.fitting_datatree import ModelFittingDataTree, build_processors
    from pyxel.data_structure import Persistence
    from pyxel.observation import ParameterValues
    from pyxel.observation.misc import create_new_processor
    from pyxel.pipelines import DetectionPipeline, ModelFunction, Processor

    if data["fn"] == "run_mutating":
        return _replay_run_mutating(kwargs)
    if data["fn"] != "step":
        return False, {}
    entry, key = kwargs["entry"], kwargs["key"]
    d = _make_det("cmos")
    d.geometry._row, d.geometry._col = SHAPE
    d._initialize()
    d.photon._array = np.ones(SHAPE)
    d.pixel._array = np.full(SHAPE, 2.0)
    d.signal._array = np.full(SHAPE, 3.0)
    d.image._array = np.full(SHAPE, 4, dtype=np.uint16)
    d.charge._array = np.full(SHAPE, 5.0)
    d._memory.clear()
    d._memory.update({"trap": np.full(SHAPE, 6.0), "counter": 7})
    d._persistence = Persistence(trap_time_constants=[1.0, 10.0], trap_proportions=[0.5, 0.5], geometry=SHAPE)
    d._persistence.trapped_charge_array = np.full((2,) + SHAPE, 8.0)
    pipe = DetectionPipeline(
        photon_collection=[ModelFunction(func="vxprobes.probe", name="m1", arguments={"level": 0.1, "opt": [0.2, 0.3], "cfg": {"a": 1}}, enabled=bool(model.get("m1_enabled", True))),
                           ModelFunction(func="vxprobes.probe_a", name="m2", arguments={"level": 0.4}, enabled=bool(model.get("m2_enabled", True)))],
        charge_generation=[ModelFunction(func="vxprobes.probe_b", name="m3", arguments={"level": 0.5}, enabled=bool(model.get("m3_enabled", True)))])
    from pyxel.exposure import Readout
    from pyxel.observation import Observation

    proc = Processor(detector=d, pipeline=pipe, observation_mode=Observation(
        parameters=[ParameterValues(key="pipeline.photon_collection.m1.arguments.level", values=[1, 2])], readout=Readout(times=[1.0, 2.0], start_time=0.0)))

    def snap(p_):
        dd = p_.detector
        s = {f: getattr(dd.geometry, "_" + f) for f in GEO}
        s["temp"] = dd.environment._temperature
        s.update({f: getattr(dd.characteristics, "_" + f) for f in ("quantum_efficiency", "full_well_capacity")})
        for b in ("photon", "pixel", "signal", "image", "charge"):
            s[b] = None if getattr(dd, b)._array is None else getattr(dd, b)._array.tolist()
        s["mem"] = {k: (v.tolist() if hasattr(v, "tolist") else v) for k, v in dd._memory.items()}
        s["trapped"] = dd._persistence.trapped_charge_array.tolist()
        for grp in ("photon_collection", "charge_generation"):
            for m in getattr(p_.pipeline, grp).models:
                s[grp + m.name] = (m.enabled, copy.deepcopy(m.arguments._arguments))
        ro = p_.observation.readout
        s["readout"] = (np.asarray(ro.times).tolist(), np.asarray(ro._steps).tolist(), float(ro.start_time), bool(ro.non_destructive))
        return s

    before = snap(proc)
    v = [0.7, 0.8, 0.9] if key.endswith(".opt") else (False if key.endswith(".enabled") else ([5.0, 6.0, 7.0] if key.endswith("readout.times") else 0.6))
    if entry == "deepcopy":
        new = copy.deepcopy(proc)
    elif entry == "create_new_processor":
        new = create_new_processor(processor=proc, parameter_dict={key: v})
    elif entry == "replace":
        new = proc.replace({key: v})
    elif entry == "update_processor":
        prob = ModelFittingDataTree.__new__(ModelFittingDataTree)
        if isinstance(v, bool):
            return False, {}
        prob._variables = [ParameterValues(key=key, values=["_"] * 3 if isinstance(v, list) else "_", boundaries=(0.0, 1.0))]
        new = prob.update_processor(parameter=np.array(v if isinstance(v, list) else [v]), processor=proc)
    else:
        new = build_processors(processor=proc, arguments=[ParameterValues(key=key, values=[v, v])])[0]
    # havoc the copy
    dd = new.detector
    for b in ("photon", "pixel", "signal", "charge"):
        if getattr(dd, b)._array is not None:
            getattr(dd, b)._array += 1.5
    if dd.image._array is not None:
        dd.image._array += 1
    dd._memory["trap"] *= 2
    dd._memory["counter"] = -1
    dd._memory["new"] = 1
    dd._persistence.trapped_charge_array[...] += 3
    new.observation.readout._start_time = -5.0
    new.observation.readout._non_destructive = True
    new.observation.readout._times[0] = 0.123
    dd.geometry._total_thickness = -5
    dd.environment._temperature = -5
    dd.characteristics._quantum_efficiency = -5
    for grp in ("photon_collection", "charge_generation"):
        for m in getattr(new.pipeline, grp).models:
            m.enabled = not m.enabled
            for k_, v_ in list(m.arguments._arguments.items()):
                if isinstance(v_, list):
                    v_.append(123)
                elif isinstance(v_, dict):
                    v_["a"] = 123
                else:
                    m.arguments._arguments[k_] = 123
    after = snap(proc)
    diff = {k_: [before[k_], after[k_]] for k_ in before if before[k_] != after[k_]}
    return bool(diff), {"changed_in_caller": {k_: str(v_)[:120] for k_, v_ in diff.items()}}


def _replay_run_mutating(kwargs):
    """Concrete: a model appending to its list argument / bumping the detector memory, run twice through the real sequential path."""
    import pyxel
    from pyxel.exposure import Readout
    from pyxel.observation import Observation, ParameterValues
    from pyxel.pipelines import DetectionPipeline, ModelFunction

    from .common import make_ccd

    seen = []

    def hook(d, tag, kw, rec):
        if "opt" in kw:
            kw["opt"].append(99)
            kw["cfg"]["a"] = kw["cfg"]["a"] + 1
            seen.append((list(kw["opt"]), dict(kw["cfg"]), d._memory.get("counter", 0)))
        d._memory["counter"] = d._memory.get("counter", 0) + 1
        if d.pixel._array is None:
            d.pixel.array = np.zeros((2, 2))

    vxprobes.reset(hook)
    try:
        pipe = DetectionPipeline(scene_generation=[ModelFunction(name="init", func="vxprobes.init_buckets")],
                                 photon_collection=[ModelFunction(func="vxprobes.probe", name="m1", arguments={"level": 0.1, "opt": [0.2], "cfg": {"a": 1}})])
        det = make_ccd(2, 2)
        det._memory.clear()
        det._memory["counter"] = 0
        # the caller's detector already holds data (e.g. from an earlier exposure)
        det.photon.array = np.full((2, 2), 11.0)
        det.pixel.array = np.full((2, 2), 12.0)
        det.signal.array = np.full((2, 2), 13.0)
        det.image.array = np.full((2, 2), 14, dtype=np.uint16)
        det.charge.add_charge_array(np.full((2, 2), 15.0))
        obs = Observation(parameters=[ParameterValues(key="pipeline.photon_collection.m1.arguments.level", values=[1.0, 2.0, 3.0])], readout=Readout(times=[1.0, 2.0][: kwargs["n"]]))
        pyxel.run_mode(mode=obs, detector=det, pipeline=pipe)
    finally:
        vxprobes.reset(None)
    caller_opt = pipe.photon_collection.m1.arguments["opt"]
    caller_cfg = pipe.photon_collection.m1.arguments["cfg"]
    n = kwargs["n"]
    first_calls = seen[::n]  # first step of every run
    contents = {b: (None if getattr(det, b)._array is None else np.asarray(getattr(det, b)._array).tolist()) for b in ("photon", "pixel", "signal", "image", "charge")}
    want = {"photon": 11.0, "pixel": 12.0, "signal": 13.0, "image": 14, "charge": 15.0}
    lost = {b: v for b, v in contents.items() if v != np.full((2, 2), want[b]).tolist()}
    if lost:
        return True, {"caller_detector_contents_changed": lost}
    bad = caller_opt != [0.2] or caller_cfg != {"a": 1} or det._memory.get("counter") != 0 or any(c[0] != [0.2, 99] or c[1] != {"a": 2} or c[2] != 0 for c in first_calls)
    return bad, {"caller_opt_after": caller_opt, "caller_cfg_after": caller_cfg, "caller_memory_counter": det._memory.get("counter"), "first_call_of_each_run_saw": first_calls}
