"""C11 — calibration fitness is the declared figure of merit on the declared data.

H1 fit ranges (LIA): to_fit_range / FitRange2D / FitRange3D / check_fit_ranges with symbolic starts,
stops and target sizes.  H2 residual formulas on symbolic arrays.  H3 accumulation: the real
ModelFittingDataTree.__init__ (target slicing, weights) and .fitness() with run_pipeline and the
xarray.DataArray type replaced by recording stand-ins carrying symbolic arrays.
"""

from __future__ import annotations

import importlib
import sys
import types

import numpy as np

import vx
from vx import fakexr, symnp
from vx.core import unjson
from vx.patching import Patch

from .common import close, make_ccd, nums, sym_array

PROPERTY = "C11"
LEVEL = "model_checking"
FUNCTIONS = [
    "pyxel.calibration.util:to_fit_range",
    "pyxel.calibration.util:FitRange2D.from_sequence",
    "pyxel.calibration.util:FitRange2D.check",
    "pyxel.calibration.util:FitRange3D.from_sequence",
    "pyxel.calibration.util:FitRange3D.check",
    "pyxel.calibration.util:_check_out_fit_ranges",
    "pyxel.calibration.util:check_fit_ranges",
    "pyxel.calibration.fitness:sum_of_abs_residuals",
    "pyxel.calibration.fitness:sum_of_squared_residuals",
    "pyxel.calibration.fitness:reduced_chi_squared",
    "pyxel.calibration.fitting_datatree:ModelFittingDataTree.__init__",
    "pyxel.calibration.fitting_datatree:ModelFittingDataTree._configure_weights",
    "pyxel.calibration.fitting_datatree:ModelFittingDataTree.fitness",
    "pyxel.calibration.fitting_datatree:ModelFittingDataTree._get_simulated_data",
    "pyxel.calibration.fitting_datatree:ModelFittingDataTree._calculate_fitness",
    "pyxel.calibration.fitting_datatree:build_processors",
]
STUBS = [
    "fitting_datatree.run_pipeline -> recording stub returning symbolic simulated frames that depend on the processor it is given",
    "xarray (module attribute xr of fitting_datatree and the late import) -> vx.fakexr.DataArray (dims, isel, iteration)",
    "create_processor_data_array / read_datacubes -> symbolic target arrays (file contents arbitrary)",
    "np -> vx.symnp in calibration.fitness, calibration.fitting_datatree, pipelines.processor; float() shadowed in calibration.fitness",
]
OUTSIDE = [
    "pygmo itself (its champion is assumed to be the best-ever individual of an island and never to get worse); what pyxel reports from it is encoded",
    "NaN handling of nansum (real arithmetic)",
    "negative or reversed fit-range bounds (documented form 0 <= start <= stop assumed)",
]
ASSUMPTIONS = ["fit range entries are integers with 0 <= start <= stop; the result range lies inside the simulated frame"]
EXPLANATION = "range checks: LIA over symbolic bounds; formulas: NRA identities; accumulation: single path, LRA/NRA equalities"


def bounds(tier):
    return {"ranges": "2-D and 3-D, unbounded integers", "formula_frames": "2x2 and 1x3", "pairs": "1..3 (processor, target) pairs", "frame": "3x3 target / 3x3 simulated"}


def tasks(tier, seed):
    out = [
        {"fn": "ranges", "kwargs": {"dims": "2d2d"}, "label": "ranges/2d-2d"},
        {"fn": "ranges", "kwargs": {"dims": "2d3d"}, "label": "ranges/2d-3d"},
        {"fn": "ranges", "kwargs": {"dims": "3d3d"}, "label": "ranges/3d-3d"},
        {"fn": "ranges_none", "kwargs": {}, "label": "ranges/none"},
        {"fn": "ranges_open", "kwargs": {"which": "row"}, "label": "ranges/open_result/row"},
        {"fn": "ranges_open", "kwargs": {"which": "col"}, "label": "ranges/open_result/col"},
        {"fn": "ranges_open", "kwargs": {"which": "both"}, "label": "ranges/open_result/both"},
    ]
    for f in ("abs", "squared", "chi2"):
        for shape in ([2, 2], [1, 3]):
            out.append({"fn": "formula", "kwargs": {"which": f, "shape": shape}, "label": f"formula/{f}/{shape[0]}x{shape[1]}"})
    for k in (1, 2, 3):
        for w in ("none", "vector", "file"):
            for f in ("abs", "squared"):
                if tier == "quick" and f == "squared" and k == 3:
                    continue
                out.append({"fn": "accumulate", "kwargs": {"k": k, "weights": w, "which": f}, "label": f"accumulate/k={k},weights={w},{f}"})
                if w == "vector" or (tier == "thorough"):
                    out.append({"fn": "accumulate", "kwargs": {"k": k, "weights": w, "which": f, "full": True}, "label": f"accumulate/k={k},weights={w},{f},full"})
                if w != "none" and k <= 2:
                    out.append({"fn": "accumulate", "kwargs": {"k": k, "weights": w, "which": f, "full": True, "target_dtype": "int32"}, "label": f"accumulate/k={k},weights={w},{f},full,int32"})
    out.append({"fn": "declared_at_run", "kwargs": {}, "label": "declared_at_run"})
    for isl, ind in ((1, 2), (2, 3)) if tier == "quick" else ((1, 2), (2, 3), (3, 3), (2, 5)):
        out.append({"fn": "champions", "kwargs": {"islands": isl, "individuals": ind}, "label": f"champions/islands={isl},individuals={ind}"})
    return out


def REQUIRED_REACH(tier):
    return ["C11/ranges/equal_extent/*", "C11/ranges/inside_target/*", "C11/formula/abs*", "C11/formula/squared*", "C11/formula/chi2*",
            "C11/accumulate/sum_over_pairs/*"]


# -- H1 ------------------------------------------------------------------------------------------
def _rng(prefix, n):
    vals = []
    for i in range(n):
        s, e = vx.integer(f"{prefix}_s{i}"), vx.integer(f"{prefix}_e{i}")
        vx.assume((s >= 0) & (s <= e), "fit ranges: 0 <= start <= stop")
        vals += [s, e]
    return vals


def ranges(dims):
    u = importlib.import_module("pyxel.calibration.util")
    nt = 3 if dims.startswith("3d") else 2
    no = 3 if dims.endswith("3d") else 2
    t = _rng("t", nt)
    o = _rng("o", no)
    rows, cols, times = vx.integer("rows"), vx.integer("cols"), vx.integer("times")
    for v in (rows, cols, times):
        vx.assume(v >= 1, "target sizes >= 1")
    try:
        tr = u.to_fit_range(t)
        orr = u.FitRange3D.from_sequence(o) if no == 3 else u.to_fit_range(o)
        u.check_fit_ranges(target_fit_range=tr, out_fit_range=orr, rows=rows, cols=cols, readout_times=times if nt == 3 else None)
        ok = True
    except ValueError:
        ok = False
    # sequences are (time?) y x
    ty, tx = (t[-4], t[-3]), (t[-2], t[-1])
    oy, ox = (o[-4], o[-3]), (o[-2], o[-1])
    ext_eq = [ty[1] - ty[0] == oy[1] - oy[0], tx[1] - tx[0] == ox[1] - ox[0]]
    inside = [ty[1] <= rows, tx[1] <= cols]
    if nt == 3:
        inside.append(t[1] <= times)
        if no == 3:
            ext_eq.append(t[1] - t[0] == o[1] - o[0])
    vx.observe("ok", ok)
    if ok:
        vx.prove(f"C11/ranges/equal_extent/{dims}", vx.all_of(ext_eq))
        vx.prove(f"C11/ranges/inside_target/{dims}", vx.all_of(inside))
    else:
        # a pair with equal extents that fits the target must not be refused
        vx.prove(f"C11/ranges/valid_not_refused/{dims}", ~vx.all_of(ext_eq + inside) if vx.is_sym(vx.all_of(ext_eq + inside)) else not vx.all_of(ext_eq + inside))


def fidelity_ranges(kwargs, w):
    from pyxel.calibration.util import FitRange3D, check_fit_ranges, to_fit_range

    inp = unjson(w["inputs"])
    ok = _concrete_ranges(kwargs["dims"], inp)
    return ok == unjson(w["observed"])["ok"], {"concrete": ok}


def _concrete_ranges(dims, inp):
    from pyxel.calibration.util import FitRange3D, check_fit_ranges, to_fit_range

    nt = 3 if dims.startswith("3d") else 2
    no = 3 if dims.endswith("3d") else 2
    t = [int(inp[f"t_{c}{i}"]) for i in range(nt) for c in "se"]
    o = [int(inp[f"o_{c}{i}"]) for i in range(no) for c in "se"]
    try:
        tr = to_fit_range(t)
        orr = FitRange3D.from_sequence(o) if no == 3 else to_fit_range(o)
        check_fit_ranges(target_fit_range=tr, out_fit_range=orr, rows=int(inp["rows"]), cols=int(inp["cols"]),
                         readout_times=int(inp["times"]) if nt == 3 else None)
        return True
    except ValueError:
        return False


def ranges_none():
    """No fit range given: the whole target is compared, the call must not fail."""
    u = importlib.import_module("pyxel.calibration.util")
    rows, cols = vx.integer("rows"), vx.integer("cols")
    vx.assume((rows >= 1) & (cols >= 1), "target sizes >= 1")
    try:
        u.check_fit_ranges(target_fit_range=u.to_fit_range(None), out_fit_range=u.FitRange3D.from_sequence(None), rows=rows, cols=cols)
        ok = True
    except ValueError:
        ok = False
    vx.prove("C11/ranges/none_accepted", ok)


def ranges_open(which):
    """A result range left open in one dimension (no stop: "up to the end of the detector") against an explicit target range: the
    checker is told the target's size only, so the result's extent in that dimension is the detector's - a number it does not know.
    Whatever it accepts must have equal extents for every detector size."""
    u = importlib.import_module("pyxel.calibration.util")
    t = _rng("t", 2)
    rows, cols = vx.integer("rows"), vx.integer("cols")
    det_rows, det_cols = vx.integer("detector_rows"), vx.integer("detector_cols")
    vx.assume((rows >= 1) & (cols >= 1) & (det_rows >= 1) & (det_cols >= 1), "sizes >= 1")
    o = _rng("o", 2)
    open_row, open_col = which in ("row", "both"), which in ("col", "both")
    try:
        tr = u.to_fit_range(t)
        orr = u.FitRange3D(time=slice(None, None), row=slice(None, None) if open_row else slice(o[0], o[1]), col=slice(None, None) if open_col else slice(o[2], o[3]))
        u.check_fit_ranges(target_fit_range=tr, out_fit_range=orr, rows=rows, cols=cols)
        ok = True
    except ValueError:
        ok = False
    if ok:
        ext = [(det_rows if open_row else o[1] - o[0]) == t[1] - t[0], (det_cols if open_col else o[3] - o[2]) == t[3] - t[2]]
        vx.prove(f"C11/ranges/open_result_equal_extent/{which}", vx.all_of(ext))
    else:
        vx.reach("C11/ranges/open_result_refused")


# -- H2 ------------------------------------------------------------------------------------------
def formula(which, shape):
    fm = importlib.import_module("pyxel.calibration.fitness")
    shape = tuple(shape)
    sim, tgt, wgt = sym_array("sim", shape), sym_array("tgt", shape), sym_array("w", shape)
    lab = f"{which}/{shape[0]}x{shape[1]}"
    with Patch() as p:
        p.numpy("pyxel.calibration.fitness")
        p.builtins("pyxel.calibration.fitness", "float")
        p.pyfunc("pyxel.calibration.fitness", "sum_of_abs_residuals", "sum_of_squared_residuals", "reduced_chi_squared")
        if which == "abs":
            got = fm.sum_of_abs_residuals(simulated=sim.copy(), target=tgt.copy(), weighting=wgt.copy())
            want = sum((abs((t - s) * w) for s, t, w in zip(sim.elems(), tgt.elems(), wgt.elems())), 0)
        elif which == "squared":
            got = fm.sum_of_squared_residuals(simulated=sim.copy(), target=tgt.copy(), weighting=wgt.copy())
            want = sum(((t - s) * (t - s) * w for s, t, w in zip(sim.elems(), tgt.elems(), wgt.elems())), 0)
        else:
            for e in wgt.elems():
                vx.assume(e != 0, "chi-squared weights (standard deviations) are non-zero")
            nfree = 1
            got = fm.reduced_chi_squared(simulated=sim.copy(), target=tgt.copy(), weighting=wgt.copy(), free_parameters=nfree)
            n = len(sim.elems())
            want = sum((((t - s) / w) * ((t - s) / w) for s, t, w in zip(sim.elems(), tgt.elems(), wgt.elems())), 0) / (n - nfree)
    vx.prove(f"C11/formula/{lab}", got == want)
    vx.observe("value", got)


def fidelity_formula(kwargs, w):
    from pyxel.calibration import fitness as fm

    inp = unjson(w["inputs"])
    shape = tuple(kwargs["shape"])
    n = shape[0] * shape[1]
    a = lambda nm: np.array([float(inp[f"{nm}_{i}"]) for i in range(n)]).reshape(shape)  # noqa: E731
    if kwargs["which"] == "abs":
        v = fm.sum_of_abs_residuals(a("sim"), a("tgt"), a("w"))
    elif kwargs["which"] == "squared":
        v = fm.sum_of_squared_residuals(a("sim"), a("tgt"), a("w"))
    else:
        v = fm.reduced_chi_squared(a("sim"), a("tgt"), a("w"), 1)
    return close(float(v), nums(unjson(w["observed"]["value"])), 1e-6), {"concrete": float(v)}


# -- H3 ------------------------------------------------------------------------------------------
ID_KEY = "pipeline.photon_collection.probe.arguments.pid"
T_KEY = "detector.environment.temperature"
TEMPS = [110.0, 150.0, 190.0]
A_KEY = "pipeline.photon_collection.probe.arguments.a"
FR = (3, 3)


def _xr_shim():
    import xarray as real_xr

    m = types.ModuleType("vx_fake_xarray")
    m.DataArray = fakexr.DataArray
    m.concat = fakexr.concat
    m.DataTree = real_xr.DataTree
    m.Dataset = real_xr.Dataset
    return m


def accumulate(k, weights, which, full=False, target_dtype="float64"):
    fd = importlib.import_module("pyxel.calibration.fitting_datatree")
    fm = importlib.import_module("pyxel.calibration.fitness")
    from pyxel.calibration.util import FitRange2D, FitRange3D
    from pyxel.exposure import Readout
    from pyxel.observation import ParameterValues
    from pyxel.pipelines import DetectionPipeline, ModelFunction, Processor

    # target files may hold integer images (raw frames): the declared weights are real numbers whatever the targets' dtype
    targets = sym_array("tgt", (k,) + FR) if target_dtype == "float64" else sym_array("tgt", (k,) + FR, kind="int", dtype=target_dtype)
    sims = [sym_array(f"sim{i}", FR) for i in range(k)]
    wfile = sym_array("wfile", (k,) + FR)
    wvec = [vx.real(f"wv_{i}") for i in range(k)]
    dv = vx.real("dv")
    # declared ranges: target rows 1:3, cols 0:2; result rows 0:2, cols 1:3 (equal extents, shifted)
    if full:
        trange = FitRange2D(row=slice(0, 3), col=slice(0, 3))
        orange = FitRange3D(time=slice(None, None), row=slice(0, 3), col=slice(0, 3))
        pairs_r = pairs_c = ((0, 0), (1, 1), (2, 2))
    else:
        trange = FitRange2D(row=slice(1, 3), col=slice(0, 2))
        orange = FitRange3D(time=slice(None, None), row=slice(0, 2), col=slice(1, 3))
        pairs_r, pairs_c = ((1, 0), (2, 1)), ((0, 1), (1, 2))
    calls = []
    seed = vx.integer("pipeline_seed")
    frames = []

    def fake_run_pipeline(processor, readout, outputs, pipeline_seed=None, debug=False, with_inherited_coords=True):
        pid = processor.get(ID_KEY)
        a = processor.get(A_KEY)
        calls.append((pid, a, pipeline_seed, readout, processor.get(T_KEY)))
        # stochastic models: the frame also depends on the seed the run is given; an unseeded run draws from an unknown state
        noise = pipeline_seed if pipeline_seed is not None else vx.real(f"os_entropy_{len(calls)}")
        frame = sims[pid] + a + noise  # the simulated frame depends on the run's own processor and on the applied parameter
        frames.append(frame)
        # like the real exposure result: one slice per readout (a single readout here)
        return fakexr.Tree({"pixel": fakexr.DataArray(frame.reshape((1,) + FR), dims=("time", "y", "x"))})

    shim = _xr_shim()
    with Patch() as p:
        p.numpy("pyxel.calibration.fitting_datatree", "pyxel.calibration.fitness", "pyxel.pipelines.processor")
        p.builtins("pyxel.calibration.fitness", "float")
        p.pyfunc("pyxel.calibration.fitness", "sum_of_abs_residuals", "sum_of_squared_residuals")
        p.attr(fd, "xr", shim, "fake DataArray")
        p.sysmodule("xarray", shim, "late `import xarray as xr` inside _get_simulated_data")
        p.attr(fd, "run_pipeline", fake_run_pipeline, "recording stub")
        p.attr(fd, "create_processor_data_array", lambda filenames: fakexr.DataArray(targets if "tgt" in str(filenames[0]) else wfile, dims=("processor", "y", "x")), "symbolic files")
        det = make_ccd(*FR)
        pipe = DetectionPipeline(photon_collection=[ModelFunction(func="vxprobes.probe", name="probe", arguments={"pid": 0, "a": 0.0})])
        proc = Processor(detector=det, pipeline=pipe)
        f = fm.sum_of_abs_residuals if which == "abs" else fm.sum_of_squared_residuals
        prob = fd.ModelFittingDataTree(
            processor=proc,
            variables=[ParameterValues(key=A_KEY, values="_", boundaries=(-10.0, 10.0))],
            readout=Readout(),
            simulation_output="pixel",
            generations=1,
            population_size=2,
            fitness_func=f,
            file_path=None,
            target_fit_range=trange,
            out_fit_range=orange,
            target_filenames=[f"tgt{i}.npy" for i in range(k)],
            # each target is paired with a model argument and with a detector setting of its own
            input_arguments=[ParameterValues(key=ID_KEY, values=list(range(k))), ParameterValues(key=T_KEY, values=TEMPS[:k])] if k > 1 else None,
            weights=wvec if weights == "vector" else None,
            weights_from_file=[f"w{i}.npy" for i in range(k)] if weights == "file" else None,
            pipeline_seed=seed,
        )
        try:
            res = prob.fitness(symnp.asarray([dv]))
            failed = None
        except ValueError as e:
            failed = e
        n_fit = len(calls)
        if failed is None:
            # what calibration does with the champion: every processor re-simulated with the reported parameters
            champion = prob.convert_to_parameters(symnp.asarray([dv]))
            for proc_i in prob.param_processor_list:
                prob._apply_parameters(processor=proc_i, parameter=champion)
    lab = f"k={k},weights={weights},{which},{'full' if full else 'shifted'}" + ("" if target_dtype == "float64" else f",{target_dtype}")
    if failed is not None:
        # weight vectors are expanded to the full detector frame by the implementation, which cannot be combined
        # with a restricted fit range: the call fails loudly instead of weighting silently wrong data
        vx.prove(f"C11/accumulate/fails_loudly/{lab}", weights == "vector" and not full)
        return
    total = 0
    for i in range(k):
        for (r_t, r_o) in pairs_r:
            for (c_t, c_o) in pairs_c:
                s = sims[i][r_o, c_o] + dv + seed
                t = targets[i, r_t, c_t]
                if weights == "file":
                    wv = wfile[i, r_t, c_t]
                elif weights == "vector":
                    wv = wvec[i]
                else:
                    wv = 1
                d = (t - s)
                total = total + (abs(d * wv) if which == "abs" else d * d * wv)
    vx.prove(f"C11/accumulate/sum_over_pairs/{lab}", vx.all_of([len(res) == 1, res[0] == total]))
    vx.prove(f"C11/accumulate/own_processor/{lab}", [c[0] for c in calls[:n_fit]] == list(range(k)))
    vx.prove(f"C11/accumulate/parameter_applied/{lab}", vx.all_of([c[1] == dv for c in calls[:n_fit]]))
    if k > 1:
        vx.prove(f"C11/accumulate/own_detector_input/{lab}", [c[4] for c in calls] == (TEMPS[:k] * 2)[: len(calls)], got=str([c[4] for c in calls]))
    # re-simulating the champion reproduces the simulated data its fitness was computed from
    same = [len(calls) == 2 * n_fit]
    for i in range(min(n_fit, len(calls) - n_fit)):
        same += [calls[n_fit + i][0] == calls[i][0], calls[n_fit + i][3] is calls[i][3]]
        same += [x == y for x, y in zip(frames[n_fit + i].elems(), frames[i].elems())]
    vx.prove(f"C11/accumulate/champion_resimulation/{lab}", vx.all_of(same))


def _declared_run(t, o, w, seed):
    """Build a Calibration with some ranges, re-declare ranges / weights / seed through the attributes, run it against recording
    stand-ins for the fitting problem and the archipelago; returns the keyword arguments the fitting problem received."""
    import os
    import tempfile

    import pyxel.calibration.calibration as cal
    from pyxel.calibration import Algorithm, Calibration
    from pyxel.exposure import Readout
    from pyxel.observation import ParameterValues
    from pyxel.pipelines import DetectionPipeline, FitnessFunction, ModelFunction, Processor

    got = {}

    class FakeProblem:
        def __init__(self, **kw):
            got.update(kw)
            self.sim_output = kw.get("simulation_output")

    class FakeArchi:
        def __init__(self, **kw):
            got["archi"] = kw

        def run_evolve(self, **kw):
            import xarray as xr

            return xr.DataTree()

    tmp = tempfile.mkdtemp(prefix="vx_c11_")
    tfile = os.path.join(tmp, "t.npy")
    np.save(tfile, np.zeros((4, 4)))
    try:
        with Patch() as p:
            import pygmo as pg

            p.attr(pg, "set_global_rng_seed", lambda seed: None, "no-op")
            p.attr(cal, "ModelFittingDataTree", FakeProblem, "records its keyword arguments")
            p.attr(cal, "ArchipelagoDataTree", FakeArchi, "recording stub")
            c = Calibration(target_data_path=[tfile], fitness_function=FitnessFunction(func="pyxel.calibration.fitness.sum_of_abs_residuals"),
                            algorithm=Algorithm(type="sade", generations=1, population_size=5), parameters=[ParameterValues(key=A_KEY, values="_", boundaries=(0.0, 1.0))],
                            readout=Readout(times=[1.0]), pygmo_seed=7, pipeline_seed=1, target_fit_range=[0, 1, 0, 1], result_fit_range=[0, 1, 0, 1, 0, 1], weights=[1.0])
            c.target_fit_range = list(t)
            c.result_fit_range = list(o)
            c.weights = list(w)
            c.pipeline_seed = seed
            det = make_ccd(4, 4)
            pipe = DetectionPipeline(photon_collection=[ModelFunction(func="vxprobes.probe", name="probe", arguments={"pid": 0, "a": 0.0})])
            c.run_calibration(processor=Processor(detector=det, pipeline=pipe), output_dir=None, with_inherited_coords=True, with_progress_bar=False)
    finally:
        os.remove(tfile)
        os.rmdir(tmp)
    tr, orr = got.get("target_fit_range"), got.get("out_fit_range")
    return {"target": None if tr is None else [tr.row.start, tr.row.stop, tr.col.start, tr.col.stop],
            "result": None if orr is None else [orr.time.start, orr.time.stop, orr.row.start, orr.row.stop, orr.col.start, orr.col.stop],
            "weights": None if got.get("weights") is None else list(got["weights"]), "pipeline_seed": got.get("pipeline_seed")}


def declared_at_run():
    """A Calibration object whose fit ranges, weights and seed are (re-)declared through its attributes after construction: the fitting
    problem built by run_calibration receives what the object declares when it is run."""
    t = [vx.integer(f"target_{k}") for k in ("r0", "r1", "c0", "c1")]
    o = [vx.integer(f"result_{k}") for k in ("t0", "t1", "r0", "r1", "c0", "c1")]
    for lo, hi in ((t[0], t[1]), (t[2], t[3]), (o[0], o[1]), (o[2], o[3]), (o[4], o[5])):
        vx.assume((lo >= 0) & (lo < hi) & (hi <= 4), "well-formed slices")
    w = [vx.real("weight")]
    seed = vx.integer("pipeline_seed")
    got = _declared_run(t, o, w, seed)
    vx.prove("C11/declared/target_fit_range_at_run", got["target"] == t, got=repr(got["target"])[:120])
    vx.prove("C11/declared/result_fit_range_at_run", got["result"] == o, got=repr(got["result"])[:120])
    vx.prove("C11/declared/weights_at_run", got["weights"] == w)
    vx.prove("C11/declared/pipeline_seed_at_run", got["pipeline_seed"] is seed)


class _Pop:
    def __init__(self, f, x):
        self.f, self.x = f, x

    def best_idx(self):
        best = 0
        for j in range(1, len(self.f)):
            if bool(self.f[j] < self.f[best]):  # forks on symbolic fitness values, like an argmin would
                best = j
        return best

    def get_f(self):
        return [[v] for v in self.f]

    def get_x(self):
        return [list(r) for r in self.x]

    def champion_f(self):
        return [self.f[self.best_idx()]]

    def champion_x(self):
        return list(self.x[self.best_idx()])


class _Island:
    def __init__(self, pop):
        self.pop = pop

    def get_population(self):
        return self.pop


class _Archi:
    """pygmo.archipelago reduced to what the reporting code reads: per island the best-ever champion and the current population."""

    def __init__(self, champ_f, champ_x, pops):
        self.cf, self.cx, self.islands = champ_f, champ_x, [_Island(p) for p in pops]

    def get_champions_f(self):
        return [[v] for v in self.cf]

    def get_champions_x(self):
        return [list(r) for r in self.cx]

    def __iter__(self):
        return iter(self.islands)

    def __len__(self):
        return len(self.islands)

    def __getitem__(self, i):
        return self.islands[i]


class _FakeDataset(dict):
    pass


def _report_champions(archi, symbolic):
    ad = importlib.import_module("pyxel.calibration.archipelago_datatree")
    obj = ad.ArchipelagoDataTree.__new__(ad.ArchipelagoDataTree)
    obj._pygmo_archi = archi
    obj.problem = type("P", (), {"convert_to_parameters": staticmethod(lambda x: x)})()
    if not symbolic:
        ds = obj._get_champions()
        return np.asarray(ds["champion_fitness"]).ravel().tolist(), np.asarray(ds["champion_decision"]).tolist()
    import types

    shim = types.ModuleType("vx_fake_xarray_champions")
    shim.Dataset = _FakeDataset
    shim.DataArray = fakexr.DataArray
    with Patch() as p:
        p.numpy("pyxel.calibration.archipelago_datatree")
        p.attr(ad, "xr", shim, "recording stand-in for xarray")
        ds = obj._get_champions()
    return list(ds["champion_fitness"].data.elems()), [list(r) for r in np.array(ds["champion_decision"].data.elems(), dtype=object).reshape(ds["champion_decision"].data.shape).tolist()]


def champions(islands, individuals):
    """What calibration reports as champions after an evolution is pygmo's best-ever champion of each island (fitness and decision
    vector of the same individual); since pygmo's champion never gets worse, neither does the reported one.  The current population
    of an island is arbitrary, except that none of its members beats the island's best-ever champion."""
    snaps = []
    for e in range(2):  # two successive evolutions
        cf = [vx.real(f"e{e}_champ_f_{i}") for i in range(islands)]
        cx = [[vx.real(f"e{e}_champ_x_{i}_{k}") for k in range(2)] for i in range(islands)]
        pops = []
        for i in range(islands):
            f = [vx.real(f"e{e}_pop_f_{i}_{j}") for j in range(individuals)]
            x = [[vx.real(f"e{e}_pop_x_{i}_{j}_{k}") for k in range(2)] for j in range(individuals)]
            for v in f:
                vx.assume(cf[i] <= v, "pygmo: an island's champion is the best individual it has ever held")
            pops.append(_Pop(f, x))
        if e == 1:
            for i in range(islands):
                vx.assume(cf[i] <= snaps[0][0][i], "pygmo: the best-ever champion of an island never gets worse")
        snaps.append((cf, cx, _Archi(cf, cx, pops)))
    lab = f"islands={islands},individuals={individuals}"
    reported = []
    for e, (cf, cx, archi) in enumerate(snaps):
        rf, rx = _report_champions(archi, True)
        reported.append(rf)
        vx.prove(f"C11/champion/reported_is_best_ever/{lab}", vx.all_of([len(rf) == islands] + [a == b for a, b in zip(rf, cf)] + [u == v for ra, ca in zip(rx, cx) for u, v in zip(ra, ca)]), evolution=e)
    vx.prove(f"C11/champion/never_worse_than_before/{lab}", vx.all_of([b <= a for a, b in zip(reported[0], reported[1])]))


# ------------------------------------------------------------------------------------------------
def replay(oid, kwargs, model, data):
    fn = data["fn"]
    if fn == "ranges":
        dims = kwargs["dims"]
        ok = _concrete_ranges(dims, model)
        nt = 3 if dims.startswith("3d") else 2
        no = 3 if dims.endswith("3d") else 2
        t = [int(model[f"t_{c}{i}"]) for i in range(nt) for c in "se"]
        o = [int(model[f"o_{c}{i}"]) for i in range(no) for c in "se"]
        rows, cols, times = int(model["rows"]), int(model["cols"]), int(model.get("times", 1))
        ext = (t[-3] - t[-4] == o[-3] - o[-4]) and (t[-1] - t[-2] == o[-1] - o[-2])
        if nt == 3 and no == 3:
            ext = ext and (t[1] - t[0] == o[1] - o[0])
        inside = t[-3] <= rows and t[-1] <= cols and (nt == 2 or t[1] <= times)
        det = {"target_range": t, "result_range": o, "rows": rows, "cols": cols, "accepted": ok, "equal_extent": ext, "inside": inside}
        if "/valid_not_refused/" in oid:
            return (not ok and ext and inside), det
        if "/equal_extent/" in oid:
            return (ok and not ext), det
        return (ok and not inside), det
    if fn == "ranges_open":
        from pyxel.calibration.util import FitRange3D, check_fit_ranges, to_fit_range

        which = kwargs["which"]
        g = lambda k, d=0: int(model.get(k, d))  # noqa: E731
        t = [g("t_s0"), g("t_e0"), g("t_s1"), g("t_e1")]
        o = [g("o_s0"), g("o_e0"), g("o_s1"), g("o_e1")]
        open_row, open_col = which in ("row", "both"), which in ("col", "both")
        orr = FitRange3D(time=slice(None, None), row=slice(None, None) if open_row else slice(o[0], o[1]), col=slice(None, None) if open_col else slice(o[2], o[3]))
        try:
            check_fit_ranges(target_fit_range=to_fit_range(t), out_fit_range=orr, rows=g("rows", 1), cols=g("cols", 1))
            ok = True
        except ValueError:
            ok = False
        # the result range is applied to the detector's frame: its open dimension selects the whole detector
        det = [g("detector_rows", 1), g("detector_cols", 1)]
        frame = np.zeros((1, det[0], det[1]))
        sel = frame[orr.time, orr.row, orr.col]
        tgt_extent = [t[1] - t[0], t[3] - t[2]]
        return bool(ok and list(sel.shape[1:]) != tgt_extent), {"accepted": ok, "target_range_extent": tgt_extent, "detector": det, "result_region_on_that_detector": list(sel.shape[1:])}
    if fn == "ranges_none":
        from pyxel.calibration.util import FitRange3D, check_fit_ranges, to_fit_range

        try:
            check_fit_ranges(target_fit_range=to_fit_range(None), out_fit_range=FitRange3D.from_sequence(None), rows=int(model.get("rows", 3)), cols=int(model.get("cols", 3)))
            return False, {}
        except Exception as e:  # noqa: BLE001
            return True, {"raised": repr(e)}
    if fn == "formula":
        from pyxel.calibration import fitness as fm

        shape = tuple(kwargs["shape"])
        n = shape[0] * shape[1]
        a = lambda nm: np.array([float(model.get(f"{nm}_{i}", 0)) for i in range(n)]).reshape(shape)  # noqa: E731
        s, t, w = a("sim"), a("tgt"), a("w")
        if kwargs["which"] == "abs":
            got, want = fm.sum_of_abs_residuals(s, t, w), np.abs((t - s) * w).sum()
        elif kwargs["which"] == "squared":
            got, want = fm.sum_of_squared_residuals(s, t, w), ((t - s) ** 2 * w).sum()
        else:
            got, want = fm.reduced_chi_squared(s, t, w, 1), (((t - s) / w) ** 2).sum() / (n - 1)
        return (not close(float(got), float(want), 1e-9)), {"got": float(got), "want": float(want)}
    if fn == "declared_at_run":
        t, o, w, seed = [1, 3, 2, 4], [0, 1, 1, 3, 2, 4], [0.5], 12345
        got = _declared_run(t, o, w, seed)
        want = {"target": t, "result": o, "weights": w, "pipeline_seed": seed}
        return got != want, {"declared_through_the_attributes": want, "handed_to_the_fitting_problem": got}
    if fn == "champions":
        islands, individuals = kwargs["islands"], kwargs["individuals"]
        g = lambda n, dflt: float(model.get(n, dflt))  # noqa: E731
        out = []
        for e in range(2):
            cf = [g(f"e{e}_champ_f_{i}", 1.0) for i in range(islands)]
            cx = [[g(f"e{e}_champ_x_{i}_{k}", 0.0) for k in range(2)] for i in range(islands)]
            pops = [_Pop([g(f"e{e}_pop_f_{i}_{j}", 2.0 + j) for j in range(individuals)], [[g(f"e{e}_pop_x_{i}_{j}_{k}", 1.0) for k in range(2)] for j in range(individuals)]) for i in range(islands)]
            rf, rx = _report_champions(_Archi(cf, cx, pops), False)
            out.append({"pygmo_champion_fitness": cf, "reported_champion_fitness": rf, "pygmo_champion_decision": cx, "reported_champion_decision": rx})
        bad = any(o["pygmo_champion_fitness"] != o["reported_champion_fitness"] or o["pygmo_champion_decision"] != o["reported_champion_decision"] for o in out)
        bad = bad or any(b > a for a, b in zip(out[0]["reported_champion_fitness"], out[1]["reported_champion_fitness"]))
        return bad, {"evolution_1": out[0], "evolution_2": out[1]}
    if fn == "accumulate":
        return _replay_accumulate(kwargs, model, champion="champion_resimulation" in oid, own_input="own_detector_input" in oid)
    return False, {"note": "no concrete oracle"}


def _replay_accumulate(kwargs, model, champion=False, own_input=False):
    """Everything real: target / weight files on disk, real xarray, real exposure of a probe pipeline."""
    import os
    import tempfile

    import vxprobes
    from pyxel.calibration import fitness as fm
    from pyxel.calibration.fitting_datatree import ModelFittingDataTree
    from pyxel.calibration.util import FitRange2D, FitRange3D
    from pyxel.exposure import Readout
    from pyxel.observation import ParameterValues
    from pyxel.pipelines import DetectionPipeline, ModelFunction, Processor

    k, weights, which, full = kwargs["k"], kwargs["weights"], kwargs["which"], kwargs.get("full", False)
    g = lambda name, d: float(model.get(name, d))  # noqa: E731
    rng = np.random.RandomState(7)
    tgt = np.array([[g(f"tgt_{i * 9 + j}", rng.uniform(0, 9)) for j in range(9)] for i in range(k)]).reshape((k,) + FR)
    sims = [np.array([g(f"sim{i}_{j}", rng.uniform(0, 9)) for j in range(9)]).reshape(FR) for i in range(k)]
    wf = np.array([[g(f"wfile_{i * 9 + j}", rng.uniform(0.5, 2)) for j in range(9)] for i in range(k)]).reshape((k,) + FR)
    wv = [g(f"wv_{i}", 1.0 + i) for i in range(k)]
    if kwargs.get("target_dtype", "float64") != "float64":
        tgt = np.rint(tgt).astype(kwargs["target_dtype"])
        if all(float(w_).is_integer() for w_ in wv):
            wv = [w_ + 0.5 for w_ in wv]  # an integer weight survives a cast to the targets' integer type unnoticed
    dv = g("dv", 0.25)
    if np.allclose(wf, wf.flat[0]):
        wf = wf + rng.uniform(0.1, 1.0, size=wf.shape)  # a uniform weight map cannot show which window was used
    if full:
        trange, orange = FitRange2D(row=slice(0, 3), col=slice(0, 3)), FitRange3D(time=slice(None, None), row=slice(0, 3), col=slice(0, 3))
        pr = pc = ((0, 0), (1, 1), (2, 2))
    else:
        trange, orange = FitRange2D(row=slice(1, 3), col=slice(0, 2)), FitRange3D(time=slice(None, None), row=slice(0, 2), col=slice(1, 3))
        pr, pc = ((1, 0), (2, 1)), ((0, 1), (1, 2))
    tmp = tempfile.mkdtemp(prefix="vx_c11_")
    try:
        tfiles, wfiles = [], []
        for i in range(k):
            tfiles.append(os.path.join(tmp, f"tgt{i}.npy"))
            np.save(tfiles[-1], tgt[i])  # (integer targets: see below)
            wfiles.append(os.path.join(tmp, f"w{i}.npy"))
            np.save(wfiles[-1], wf[i])

        frames, temps = [], []

        def hook(d, tag, kw, rec):
            d.pixel.array = sims[int(kw["pid"])] + float(kw["a"]) + (np.random.normal(size=FR) if champion else 0.0)
            frames.append((int(kw["pid"]), d.pixel.array.copy()))
            temps.append(float(d.environment.temperature))

        vxprobes.reset(hook)
        pipe = DetectionPipeline(scene_generation=[ModelFunction(name="init", func="vxprobes.init_buckets")],
                                 photon_collection=[ModelFunction(func="vxprobes.probe", name="probe", arguments={"pid": 0, "a": 0.0})])
        proc = Processor(detector=make_ccd(*FR), pipeline=pipe)
        f = fm.sum_of_abs_residuals if which == "abs" else fm.sum_of_squared_residuals
        try:
            prob = ModelFittingDataTree(
                processor=proc, variables=[ParameterValues(key=A_KEY, values="_", boundaries=(-10.0, 10.0))], readout=Readout(), simulation_output="pixel",
                generations=1, population_size=2, fitness_func=f, file_path=None, target_fit_range=trange, out_fit_range=orange, target_filenames=tfiles,
                input_arguments=[ParameterValues(key=ID_KEY, values=list(range(k))), ParameterValues(key=T_KEY, values=TEMPS[:k])] if k > 1 else None,
                weights=wv if weights == "vector" else None, weights_from_file=wfiles if weights == "file" else None,
                pipeline_seed=int(model.get("pipeline_seed", 11)) % 2**31 if champion else None)
            got = float(prob.fitness(np.array([dv]))[0])
            if own_input:
                return temps != TEMPS[:k], {"detector_input_per_target": TEMPS[:k], "temperature_seen_by_the_run_of_each_target": temps}
            if champion:
                n_fit = len(frames)
                for proc_i in prob.param_processor_list:
                    prob._apply_parameters(processor=proc_i, parameter=prob.convert_to_parameters(np.array([dv])))
                same = len(frames) == 2 * n_fit and all(a[0] == b[0] and np.array_equal(a[1], b[1]) for a, b in zip(frames[:n_fit], frames[n_fit:]))
                return (not same), {"champion_resimulation_reproduces_the_frames_its_fitness_was_computed_from": same, "runs": len(frames)}
        except ValueError as e:
            return not (weights == "vector" and not full), {"raised": repr(e)[:200]}
        finally:
            vxprobes.reset(None)
        want = 0.0
        for i in range(k):
            for (r_t, r_o) in pr:
                for (c_t, c_o) in pc:
                    w_ = wf[i, r_t, c_t] if weights == "file" else (wv[i] if weights == "vector" else 1.0)
                    d_ = tgt[i, r_t, c_t] - (sims[i][r_o, c_o] + dv)
                    want += abs(d_ * w_) if which == "abs" else d_ * d_ * w_
        return (not close(got, want, 1e-9)), {"fitness_returned": got, "declared_figure_of_merit": want}
    finally:
        for fn_ in os.listdir(tmp):
            os.remove(os.path.join(tmp, fn_))
        os.rmdir(tmp)
