"""C13 — data buckets only ever hold arrays of the detector's shape and unit type.

One inductive step from an arbitrary valid state: pre-state in {empty, holds a valid array with
symbolic values}, one operation in {set, update, +=, +, empty, read, ==} with an argument of every
numpy dtype and of right / wrong / broadcastable shape (ghost typing supplies numpy's own verdict on
casting and broadcasting), symbolic values.
"""

from __future__ import annotations

import itertools

import numpy as np

import vx
from vx import symnp
from vx.core import unjson
from vx.patching import Patch

from .common import DATA_MODULES, arr_eq, sym_array

PROPERTY = "C13"
LEVEL = "model_checking"
FUNCTIONS = [
    "pyxel.data_structure.array:ArrayBase.__iadd__",
    "pyxel.data_structure.array:ArrayBase.__add__",
    "pyxel.data_structure.array:ArrayBase.__eq__",
    "pyxel.data_structure.array:ArrayBase._validate",
    "pyxel.data_structure.array:ArrayBase.array",
    "pyxel.data_structure.array:ArrayBase.update",
    "pyxel.data_structure.array:ArrayBase.empty",
    "pyxel.data_structure.pixel:Pixel.empty",
    "pyxel.data_structure.pixel:Pixel.update",
    "pyxel.data_structure.photon:Photon.array",
    "pyxel.data_structure.photon:Photon.__iadd__",
    "pyxel.data_structure.photon:Photon.__add__",
    "pyxel.data_structure.photon:Photon.__eq__",
    "pyxel.data_structure.photon:Photon.empty",
    "pyxel.data_structure.photon:Photon.shape",
    "pyxel.data_structure.photon:Photon.dtype",
]
STUBS = ["np -> vx.symnp in pyxel.data_structure.*: element values symbolic, dtype/shape/casting/broadcast verdicts from real numpy (ghost arrays)"]
OUTSIDE = ["NaN and infinite values are covered for the photon sign rule only (IEEE layer); elsewhere values are reals", "3-D (multi-wavelength) photons go through a recording stand-in for xarray.DataArray (dims, coords, dtype, values)",
           "histories are covered by induction on the validity invariant, not enumerated"]
ASSUMPTIONS = ["values are finite reals / integers"]
EXPLANATION = "invariant: a container is empty or holds an array of the detector shape and an allowed dtype (photon >= 0 after assignment)"
SHAPE = (2, 3)
DTYPES = ["bool", "int8", "int16", "int32", "int64", "uint8", "uint16", "uint32", "uint64", "float16", "float32", "float64", "complex128"]
SHAPES = [(2, 3), (3, 2), (1, 3), (2, 3, 1), ()]
KINDS = ["pixel", "signal", "image", "phase", "photon"]
OPS = ["set", "update", "iadd", "add"]
HOME = {"pixel": "float64", "signal": "float64", "image": "uint16", "phase": "float32", "photon": "float64"}


def bounds(tier):
    return {"detector_shape": "2x3", "dtypes": DTYPES, "argument_shapes": [list(s) for s in SHAPES], "containers": KINDS, "operations": OPS + ["empty", "read", "eq"]}


def tasks(tier, seed):
    out = []
    for kind in KINDS:
        for pre in ("empty", "full"):
            for op in OPS:
                for dt in DTYPES:
                    for sh in SHAPES:
                        out.append({"fn": "step", "kwargs": {"kind": kind, "pre": pre, "op": op, "dtype": dt, "shape": list(sh)},
                                    "label": f"{kind}/{op}/{pre}/{dt},{'x'.join(map(str, sh)) or 'scalar'}"})
            out.append({"fn": "simple_ops", "kwargs": {"kind": kind, "pre": pre}, "label": f"{kind}/empty_read/{pre}"})
        for a, b in itertools.product(("empty", "full"), repeat=2):
            out.append({"fn": "equality", "kwargs": {"kind": kind, "a": a, "b": b, "other": kind}, "label": f"{kind}/eq/{a},{b}"})
        for a, b in itertools.product(("empty", "full"), repeat=2):
            out.append({"fn": "equality_shapes", "kwargs": {"kind": kind, "a": a, "b": b}, "label": f"{kind}/eq_shapes/{a},{b}"})
        out.append({"fn": "equality", "kwargs": {"kind": kind, "a": "full", "b": "full", "other": "signal" if kind != "signal" else "pixel"},
                    "label": f"{kind}/eq/other_kind"})
    for op in ("set", "update", "iadd", "add"):
        out.append({"fn": "photon_ieee", "kwargs": {"op": op}, "label": f"photon/ieee/{op}", "solver": "cvc5", "cross_check": False, "caps": {"solver_timeout_ms": 60000}})
        out.append({"fn": "photon_ieee", "kwargs": {"op": op, "shape": [3, 1]}, "label": f"photon/ieee/{op}/3x1", "solver": "cvc5", "cross_check": False, "caps": {"solver_timeout_ms": 60000}})
    for pre in ("empty", "full3d", "full2d"):
        for op in ("set3d", "iadd"):
            for arg in ("ok", "int_dtype", "wrong_yx", "wrong_dims", "no_coords", "array2d"):
                out.append({"fn": "photon3d", "kwargs": {"pre": pre, "op": op, "arg": arg}, "label": f"photon3d/{op}/{pre}/{arg}"})
        # 2-D assignments (valid and invalid) onto a container that may hold a multi-wavelength cube
        for op in ("set2d", "set2d_alias", "update"):
            for arg in ("array2d", "array2d_int", "array2d_wrong_shape", "array1d", "array3d_plain"):
                out.append({"fn": "photon3d", "kwargs": {"pre": pre, "op": op, "arg": arg}, "label": f"photon3d/{op}/{pre}/{arg}"})
    return out


def REQUIRED_REACH(tier):
    return ["C13/photon3d/invariant", "C13/photon3d/reject_keeps_content", "C13/*/set/invariant", "C13/*/iadd/invariant", "C13/*/reject_keeps_content", "C13/*/read_empty_raises", "C13/*/eq_definition",
            "C13/*/eq_symmetric", "C13/photon/assign_nonnegative"]


def _types(kind):
    import pyxel.data_structure as ds

    return {"pixel": ds.Pixel, "signal": ds.Signal, "image": ds.Image, "phase": ds.Phase, "photon": ds.Photon}[kind]


def _geo():
    from pyxel.detectors import CCDGeometry

    return CCDGeometry(row=SHAPE[0], col=SHAPE[1])


def _make(kind, pre, name="pre"):
    c = _types(kind)(_geo())
    content = None
    if pre == "full":
        k = "int" if HOME[kind].startswith("u") else "real"
        content = sym_array(name, SHAPE, kind=k, dtype=HOME[kind])
        if kind in ("photon", "image"):
            for e in content.elems():
                vx.assume(e >= 0, "pre-state holds valid (non-negative) photon / image values")
        c._array = content
    return c, content


def _arg(dtype, shape, name="arg"):
    dt = np.dtype(dtype)
    k = "int" if dt.kind in "iu" else "real"
    if dt.kind == "b":
        n = int(np.prod(shape)) if shape else 1
        el = [vx.boolean(f"{name}_{i}") for i in range(n)]
        a = symnp.SymArray.from_elems(el, tuple(shape), dt)
    else:
        a = sym_array(name, tuple(shape), kind=k, dtype=dt)
        if dt.kind == "u":
            for e in a.elems():
                vx.assume(e >= 0, "unsigned argument values are non-negative")
    return a


def _valid(kind, c):
    """The invariant of the statement, evaluated on the container's private state."""
    arr = c._array
    if arr is None:
        return True
    if not isinstance(arr, (symnp.SymArray, np.ndarray)):
        return False
    if tuple(arr.shape) != SHAPE:
        return False
    allowed = "u" if kind == "image" else "f"
    return arr.dtype.kind == allowed


def step(kind, pre, op, dtype, shape):
    with Patch() as p:
        p.numpy(*DATA_MODULES)
        c, content = _make(kind, pre)
        snap = None if content is None else content.copy()
        arg = _arg(dtype, tuple(shape))
        argsnap = arg.copy()
        raised = None
        try:
            if op == "set":
                c.array = arg
            elif op == "update":
                c.update(arg)
            elif op == "iadd":
                c += arg
            elif op == "add":
                c + arg  # noqa: B018  (the implementation of + mutates, like +=)
        except Exception as e:  # noqa: BLE001
            raised = e
        if raised is None:
            vx.prove(f"C13/{kind}/{op}/invariant", _valid(kind, c), dtype=dtype, shape=list(shape), pre=pre)
            if kind == "photon" and (op in ("set", "update") or pre == "empty") and _valid(kind, c) and c._array is not None:
                vx.prove("C13/photon/assign_nonnegative", vx.all_of([e >= 0 for e in symnp.asarray(c._array).elems()]), op=op, dtype=dtype)
            if _valid(kind, c) and c._array is not None and op in ("set", "update"):
                # the stored values are the assigned ones (photon: clipped at zero)
                got = symnp.asarray(c._array).elems()
                want = argsnap.elems()
                if kind == "photon":
                    want = [vx.sym_max(v, 0) for v in want]
                vx.prove(f"C13/{kind}/{op}/stores_value", vx.all_of([g == w for g, w in zip(got, want)]))
            if _valid(kind, c) and pre == "full" and op in ("iadd", "add") and tuple(shape) in ((2, 3), (1, 3), ()):
                got = symnp.asarray(c._array).elems()
                import numpy as _np

                bidx = _np.broadcast_to(_np.arange(argsnap.size).reshape(argsnap.shape), SHAPE).ravel().tolist()
                av = argsnap.elems()
                if np.dtype(dtype).kind == "b":
                    want = [s + vx.ite(av[j], 1, 0) for s, j in zip(snap.elems(), bidx)]
                else:
                    want = [s + av[j] for s, j in zip(snap.elems(), bidx)]
                if np.dtype(HOME[kind]).kind in "f" or np.dtype(dtype).kind in "iub":
                    vx.prove(f"C13/{kind}/{op}/adds_value", vx.all_of([g == w for g, w in zip(got, want)]))
        else:
            # a refused operation leaves the previous content untouched
            same = (c._array is None) if snap is None else (c._array is not None and tuple(c._array.shape) == SHAPE
                                                              and c._array.dtype == snap.dtype and arr_eq(c._array, snap))
            vx.prove(f"C13/{kind}/reject_keeps_content", same, op=op, dtype=dtype, shape=list(shape), pre=pre, error=type(raised).__name__)


def _xr_shim():
    import types

    import xarray as real_xr

    from vx import fakexr

    m = types.ModuleType("vx_fake_xarray")
    m.DataArray = fakexr.DataArray
    m.Dataset = real_xr.Dataset
    m.DataTree = real_xr.DataTree
    return m


def photon3d(pre, op, arg):
    """Multi-wavelength photons: the stored value is a (wavelength, y, x) data array of the detector's rows x columns."""
    import pyxel.data_structure as ds
    from vx import fakexr

    nw = 2
    with Patch() as p:
        p.numpy(*DATA_MODULES)
        p.sysmodule("xarray", _xr_shim(), "recording stand-in for xarray.DataArray (dims, coords, dtype, values)")
        c = ds.Photon(_geo())
        snap = None
        if pre == "full3d":
            content = sym_array("pre", (nw,) + SHAPE)
            for e in content.elems():
                vx.assume(e >= 0, "pre-state holds valid (non-negative) photon values")
            c._array = fakexr.DataArray(content, dims=("wavelength", "y", "x"), coords={"wavelength": [500.0, 600.0]})
            snap = content.copy()
        elif pre == "full2d":
            content = sym_array("pre", SHAPE)
            for e in content.elems():
                vx.assume(e >= 0, "pre-state holds valid (non-negative) photon values")
            c._array = content
            snap = content.copy()
        if arg == "array2d":
            value = sym_array("arg", SHAPE)
        elif arg == "array2d_int":
            value = sym_array("arg", SHAPE, kind="int", dtype="int64")
        elif arg == "array2d_wrong_shape":
            value = sym_array("arg", (3, 2))
        elif arg == "array1d":
            value = sym_array("arg", (SHAPE[1],))
        elif arg == "array3d_plain":
            value = sym_array("arg", (nw,) + SHAPE)
        else:
            shape = (nw,) + (SHAPE if arg != "wrong_yx" else (3, 2))
            data = sym_array("arg", shape, kind="int" if arg == "int_dtype" else "real", dtype="int64" if arg == "int_dtype" else float)
            dims = ("wavelength", "y", "x") if arg != "wrong_dims" else ("y", "x", "wavelength")
            if arg == "wrong_dims":
                data = sym_array("arg2", SHAPE + (nw,))
            value = fakexr.DataArray(data, dims=dims, coords={} if arg == "no_coords" else {"wavelength": [500.0, 600.0]})
        raised = None
        try:
            if op == "set3d":
                c.array_3d = value
            elif op == "set2d":
                c.array = value
            elif op == "set2d_alias":
                c.array_2d = value
            elif op == "update":
                c.update(value)
            else:
                c += value
        except Exception as e:  # noqa: BLE001
            raised = e
        if isinstance(raised, AttributeError) and "DataArray" in str(raised):
            # the code asked the xarray stand-in for something it does not model: not a refusal by the container
            raise symnp.Unsupported(f"xarray stand-in: {raised}")
        a = c._array
        if a is None:
            valid = True
        elif isinstance(a, fakexr.DataArray):
            valid = a.dims == ("wavelength", "y", "x") and tuple(a.shape[1:]) == SHAPE and a.dtype.kind == "f" and "wavelength" in a.coords
        else:
            valid = isinstance(a, symnp.SymArray) and tuple(a.shape) == SHAPE and a.dtype.kind == "f"
        lab = f"{op}/{pre}/{arg}"
        if raised is None:
            vx.prove("C13/photon3d/invariant", valid, case=lab)
            if valid and isinstance(a, fakexr.DataArray) and (op == "set3d" or pre == "empty"):
                vx.prove("C13/photon3d/assign_nonnegative", vx.all_of([e >= 0 for e in a.data.elems()]), case=lab)
        else:
            if snap is None:
                same = a is None
            else:
                cur = a.data if isinstance(a, fakexr.DataArray) else a
                same = cur is not None and tuple(cur.shape) == tuple(snap.shape) and arr_eq(cur, snap)
            vx.prove("C13/photon3d/reject_keeps_content", same, case=lab, error=type(raised).__name__)
        if arg == "ok" and pre in ("empty", "full3d"):
            vx.prove("C13/photon3d/valid_operation_accepted", raised is None, case=lab, error=repr(raised)[:100])


def photon_ieee(op, shape=(1, 3)):
    """IEEE-754 values (NaN, +-inf, -0.0 included): after an assignment no stored photon count is negative."""
    import pyxel.data_structure as ds

    shape = tuple(shape)
    from pyxel.detectors import CCDGeometry

    with Patch() as p:
        p.numpy(*DATA_MODULES)
        c = ds.Photon(CCDGeometry(row=shape[0], col=shape[1]))
        vals = [vx.fp(f"v{i}") for i in range(shape[0] * shape[1])]
        arg = symnp.SymArray.from_elems(vals, shape, np.float64)
        raised = None
        try:
            if op == "set":
                c.array = arg
            elif op == "update":
                c.update(arg)
            elif op == "iadd":
                c += arg
            else:
                c + arg  # noqa: B018
        except Exception as e:  # noqa: BLE001
            raised = e
        if raised is None and c._array is not None:
            stored = symnp.asarray(c._array).elems()
            vx.prove(f"C13/photon/assign_nonnegative/ieee/{op}", vx.all_of([~(e < 0) for e in stored]))
            # values that are not negative are stored as given
            vx.prove(f"C13/photon/ieee_keeps_nonnegative_values/{op}", vx.all_of([vx.implies(v >= 0, e == v) for e, v in zip(stored, vals)]))
        elif raised is not None:
            vx.prove(f"C13/photon/ieee_reject_keeps_content/{op}", c._array is None)


def simple_ops(kind, pre):
    with Patch() as p:
        p.numpy(*DATA_MODULES)
        c, content = _make(kind, pre)
        try:
            got = c.array
            ok = True
        except (ValueError, TypeError):
            ok = False
        if pre == "empty" and kind != "pixel":
            vx.prove(f"C13/{kind}/read_empty_raises", not ok)
        elif pre == "full":
            vx.prove(f"C13/{kind}/read_returns_content", ok and arr_eq(got, content))
            vx.prove(f"C13/{kind}/shape_dtype", tuple(c.shape) == SHAPE and c.dtype == content.dtype)
        c.empty()
        if kind == "pixel":
            vx.prove("C13/pixel/empty_is_zero", _valid(kind, c) and c._array is not None and vx.all_of([e == 0 for e in symnp.asarray(c._array).elems()]))
        else:
            vx.prove(f"C13/{kind}/empty_empties", c._array is None)
        if kind == "pixel":
            c.update(None)
            try:
                c.array
                r = True
            except ValueError:
                r = False
            vx.prove("C13/pixel/read_empty_raises", not r)


def equality_shapes(kind, a, b):
    """Two containers of the same kind built for detectors of different shapes are never equal - empty or not."""
    from pyxel.detectors import CCDGeometry

    other_shape = (SHAPE[1], SHAPE[0]) if SHAPE[0] != SHAPE[1] else (SHAPE[0] + 1, SHAPE[1])
    with Patch() as p:
        p.numpy(*DATA_MODULES)
        ca, _ = _make(kind, a, "xa")
        cb = _types(kind)(CCDGeometry(row=other_shape[0], col=other_shape[1]))
        if b == "full":
            k = "int" if HOME[kind].startswith("u") else "real"
            cb._array = sym_array("xb", other_shape, kind=k, dtype=HOME[kind])
        res = []
        for l, r in ((ca, cb), (cb, ca)):
            try:
                res.append(bool(l == r))
            except Exception as e:  # noqa: BLE001
                res.append(e)
    vx.prove(f"C13/{kind}/eq_other_shape", res == [False, False], case=f"{a},{b}", got=repr(res)[:80])


def equality(kind, a, b, other):
    with Patch() as p:
        p.numpy(*DATA_MODULES)
        ca, xa = _make(kind, a, "xa")
        cb, xb = _make(other, b, "xb")
        res = {}
        for nm, l, r in (("ab", ca, cb), ("ba", cb, ca)):
            try:
                v = l == r
                res[nm] = bool(v)
            except Exception as e:  # noqa: BLE001
                res[nm] = e
        if other != kind:
            want = False
        elif xa is None or xb is None:
            want = xa is None and xb is None
        else:
            want = bool(arr_eq(xa, xb))  # forks: both outcomes are explored
        lab = f"{a},{b},{other if other != kind else 'same'}"
        vx.prove(f"C13/{kind}/eq_definition", (not isinstance(res["ab"], Exception)) and res["ab"] == want, case=lab)
        vx.prove(f"C13/{kind}/eq_symmetric", (not isinstance(res["ba"], Exception)) and (not isinstance(res["ab"], Exception)) and res["ab"] == res["ba"], case=lab)


# ------------------------------------------------------------------------------------------------
def _cval(model, name, dtype, shape, default=0):
    dt = np.dtype(dtype)
    n = int(np.prod(shape)) if shape else 1
    vals = [model.get(f"{name}_{i}", default) for i in range(n)]
    if dt.kind == "b":
        return np.array([bool(v) for v in vals], dtype=dt).reshape(shape)
    if dt.kind in "iu":
        info = np.iinfo(dt)
        return np.array([min(max(int(v), info.min), info.max) for v in vals], dtype=dt).reshape(shape)
    return np.array([float(v) for v in vals]).astype(dt).reshape(shape)


def replay(oid, kwargs, model, data):
    import warnings

    warnings.simplefilter("ignore")
    fn = data["fn"]
    kind = kwargs.get("kind", "photon")
    cls = _types(kind)
    if fn == "step":
        pre, op, dtype, shape = kwargs["pre"], kwargs["op"], kwargs["dtype"], tuple(kwargs["shape"])
        c = cls(_geo())
        snap = None
        if pre == "full":
            snap = _cval(model, "pre", HOME[kind], SHAPE, 1)
            if kind in ("photon", "image"):
                snap = np.abs(snap)
            c._array = snap.copy()
        arg = _cval(model, "arg", dtype, shape, 1)
        if "assign_nonnegative" in oid and not (arg < 0).any() if np.dtype(dtype).kind in "if" else False:
            arg = arg.copy()
            arg.flat[0] = -abs(arg.flat[0]) - 1
        raised = None
        try:
            if op == "set":
                c.array = arg
            elif op == "update":
                c.update(arg)
            elif op == "iadd":
                c += arg
            else:
                c + arg  # noqa: B018
        except Exception as e:  # noqa: BLE001
            raised = e
        a = c._array
        allowed = "u" if kind == "image" else "f"
        valid = a is None or (isinstance(a, np.ndarray) and a.shape == SHAPE and a.dtype.kind == allowed)
        det = {"raised": repr(raised), "stored_shape": None if a is None else list(getattr(a, "shape", ())), "stored_dtype": None if a is None else str(getattr(a, "dtype", type(a))),
               "arg_dtype": dtype, "arg_shape": list(shape)}
        if raised is None:
            if "/invariant" in oid:
                return (not valid), det
            if "assign_nonnegative" in oid:
                return bool(valid and a is not None and (a < 0).any()) or (not valid), det
            if "stores_value" in oid:
                want = np.clip(arg, 0, None) if kind == "photon" else arg
                return (not (valid and a is not None and np.array_equal(a, want))), det
            if "adds_value" in oid:
                with np.errstate(all="ignore"):
                    want = (snap + arg).astype(snap.dtype)
                return (not (valid and np.array_equal(a, want))), det
            return False, det
        if "reject_keeps_content" in oid:
            same = (a is None) if snap is None else (a is not None and a.shape == SHAPE and a.dtype == snap.dtype and np.array_equal(a, snap))
            return (not same), det
        return False, det
    if fn == "photon3d":
        import xarray as xr

        pre, op, arg = kwargs["pre"], kwargs["op"], kwargs["arg"]
        nw = 2
        c = _types("photon")(_geo())
        snap = None
        if pre == "full3d":
            snap = np.abs(_cval(model, "pre", float, (nw,) + SHAPE, 1))
            c._array = xr.DataArray(snap.copy(), dims=("wavelength", "y", "x"), coords={"wavelength": [500.0, 600.0]})
        elif pre == "full2d":
            snap = np.abs(_cval(model, "pre", float, SHAPE, 1))
            c._array = snap.copy()
        if arg == "array2d":
            value = _cval(model, "arg", float, SHAPE, 1)
        elif arg == "array2d_int":
            value = _cval(model, "arg", "int64", SHAPE, 1)
        elif arg == "array2d_wrong_shape":
            value = _cval(model, "arg", float, (3, 2), 1)
        elif arg == "array1d":
            value = _cval(model, "arg", float, (SHAPE[1],), 1)
        elif arg == "array3d_plain":
            value = _cval(model, "arg", float, (nw,) + SHAPE, 1)
        else:
            shape = (nw,) + (SHAPE if arg != "wrong_yx" else (3, 2))
            dat = _cval(model, "arg", "int64" if arg == "int_dtype" else float, shape, 1)
            dims = ("wavelength", "y", "x")
            if arg == "wrong_dims":
                dat, dims = _cval(model, "arg2", float, SHAPE + (nw,), 1), ("y", "x", "wavelength")
            value = xr.DataArray(dat, dims=dims, coords={} if arg == "no_coords" else {"wavelength": [500.0, 600.0]})
        raised = None
        try:
            if op == "set3d":
                c.array_3d = value
            elif op == "set2d":
                c.array = value
            elif op == "set2d_alias":
                c.array_2d = value
            elif op == "update":
                c.update(value)
            else:
                c += value
        except Exception as e:  # noqa: BLE001
            raised = e
        a = c._array
        if a is None:
            valid = True
        elif isinstance(a, xr.DataArray):
            valid = a.dims == ("wavelength", "y", "x") and tuple(a.shape[1:]) == SHAPE and a.dtype.kind == "f" and "wavelength" in a.coords
        else:
            valid = isinstance(a, np.ndarray) and a.shape == SHAPE and a.dtype.kind == "f"
        det = {"raised": repr(raised), "stored": None if a is None else type(a).__name__ + str(list(a.shape))}
        if raised is None:
            if "invariant" in oid:
                return (not valid), det
            if "assign_nonnegative" in oid:
                return (not valid) or bool((np.asarray(a) < 0).any()), det
            return False, det
        if "reject_keeps_content" in oid:
            same = (a is None) if snap is None else (a is not None and tuple(a.shape) == tuple(snap.shape) and np.array_equal(np.asarray(a), snap))
            return (not same), det
        if "valid_operation_accepted" in oid:
            return True, det
        return False, det
    if fn == "photon_ieee":
        from pyxel.detectors import CCDGeometry

        shp = tuple(kwargs.get("shape", (1, 3)))
        c = _types("photon")(CCDGeometry(row=shp[0], col=shp[1]))
        arr = np.array([float(model.get(f"v{i}", 0.0)) for i in range(3)]).reshape(shp)
        op = kwargs["op"]
        try:
            if op == "set":
                c.array = arr
            elif op == "update":
                c.update(arr)
            elif op == "iadd":
                c += arr
            else:
                c + arr  # noqa: B018
        except Exception as e:  # noqa: BLE001
            return c._array is not None, {"raised": repr(e)}
        st = c._array
        bad = st is not None and bool((st < 0).any())
        if "keeps_nonnegative" in oid and st is not None:
            bad = bad or any(v >= 0 and not (s_ == v) for s_, v in zip(st.ravel(), arr.ravel()))
        return bad, {"assigned": arr.tolist(), "stored": None if st is None else st.tolist()}
    if fn == "equality_shapes":
        from pyxel.detectors import CCDGeometry

        other_shape = (SHAPE[1], SHAPE[0]) if SHAPE[0] != SHAPE[1] else (SHAPE[0] + 1, SHAPE[1])
        ca, cb = cls(_geo()), cls(CCDGeometry(row=other_shape[0], col=other_shape[1]))
        if kwargs["a"] == "full":
            ca._array = _cval(model, "xa", HOME[kind], SHAPE, 1)
        if kwargs["b"] == "full":
            cb._array = _cval(model, "xb", HOME[kind], other_shape, 1)
        res = []
        for l, r in ((ca, cb), (cb, ca)):
            try:
                res.append(bool(l == r))
            except Exception as e:  # noqa: BLE001
                res.append(repr(e))
        return res != [False, False], {"shapes": [list(SHAPE), list(other_shape)], "a == b, b == a": res}
    if fn == "equality":
        other = kwargs["other"]
        ca, cb = cls(_geo()), _types(other)(_geo())
        xa = xb = None
        if kwargs["a"] == "full":
            xa = _cval(model, "xa", HOME[kind], SHAPE, 1)
            ca._array = xa
        if kwargs["b"] == "full":
            xb = _cval(model, "xb", HOME[other], SHAPE, 1)
            cb._array = xb
        res = {}
        for nm, l, r in (("ab", ca, cb), ("ba", cb, ca)):
            try:
                res[nm] = bool(l == r)
            except Exception as e:  # noqa: BLE001
                res[nm] = repr(e)
        if other != kind:
            want = False
        elif xa is None or xb is None:
            want = xa is None and xb is None
        else:
            want = bool(np.array_equal(xa, xb))
        if "eq_definition" in oid:
            return res["ab"] != want, {"a==b": res["ab"], "expected": want}
        return (res["ab"] != res["ba"] or isinstance(res["ab"], str) or isinstance(res["ba"], str)), res
    if fn == "simple_ops":
        c = cls(_geo())
        if kwargs["pre"] == "full":
            c._array = _cval(model, "pre", HOME[kind], SHAPE, 1)
        if "read_empty_raises" in oid:
            if kind == "pixel":
                c.update(None)
            else:
                c.empty()
            try:
                c.array
                return True, {"read_of_empty": "returned a value"}
            except (ValueError, TypeError):
                return False, {}
        return False, {}
    return False, {}
