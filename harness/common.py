"""Helpers shared by the harness modules."""

from __future__ import annotations

import vx
from vx import symnp
from vx.core import Fraction

DATA_MODULES = (
    "pyxel.data_structure.array",
    "pyxel.data_structure.pixel",
    "pyxel.data_structure.photon",
    "pyxel.data_structure.charge",
    "pyxel.data_structure.signal",
    "pyxel.data_structure.image",
    "pyxel.data_structure.phase",
)

GROUPS = (
    "scene_generation",
    "photon_collection",
    "phasing",
    "charge_generation",
    "charge_collection",
    "charge_transfer",
    "charge_measurement",
    "signal_transfer",
    "readout_electronics",
    "data_processing",
)


def make_ccd(rows=2, cols=2, **char):
    from pyxel.detectors import CCD, CCDGeometry, Characteristics, Environment

    return CCD(
        geometry=CCDGeometry(row=rows, col=cols, total_thickness=40.0, pixel_vert_size=10.0, pixel_horz_size=10.0),
        environment=Environment(temperature=200.0),
        characteristics=Characteristics(**char) if char else Characteristics(),
    )


def sym_array(name, shape, kind="real", dtype=None):
    n = 1
    for s in shape:
        n *= s
    mk = vx.real if kind == "real" else vx.integer
    elems = [mk(f"{name}_{i}") for i in range(n)]
    if dtype is None:
        dtype = float if kind == "real" else "int64"
    return symnp.SymArray.from_elems(elems, shape, dtype)


def num(x):
    """JSON model value -> float/int for concrete replays."""
    if isinstance(x, Fraction):
        return x.numerator / x.denominator
    return x


def nums(x):
    if isinstance(x, dict):
        return {k: nums(v) for k, v in x.items()}
    if isinstance(x, (list, tuple)):
        return [nums(v) for v in x]
    return num(x)


def close(a, b, tol=1e-9):
    """Compare nested numbers with a relative tolerance (rationals were rounded to doubles)."""
    if isinstance(a, (list, tuple)) and isinstance(b, (list, tuple)):
        return len(a) == len(b) and all(close(x, y, tol) for x, y in zip(a, b))
    if isinstance(a, bool) or isinstance(b, bool) or a is None or b is None or isinstance(a, str):
        return a == b
    try:
        a, b = float(a), float(b)
    except (TypeError, ValueError):
        return a == b
    return abs(a - b) <= tol * max(1.0, abs(a), abs(b))


def elems(x):
    return x.elems() if isinstance(x, symnp.SymArray) else list(x.ravel().tolist())


def arr_eq(a, b):
    """Solver-level equality of two arrays (SymArray or ndarray) as a single claim."""
    ea, eb = elems(a), elems(b)
    if len(ea) != len(eb):
        return False
    return vx.all_of([x == y for x, y in zip(ea, eb)])
