"""C16 — digitised images are bounded, monotone, saturating and never wrap.

The real apply_simple_adc / simple_adc / get_dtype / apply_sar_adc / apply_sar_adc_with_noise are
executed on symbolic values.  Layer 1 (exact): IEEE-754 double terms (z3 Float64, RNE; truncation
RTZ; integer casts kept as exact wide-FP integers with the in-range side condition as its own
obligation), decided by cvc5 with z3 as fall-back, for concrete voltage ranges.  Layer 2: same with
a symbolic range under a time cap (bug-hunting only).  Layer 3: real arithmetic for every range.
"""

from __future__ import annotations

import math

import numpy as np

import vx
from vx import core, symnp
from vx.core import unjson
from vx.patching import Patch

from .common import make_ccd

PROPERTY = "C16"
LEVEL = "model_checking"
FUNCTIONS = [
    "pyxel.models.readout_electronics.simple_adc:apply_simple_adc",
    "pyxel.models.readout_electronics.simple_adc:simple_adc",
    "pyxel.util.misc:get_dtype",
    "pyxel.models.readout_electronics.sar_adc:apply_sar_adc",
    "pyxel.models.readout_electronics.sar_adc_with_noise:apply_sar_adc_with_noise",
    "pyxel.models.readout_electronics.sar_adc:sar_adc", "pyxel.models.readout_electronics.sar_adc_with_noise:sar_adc_with_noise",
]
STUBS = [
    "np in simple_adc / sar_adc / sar_adc_with_noise / util.misc -> vx.symnp",
    "noisy SAR: np.random.normal(loc, scale, size) returns loc when scale is the concrete 0 (contract of a zero-width normal)",
]
OUTSIDE = [
    "NaN voltages (excluded by assumption); layer 3 is real arithmetic (no rounding) and excludes infinities",
    "SAR monotonicity for more than 12 (quick) / 16 (thorough) bits in the solver",
    "exact-FP claims hold for the listed concrete voltage ranges only; symbolic ranges are bug-hunting under a time cap",
]
ASSUMPTIONS = ["input voltages are not NaN", "voltage_min < voltage_max"]
EXPLANATION = (
    "One path per (resolution, range): clip/trunc/cast merge into ite terms.  Each clause is one QF_FP "
    "query (negated clause under the path condition) answered by cvc5, z3 as fall-back."
)
HARD_TIMEOUT_S = {"quick": 900, "thorough": 3600}

RANGES = [(0.0, 5.0), (0.0, 6.0), (0.0, 10.0), (0.5, 2.5), (0.4558, 2.0475), (-1.2, 3.3), (0.1, 0.7), (0.0, 1e-3)]


def bounds(tier):
    return {
        "bit_resolutions_exact_fp": BITS_Q if tier == "quick" else "4..64",
        "voltage_ranges_exact_fp": RANGES[:4] if tier == "quick" else RANGES,
        "sar_bits_bounds": "4..24 (real arithmetic)" if tier == "quick" else "4..64",
        "sar_bits_monotone": "<=8 quick, <=12 thorough (real arithmetic)",
        "simple_monotone_exact_fp_bits": f"<= {MONO_FP[tier]} (a single multiply-by-constant monotonicity lemma already times out at 60 s in cvc5 and z3 for 32 bits); "
        "all resolutions are covered by the real-arithmetic layer",
    }


BITS_Q = [4, 8, 12, 16, 32, 52, 53, 54, 63, 64]
MONO_FP = {"quick": 8, "thorough": 10}  # exact-FP monotonicity needs two symbolic inputs: out of solver reach beyond this


def tasks(tier, seed):
    out = []
    bits = BITS_Q if tier == "quick" else list(range(4, 65))
    ranges = RANGES[:4] if tier == "quick" else RANGES
    for b in bits:
        for ri, r in enumerate(ranges):
            mono = b <= MONO_FP[tier]
            out.append({"fn": "simple_fp", "kwargs": {"bits": b, "vmin": r[0], "vmax": r[1], "mono": mono}, "label": f"simple/fp/bits={b},range={r[0]}:{r[1]}",
                        "solver": "cvc5", "cross_check": False, "caps": {"max_seconds": 600, "solver_timeout_ms": 60000 if tier == "quick" else 300000}})
    for b in ([8] if tier == "quick" else [4, 8, 12, 16, 32, 53]):
        out.append({"fn": "simple_fp", "kwargs": {"bits": b, "vmin": None, "vmax": None, "mono": False, "quick": tier == "quick"}, "label": f"simple/fp/bits={b},range=symbolic",
                    "solver": "cvc5", "cross_check": False, "caps": {"max_seconds": 400, "solver_timeout_ms": 30000 if tier == "quick" else 120000}})
    for b in ([4, 8, 12, 16, 32, 53, 54, 64] if tier == "quick" else range(4, 65)):
        out.append({"fn": "simple_real", "kwargs": {"bits": b}, "label": f"simple/real/bits={b}"})
    out.append({"fn": "dtype_width", "kwargs": {}, "label": "dtype/width"})
    out.append({"fn": "model_dtype", "kwargs": {}, "label": "simple/model_dtype"})
    for dtn in ("uint8", "uint16", "uint32", "uint64"):
        out.append({"fn": "model_data_type", "kwargs": {"data_type": dtn}, "label": f"simple/model_data_type/{dtn}", "caps": {"max_seconds": 300, "solver_timeout_ms": 60000}})
    for mname in ("simple_adc", "sar_adc"):
        out.append({"fn": "model_reuse", "kwargs": {"model_name": mname}, "label": f"model_reuse/{mname}", "caps": {"max_seconds": 300, "solver_timeout_ms": 60000}})
    sar_b = [4, 8, 12, 16, 24] if tier == "quick" else [4, 6, 8, 10, 12, 16, 24, 32, 48, 64]
    for b in sar_b:
        out.append({"fn": "sar_real", "kwargs": {"bits": b, "mono": b <= (8 if tier == "quick" else 12)}, "label": f"sar/real/bits={b}",
                    "caps": {"max_seconds": 300, "solver_timeout_ms": 120000}})
    for b in [4, 8] if tier == "quick" else [4, 6, 8, 12]:
        out.append({"fn": "sar_noise", "kwargs": {"bits": b}, "label": f"sar_noise/zero_noise/bits={b}"})
        out.append({"fn": "sar_models_equiv", "kwargs": {"bits": b}, "label": f"sar_noise/models/bits={b}", "caps": {"max_seconds": 300, "solver_timeout_ms": 60000}})
    for b, vm in ([(4, 3.3), (6, 0.7)] if tier == "quick" else [(4, 3.3), (6, 0.7), (8, 1.8), (10, 0.2048), (12, 3.3), (8, 5.0)]):
        out.append({"fn": "sar_noise_fp", "kwargs": {"bits": b, "vmax": vm}, "label": f"sar_noise/zero_noise/fp,bits={b},vmax={vm}", "solver": "cvc5", "cross_check": False,
                    "caps": {"max_seconds": 400, "solver_timeout_ms": 120000}})
    for b, sd in ([(25, "float32"), (8, "float32"), (12, "float16")] if tier == "quick" else [(26, "float32"), (32, "float32"), (8, "float32"), (24, "float32"), (12, "float16"), (16, "float16"), (10, "float16")]):
        out.append({"fn": "sar_noise", "kwargs": {"bits": b, "sigdtype": sd}, "label": f"sar_noise/zero_noise/bits={b},{sd}", "caps": {"solver_timeout_ms": 120000, "max_seconds": 400}})
    for b, vm in ([(4, 3.3), (6, 0.7)] if tier == "quick" else [(4, 3.3), (6, 0.7), (8, 3.3), (8, 1.8), (10, 3.3)]):
        out.append({"fn": "sar_models_fp", "kwargs": {"bits": b, "vmax": vm}, "label": f"sar_noise/models/fp,bits={b},vmax={vm}", "solver": "cvc5", "cross_check": False,
                    "caps": {"max_seconds": 400, "solver_timeout_ms": 120000}})
    for b in [4] if tier == "quick" else [4, 6, 8]:
        out.append({"fn": "sar_fp", "kwargs": {"bits": b, "vmax": 5.0}, "label": f"sar/fp/bits={b}", "solver": "cvc5", "cross_check": False,
                    "caps": {"max_seconds": 400, "solver_timeout_ms": 120000}})
    return out


def REQUIRED_REACH(tier):
    return ["C16/simple/bounds/*", "C16/simple/monotone/*", "C16/simple/low_sat/*", "C16/simple/full_scale/*", "C16/simple/no_wrap/*",
            "C16/dtype/width*", "C16/sar/bounds/*", "C16/sar/monotone/*", "C16/sar_noise/zero_noise_equiv/*"]


ADC_MODS = (
    "pyxel.models.readout_electronics.simple_adc",
    "pyxel.models.readout_electronics.sar_adc",
    "pyxel.models.readout_electronics.sar_adc_with_noise",
    "pyxel.util.misc",
)


def _mods():
    import importlib

    return [importlib.import_module(m) for m in ADC_MODS]


# -- layer 1 / 2: exact IEEE ------------------------------------------------------------------
def simple_fp(bits, vmin, vmax, mono=True, quick=False):
    sa = _mods()[0]
    from pyxel.util import get_dtype

    x, y = vx.fp("x"), vx.fp("y")
    vx.assume(~x.isnan(), "input voltages are not NaN")
    vx.assume(~y.isnan(), "input voltages are not NaN")
    symbolic_range = vmin is None
    if symbolic_range:
        vmin, vmax = vx.fp("vmin"), vx.fp("vmax")
        for v in (vmin, vmax):
            vx.assume((v >= -1000.0) & (v <= 1000.0), "symbolic voltage range: |v| <= 1000 V")
        vx.assume(vmax - vmin >= 1.0 / 1024, "symbolic voltage range: span >= 1/1024 V")
        rl = "symbolic"
    else:
        rl = f"{vmin}:{vmax}"
    lab = f"bits={bits},range={rl}"
    core.FP_EVENTS.clear()
    dt = get_dtype(bits)
    sig = symnp.SymArray.from_elems([x, y], (1, 2), np.float64)
    with Patch() as p:
        p.numpy(ADC_MODS[0])
        out = sa.apply_simple_adc(signal=sig, bit_resolution=bits, voltage_min=vmin, voltage_max=vmax, dtype=dt)
    cx, cy = out.elems()
    full = 2**bits - 1
    casts = [e for e in core.FP_EVENTS if e[0] == "cast"]
    imax = int(np.iinfo(dt).max)
    if symbolic_range and quick:
        # bug-hunting layer, quick tier: the two clauses that historically fail, under a short cap
        vx.prove(f"C16/simple/low_sat/{lab}", vx.implies(x <= vmin, cx == 0), bits=bits)
        vx.prove(f"C16/simple/full_scale/{lab}", vx.implies(x >= vmax, cx == full), bits=bits)
        return
    vx.prove(f"C16/simple/no_wrap/{lab}", vx.all_of([(core.SymFP(c, code=True) >= 0) & (core.SymFP(c, code=True) <= imax) for _, c, _ in casts]), bits=bits)
    vx.prove(f"C16/simple/bounds/{lab}", (cx >= 0) & (cx <= full), bits=bits)
    vx.prove(f"C16/simple/low_sat/{lab}", vx.implies(x <= vmin, cx == 0), bits=bits)
    vx.prove(f"C16/simple/full_scale/{lab}", vx.implies(x >= vmax, cx == full), bits=bits)
    if mono:
        vx.prove(f"C16/simple/monotone/{lab}", vx.implies(x <= y, cx <= cy), bits=bits)
    vx.prove(f"C16/simple/dtype/{lab}", out.dtype == dt)


def sar_fp(bits, vmax):
    sar = _mods()[1]
    x, y = vx.fp("x"), vx.fp("y")
    for v in (x, y):
        vx.assume(~v.isnan(), "input voltages are not NaN")
    core.FP_EVENTS.clear()
    sig = symnp.SymArray.from_elems([x, y], (1, 2), np.float64)
    with Patch() as p:
        p.numpy(ADC_MODS[1])
        out = sar.apply_sar_adc(signal_2d=sig, num_rows=1, num_cols=2, min_volt=0.0, max_volt=vmax, adc_bits=bits)
    cx, cy = out.elems()
    lab = f"fp,bits={bits}"
    vx.prove(f"C16/sar/bounds/{lab}", (cx >= 0) & (cx <= 2**bits - 1))
    vx.prove(f"C16/sar/monotone/{lab}", vx.implies(x <= y, cx <= cy))
    vx.prove(f"C16/sar/full_scale/{lab}", vx.implies(x >= vmax, cx == 2**bits - 1))


# -- layer 3: real arithmetic, every range ------------------------------------------------------
def simple_real(bits):
    sa = _mods()[0]
    from pyxel.util import get_dtype

    x, y, vmin, vmax = vx.real("x"), vx.real("y"), vx.real("vmin"), vx.real("vmax")
    vx.assume(vmin < vmax, "voltage_min < voltage_max")
    sig = symnp.SymArray.from_elems([x, y], (1, 2), np.float64)
    with Patch() as p:
        p.numpy(ADC_MODS[0])
        out = sa.apply_simple_adc(signal=sig, bit_resolution=bits, voltage_min=vmin, voltage_max=vmax, dtype=get_dtype(bits))
    cx, cy = out.elems()
    full = 2**bits - 1
    lab = f"real,bits={bits}"
    vx.prove(f"C16/simple/bounds/{lab}", (cx >= 0) & (cx <= full))
    vx.prove(f"C16/simple/low_sat/{lab}", vx.implies(x <= vmin, cx == 0))
    vx.prove(f"C16/simple/full_scale/{lab}", vx.implies(x >= vmax, cx == full))
    vx.prove(f"C16/simple/monotone/{lab}", vx.implies(x <= y, cx <= cy))
    # definition of the transfer function inside the range: floor of the affine map
    inside = (x >= vmin) & (x <= vmax)
    vx.prove(f"C16/simple/transfer/{lab}", vx.implies(inside, (cx <= (x - vmin) * full / (vmax - vmin)) & ((x - vmin) * full / (vmax - vmin) < cx + 1)))
    vx.observe("codes", [cx, cy])


def fidelity_simple_real(kwargs, w):
    from pyxel.models.readout_electronics.simple_adc import apply_simple_adc
    from pyxel.util import get_dtype

    inp = unjson(w["inputs"])
    bits = kwargs["bits"]
    if bits > 40:
        return True, {"skipped": "double rounding dominates above 40 bits"}
    x, y, vmin, vmax = (float(inp[k]) for k in ("x", "y", "vmin", "vmax"))
    out = apply_simple_adc(np.array([[x, y]]), bits, vmin, vmax, get_dtype(bits))
    want = unjson(w["observed"])["codes"]
    got = [int(v) for v in out.ravel()]
    ok = all(abs(g - int(wv)) <= 1 for g, wv in zip(got, want))  # +-1: the real-valued model has no rounding
    return ok, {"got": got, "want": [int(v) for v in want]}


def dtype_width():
    misc = _mods()[3]
    b = vx.integer("bits")
    with Patch() as p:
        p.numpy(ADC_MODS[3])
        try:
            dt = misc.get_dtype(b)
            ok = True
        except ValueError:
            ok = False
    vx.prove("C16/dtype/accept_iff_1_64", ((b >= 1) & (b <= 64)) == ok)
    if ok:
        # full scale 2**bits - 1 fits the chosen unsigned type  <=>  bits <= 8 * itemsize
        vx.prove("C16/dtype/width", (b <= 8 * dt.itemsize) & (dt.kind == "u"))
        vx.prove("C16/dtype/not_wasteful", b > 4 * dt.itemsize if dt.itemsize > 1 else True)


def model_dtype():
    """simple_adc (the model) stores the image in get_dtype(bits) and hands the detector's settings through."""
    sa = _mods()[0]
    det = make_ccd(1, 2)
    b = vx.integer("bits")
    vx.assume((b >= 4) & (b <= 64), "ADC resolution in its documented range")
    bb = core.concretize_int(b)
    det.characteristics._adc_bit_resolution = bb
    det.characteristics._adc_voltage_range = (0.0, 4.0)
    x = vx.real("x")
    with Patch() as p:
        p.numpy(ADC_MODS[0], ADC_MODS[3], "pyxel.data_structure.array", "pyxel.data_structure.image", "pyxel.data_structure.signal")
        det.signal.array = symnp.SymArray.from_elems([x, x + 1], (1, 2), np.float64)
        sa.simple_adc(det)
        img = det.image.array
    vx.prove("C16/model/dtype_wide_enough", (img.dtype.kind == "u") & (8 * img.dtype.itemsize >= bb))
    vx.prove("C16/model/monotone", img.elems()[0] <= img.elems()[1])
    vx.prove("C16/model/bounds", vx.all_of([(e >= 0) & (e <= 2**bb - 1) for e in img.elems()]))


def model_data_type(data_type):
    """simple_adc with its `data_type` option, for every pair (storage class of the resolution, requested type): the setting is either
    refused (no image is stored) or the stored image is in an unsigned type that holds full scale, saturated inputs read full scale
    and codes are ordered.  Fixed-width wrap of array casts is modelled here (numpy semantics of astype and of Python-int stores)."""
    sa = _mods()[0]
    det = make_ccd(1, 2)
    k = vx.integer("class")
    reps = (8, 12, 24, 40, 64)
    vx.assume((k >= 0) & (k <= 4), "one resolution per storage class (and 64)")
    bb = reps[core.concretize_int(k)]
    det.characteristics._adc_bit_resolution = bb
    det.characteristics._adc_voltage_range = (0.0, 4.0)
    x = vx.real("x")
    vx.assume((x >= 0) & (x <= 8), "voltages around the range")
    lab = f"{data_type}/bits={bb}"
    before = det.image._array
    symnp.WRAP_MODEL["enabled"] = True
    try:
        with Patch() as p:
            p.numpy(ADC_MODS[0], ADC_MODS[3], "pyxel.data_structure.array", "pyxel.data_structure.image", "pyxel.data_structure.signal")
            det.signal.array = symnp.SymArray.from_elems([x, x + 4], (1, 2), np.float64)
            try:
                sa.simple_adc(det, data_type=data_type)
                stored = True
            except (OverflowError, ValueError, TypeError):
                stored = False
            img = det.image._array
    finally:
        symnp.WRAP_MODEL["enabled"] = False
    if not stored:
        vx.reach("C16/model/data_type/refused")
        vx.prove(f"C16/model/data_type/refused_stores_nothing/{lab}", img is before)
        vx.prove(f"C16/model/data_type/refused_only_when_too_narrow/{lab}", 8 * np.dtype(data_type).itemsize < bb)
        return
    vx.prove(f"C16/model/data_type/dtype_wide_enough/{lab}", (img.dtype.kind == "u") & (8 * img.dtype.itemsize >= bb))
    vx.prove(f"C16/model/data_type/full_scale/{lab}", img.elems()[1] == 2**bb - 1)
    vx.prove(f"C16/model/data_type/monotone_bounds/{lab}", (img.elems()[0] <= img.elems()[1]) & (img.elems()[0] >= 0) & (img.elems()[1] <= 2**bb - 1))


def model_reuse(model_name):
    """The three converter models on a detector that still holds the image of an earlier, lower-resolution conversion (the resolution
    was raised through the attribute in between): the new image has the type and the codes of the new resolution."""
    mods = _mods()
    import importlib

    det = make_ccd(1, 2)
    b0, b1 = vx.integer("bits_before"), vx.integer("bits_after")
    vx.assume((b0 >= 4) & (b0 <= 64) & (b1 >= 4) & (b1 <= 64), "ADC resolutions in the documented range")
    k0, k1 = vx.integer("class_before"), vx.integer("class_after")  # storage class: 8 / 16 / 32 / 64 bit images
    reps = (8, 12, 24, 40)
    vx.assume((k0 >= 0) & (k0 <= 3) & (k1 >= 0) & (k1 <= 3), "one resolution per storage class")
    bb0, bb1 = reps[core.concretize_int(k0)], reps[core.concretize_int(k1)]
    vx.assume((b0 == bb0) & (b1 == bb1), "representative resolutions 8, 12, 24, 40")
    det.characteristics._adc_voltage_range = (0.0, 4.0)
    x = vx.real("x")
    vx.assume((x >= 0) & (x <= 8), "voltages around the range")
    with Patch() as p:
        p.numpy(ADC_MODS[0], ADC_MODS[1], ADC_MODS[2], ADC_MODS[3], "pyxel.data_structure.array", "pyxel.data_structure.image", "pyxel.data_structure.signal")
        f = {"simple_adc": mods[0].simple_adc, "sar_adc": mods[1].sar_adc}[model_name]
        det.characteristics._adc_bit_resolution = bb0
        det.signal.array = symnp.SymArray.from_elems([x, x + 1], (1, 2), np.float64)
        f(det)
        det.characteristics.adc_bit_resolution = bb1
        det.signal.array = symnp.SymArray.from_elems([x, x + 4], (1, 2), np.float64)
        f(det)
        img = det.image.array
    lab = f"{model_name}/{bb0}->{bb1}"
    vx.prove(f"C16/model/reuse/dtype_wide_enough/{lab}", (img.dtype.kind == "u") & (8 * img.dtype.itemsize >= bb1))
    vx.prove(f"C16/model/reuse/full_scale/{lab}", img.elems()[1] == 2**bb1 - 1)  # x + 4 >= vmax
    vx.prove(f"C16/model/reuse/monotone_bounds/{lab}", (img.elems()[0] <= img.elems()[1]) & (img.elems()[0] >= 0))


def sar_real(bits, mono):
    sar = _mods()[1]
    x, y, vmax = vx.real("x"), vx.real("y"), vx.real("vmax")
    vx.assume(vmax > 0, "max_volt > 0")
    sig = symnp.SymArray.from_elems([x, y], (1, 2), np.float64)
    with Patch() as p:
        p.numpy(ADC_MODS[1], ADC_MODS[3])
        out = sar.apply_sar_adc(signal_2d=sig, num_rows=1, num_cols=2, min_volt=vx.real("vmin"), max_volt=vmax, adc_bits=bits)
    cx, cy = out.elems()
    lab = f"real,bits={bits}"
    vx.prove(f"C16/sar/bounds/{lab}", (cx >= 0) & (cx <= 2**bits - 1))
    vx.prove(f"C16/sar/full_scale/{lab}", vx.implies(x >= vmax, cx == 2**bits - 1))
    vx.prove(f"C16/sar/zero/{lab}", vx.implies(x <= 0, cx == 0))
    vx.prove(f"C16/sar/dtype/{lab}", (out.dtype.kind == "u") & (8 * out.dtype.itemsize >= bits))
    if mono:
        vx.prove(f"C16/sar/monotone/{lab}", vx.implies(x <= y, cx <= cy))
    vx.observe("codes", [cx, cy])


class _ZeroNoiseRandom:
    """np.random stand-in for the zero-noise equivalence: normal(loc, 0, size) == loc."""

    @staticmethod
    def normal(loc=0.0, scale=1.0, size=None):
        if vx.is_sym(scale) or scale != 0:
            raise vx.Unsupported("np.random.normal with non-zero scale in the zero-noise harness")
        return symnp.full(size, loc, dtype=float) if size is not None else loc


def sar_noise(bits, sigdtype="float64"):
    mods = _mods()
    sar, sarn = mods[1], mods[2]
    x, y, vmax = vx.real("x"), vx.real("y"), vx.real("vmax")
    vx.assume(vmax > 0, "max_volt > 0")
    sdt = np.dtype(sigdtype)
    if sdt.itemsize < 8:
        vx.assume((vmax <= 8) & (x >= -16) & (x <= 16) & (y >= -16) & (y <= 16), "narrow-float frames: voltages small enough to be held by the frame's own format")
    symnp.NARROW_EVENTS.clear()
    with Patch() as p:
        p.numpy(ADC_MODS[1], ADC_MODS[2], ADC_MODS[3])
        import types

        shim = types.ModuleType("symnp_zero_noise")
        shim.__getattr__ = lambda name: _ZeroNoiseRandom if name == "random" else getattr(symnp, name)  # type: ignore[attr-defined]
        p.attr(sarn, "np", shim, "np.random.normal(loc, 0) == loc")
        a = sar.apply_sar_adc(signal_2d=symnp.SymArray.from_elems([x, y], (1, 2), sdt), num_rows=1, num_cols=2,
                              min_volt=0.0, max_volt=vmax, adc_bits=bits)
        b = sarn.apply_sar_adc_with_noise(signal_2d=symnp.SymArray.from_elems([x, y], (1, 2), sdt), num_rows=1, num_cols=2,
                                          strengths=symnp.zeros(bits), noises=symnp.zeros(bits), max_volt=vmax, adc_bits=bits)
    lab = f"bits={bits}" + ("" if sigdtype == "float64" else f",{sigdtype}")
    if sdt.itemsize == 8 or bits <= 8:
        vx.prove(f"C16/sar_noise/zero_noise_equiv/{lab}", vx.all_of([u == v for u, v in zip(a.elems(), b.elems())]) & (a.dtype == b.dtype))
    if sdt.itemsize < 8:
        # real arithmetic cannot see rounding, so every integer (code) the converters park in a float32 / float16 array must be
        # small enough to be held exactly by that format; otherwise codes are silently rounded (bounds / full scale / equivalence lost)
        limit = 2 ** (24 if sdt.itemsize == 4 else 11)
        events = list(symnp.NARROW_EVENTS)
        ok = []
        for v, _ in events:
            small = (v <= limit) & (v >= -limit)
            ok.append(small if v.is_int else vx.implies(v.is_integer(), small))
        vx.prove(f"C16/sar_noise/codes_stored_exactly/{lab}", vx.all_of(ok), numbers_stored_in_narrow_floats=len(events))


def sar_models_equiv(bits):
    """The two SAR converter MODELS on detectors with the same signal and the same (symbolic) voltage range, lower bound of either
    sign: with all strengths and noises zero the noisy model stores exactly the image of sar_adc."""
    mods = _mods()
    sar, sarn = mods[1], mods[2]
    x, y, vmin, vmax = vx.real("x"), vx.real("y"), vx.real("vmin"), vx.real("vmax")
    vx.assume((vmin < vmax) & (vmax > 0), "voltage range with min < max, max > 0")
    images = []
    with Patch() as p:
        p.numpy(ADC_MODS[1], ADC_MODS[2], ADC_MODS[3], "pyxel.data_structure.array", "pyxel.data_structure.image", "pyxel.data_structure.signal")
        import types

        shim = types.ModuleType("symnp_zero_noise")
        shim.__getattr__ = lambda name: _ZeroNoiseRandom if name == "random" else getattr(symnp, name)  # type: ignore[attr-defined]
        p.attr(sarn, "np", shim, "np.random.normal(loc, 0) == loc")
        for which in ("plain", "noisy"):
            det = make_ccd(1, 2)
            det.characteristics._adc_bit_resolution = bits
            det.characteristics._adc_voltage_range = (vmin, vmax)
            det.signal.array = symnp.SymArray.from_elems([x, y], (1, 2), np.float64)
            if which == "plain":
                sar.sar_adc(det)
            else:
                sarn.sar_adc_with_noise(det, strengths=[0.0] * bits, noises=[0.0] * bits)
            images.append(det.image.array)
    a, b = images
    vx.prove(f"C16/sar_noise/models_zero_noise_equiv/bits={bits}", vx.all_of([u == v for u, v in zip(a.elems(), b.elems())]) & (a.dtype == b.dtype))


def sar_noise_fp(bits, vmax, sigdtype="float64"):
    """Exact IEEE-754: the noisy variant with all strengths and noises zero produces the very same code as sar_adc, for every
    finite double (the statement says "exactly" - rounding of intermediate results is part of it)."""
    mods = _mods()
    sar, sarn = mods[1], mods[2]
    x = vx.fp("x")
    vx.assume(~x.isnan(), "input voltage is not NaN")
    sdt = np.dtype(sigdtype)
    if sdt.itemsize < 8:
        # the signal container also accepts float32 / float16 frames: x is a value of that format
        vx.assume(x == x.round_to(8 * sdt.itemsize), f"the frame holds {sigdtype} values")
    core.FP_EVENTS.clear()
    with Patch() as p:
        p.numpy(ADC_MODS[1], ADC_MODS[2], ADC_MODS[3])
        import types

        shim = types.ModuleType("symnp_zero_noise")
        shim.__getattr__ = lambda name: _ZeroNoiseRandom if name == "random" else getattr(symnp, name)  # type: ignore[attr-defined]
        p.attr(sarn, "np", shim, "np.random.normal(loc, 0) == loc")
        a = sar.apply_sar_adc(signal_2d=symnp.SymArray.from_elems([x], (1, 1), sdt), num_rows=1, num_cols=1, min_volt=0.0, max_volt=vmax, adc_bits=bits)
        b = sarn.apply_sar_adc_with_noise(signal_2d=symnp.SymArray.from_elems([x], (1, 1), sdt), num_rows=1, num_cols=1,
                                          strengths=np.zeros(bits), noises=np.zeros(bits), max_volt=vmax, adc_bits=bits)
    lab = f"fp,bits={bits},vmax={vmax}" + ("" if sigdtype == "float64" else f",{sigdtype}")
    vx.prove(f"C16/sar_noise/zero_noise_equiv/{lab}", (a.elems()[0] == b.elems()[0]) & (a.dtype == b.dtype))
    if sdt.itemsize < 8:
        cb = b.elems()[0]
        vx.prove(f"C16/sar_noise/bounds/{lab}", (cb >= 0) & (cb <= 2**bits - 1))
        vx.prove(f"C16/sar_noise/full_scale/{lab}", vx.implies(x >= vmax, cb == 2**bits - 1))


def sar_models_fp(bits, vmax):
    """Exact IEEE-754, through the two MODELS (detector-level entry points): sar_adc and sar_adc_with_noise with all strengths and
    noises zero store the very same code for every finite double voltage, on a range (0, vmax)."""
    mods = _mods()
    sar, sarn = mods[1], mods[2]
    x = vx.fp("x")
    vx.assume(~x.isnan(), "input voltage is not NaN")
    images = []
    with Patch() as p:
        p.numpy(ADC_MODS[1], ADC_MODS[2], ADC_MODS[3], "pyxel.data_structure.array", "pyxel.data_structure.image", "pyxel.data_structure.signal")
        import types

        shim = types.ModuleType("symnp_zero_noise")
        shim.__getattr__ = lambda name: _ZeroNoiseRandom if name == "random" else getattr(symnp, name)  # type: ignore[attr-defined]
        p.attr(sarn, "np", shim, "np.random.normal(loc, 0) == loc")
        for which in ("plain", "noisy"):
            det = make_ccd(1, 1)
            det.characteristics._adc_bit_resolution = bits
            det.characteristics._adc_voltage_range = (0.0, vmax)
            det.signal.array = symnp.SymArray.from_elems([x], (1, 1), np.float64)
            if which == "plain":
                sar.sar_adc(det)
            else:
                sarn.sar_adc_with_noise(det, strengths=[0.0] * bits, noises=[0.0] * bits)
            images.append(det.image.array)
    a, b = images
    vx.prove(f"C16/sar_noise/models_zero_noise_equiv/fp,bits={bits},vmax={vmax}", (a.elems()[0] == b.elems()[0]) & (a.dtype == b.dtype))


# ------------------------------------------------------------------------------------------------
def _f(v):
    return float(v) if v is not None else 0.0


def replay(oid, kwargs, model, data):
    from pyxel.models.readout_electronics.sar_adc import apply_sar_adc
    from pyxel.models.readout_electronics.sar_adc_with_noise import apply_sar_adc_with_noise
    from pyxel.models.readout_electronics.simple_adc import apply_simple_adc
    from pyxel.util import get_dtype

    fn = data["fn"]
    clause = oid.split("/")[2]
    if fn in ("simple_fp", "simple_real"):
        bits = kwargs["bits"]
        vmin = kwargs.get("vmin")
        vmax = kwargs.get("vmax")
        if vmin is None:
            vmin, vmax = _f(model["vmin"]), _f(model["vmax"])
        x, y = _f(model.get("x")), _f(model.get("y"))
        with np.errstate(all="ignore"):
            out = apply_simple_adc(np.array([[x, y]], dtype=float), bits, vmin, vmax, get_dtype(bits))
        cx, cy = int(out[0, 0]), int(out[0, 1])
        full = 2**bits - 1
        det = {"x": x, "y": y, "vmin": vmin, "vmax": vmax, "code_x": cx, "code_y": cy, "full_scale": full, "bits": bits}
        if clause in ("bounds", "no_wrap"):
            # a wrapped value is again inside the dtype, so compare with the un-cast computation
            with np.errstate(all="ignore"):
                raw = np.trunc((np.clip(np.array([x, y]), vmin, vmax) - vmin) * (2**bits - 1) / (vmax - vmin))
            det["raw"] = [float(v) for v in raw]
            bad = any(not (0 <= int(v) <= full) for v in (cx, cy)) or any(not (0 <= float(r) <= float(np.iinfo(get_dtype(bits)).max)) or float(r) != float(c) for r, c in zip(raw, (cx, cy)))
            return bad, det
        if clause == "low_sat":
            return (x <= vmin and cx != 0), det
        if clause == "full_scale":
            return (x >= vmax and cx != full), det
        if clause == "monotone":
            return (x <= y and cx > cy), det
        if clause == "transfer":
            r = (x - vmin) * full / (vmax - vmin)
            return (vmin <= x <= vmax and not (cx - 1 <= r < cx + 2)), det
        return False, det
    if fn in ("sar_real", "sar_fp"):
        bits = kwargs["bits"]
        vmax = kwargs.get("vmax") or _f(model.get("vmax"))
        x, y = _f(model.get("x")), _f(model.get("y"))
        out = apply_sar_adc(np.array([[x, y]], dtype=float), 1, 2, 0.0, vmax, bits)
        cx, cy = int(out[0, 0]), int(out[0, 1])
        det = {"x": x, "y": y, "vmax": vmax, "code_x": cx, "code_y": cy}
        if clause == "bounds":
            return not (0 <= cx <= 2**bits - 1), det
        if clause == "monotone":
            return (x <= y and cx > cy), det
        if clause == "full_scale":
            return (x >= vmax and cx != 2**bits - 1), det
        if clause == "zero":
            return (x <= 0 and cx != 0), det
        return False, det
    if fn == "sar_models_fp":
        from pyxel.models.readout_electronics import sar_adc, sar_adc_with_noise

        bits, vmax, x = kwargs["bits"], kwargs["vmax"], _f(model.get("x"))
        out = []
        for f, kw in ((sar_adc, {}), (sar_adc_with_noise, {"strengths": [0.0] * bits, "noises": [0.0] * bits})):
            det = make_ccd(1, 1)
            det.characteristics._adc_bit_resolution = bits
            det.characteristics._adc_voltage_range = (0.0, vmax)
            det.signal.array = np.array([[x]], dtype=float)
            f(det, **kw)
            out.append(det.image.array)
        same = out[0].dtype == out[1].dtype and np.array_equal(out[0], out[1])
        return (not same), {"x": x.hex(), "vmax": vmax, "sar_adc": out[0].tolist(), "sar_adc_with_noise_zero_noise": out[1].tolist()}
    if fn == "sar_models_equiv":
        from pyxel.models.readout_electronics import sar_adc, sar_adc_with_noise

        bits = kwargs["bits"]
        x, y, vmin, vmax = _f(model.get("x")), _f(model.get("y")), _f(model.get("vmin")), _f(model.get("vmax"))
        out = []
        for f, kw in ((sar_adc, {}), (sar_adc_with_noise, {"strengths": [0.0] * bits, "noises": [0.0] * bits})):
            det = make_ccd(1, 2)
            det.characteristics._adc_bit_resolution = bits
            det.characteristics._adc_voltage_range = (vmin, vmax)
            det.signal.array = np.array([[x, y]], dtype=float)
            f(det, **kw)
            out.append(det.image.array)
        same = out[0].dtype == out[1].dtype and np.array_equal(out[0], out[1])
        return (not same), {"voltage_range": [vmin, vmax], "signal": [x, y], "sar_adc": out[0].tolist(), "sar_adc_with_noise_zero_noise": out[1].tolist()}
    if fn == "model_data_type":
        from pyxel.models.readout_electronics import simple_adc

        reps = (8, 12, 24, 40, 64)
        bb = reps[int(model.get("class", 0)) % 5]
        x = _f(model.get("x"))
        det = make_ccd(1, 2)
        det.characteristics._adc_voltage_range = (0.0, 4.0)
        det.characteristics._adc_bit_resolution = bb
        det.signal.array = np.array([[x, x + 4]], dtype=float)
        before = det.image._array
        try:
            with np.errstate(all="ignore"):
                simple_adc(det, data_type=kwargs["data_type"])
        except (OverflowError, ValueError, TypeError) as e:
            wide = 8 * np.dtype(kwargs["data_type"]).itemsize >= bb
            return bool(det.image._array is not before or wide), {"refused": f"{type(e).__name__}: {e}", "bits": bb, "image_left": str(det.image._array)}
        img = det.image.array
        bad = img.dtype.kind != "u" or 8 * img.dtype.itemsize < bb or int(img[0, 1]) != 2**bb - 1 or int(img[0, 0]) > int(img[0, 1])
        return bool(bad), {"resolution": bb, "data_type": kwargs["data_type"], "image_dtype": str(img.dtype), "image": img.tolist(), "full_scale": 2**bb - 1, "signal": [x, x + 4]}
    if fn == "model_reuse":
        import importlib

        from pyxel.models.readout_electronics import sar_adc, simple_adc

        reps = (8, 12, 24, 40)
        bb0, bb1 = reps[int(model.get("class_before", 0)) % 4], reps[int(model.get("class_after", 1)) % 4]
        x = _f(model.get("x"))
        f = {"simple_adc": simple_adc, "sar_adc": sar_adc}[kwargs["model_name"]]
        det = make_ccd(1, 2)
        det.characteristics._adc_voltage_range = (0.0, 4.0)
        det.characteristics._adc_bit_resolution = bb0
        det.signal.array = np.array([[x, x + 1]], dtype=float)
        f(det)
        det.characteristics.adc_bit_resolution = bb1
        det.signal.array = np.array([[x, x + 4]], dtype=float)
        f(det)
        img = det.image.array
        bad = img.dtype.kind != "u" or 8 * img.dtype.itemsize < bb1 or int(img[0, 1]) != 2**bb1 - 1 or int(img[0, 0]) > int(img[0, 1])
        return bool(bad), {"resolution_before": bb0, "resolution_after": bb1, "image_dtype": str(img.dtype), "image": img.tolist(), "full_scale": 2**bb1 - 1}
    if fn == "sar_noise_fp":
        bits, vmax, x = kwargs["bits"], kwargs["vmax"], _f(model.get("x"))
        sdt = np.dtype(kwargs.get("sigdtype", "float64"))
        a = apply_sar_adc(np.array([[x]], dtype=sdt), 1, 1, 0.0, vmax, bits)
        b = apply_sar_adc_with_noise(np.array([[x]], dtype=sdt), 1, 1, np.zeros(bits), np.zeros(bits), vmax, bits)
        det = {"x": x.hex(), "signal_dtype": str(sdt), "sar": a.tolist(), "noisy_with_zero_noise": b.tolist(), "full_scale": 2**bits - 1}
        if "/bounds/" in oid:
            return bool(int(b[0, 0]) > 2**bits - 1), det
        if "/full_scale/" in oid:
            return bool(x >= vmax and int(b[0, 0]) != 2**bits - 1), det
        return (not np.array_equal(a, b) or a.dtype != b.dtype), det
    if fn == "sar_noise":
        bits = kwargs["bits"]
        sdt = np.dtype(kwargs.get("sigdtype", "float64"))
        vmax, x, y = _f(model.get("vmax")), _f(model.get("x")), _f(model.get("y"))
        if "codes_stored_exactly" in oid:
            # the witness says which voltage makes a large code; the clearest concrete evidence is full scale itself
            vmax, x, y = 4.0, 4.0, 8.0
        a = apply_sar_adc(np.array([[x, y]], dtype=sdt), 1, 2, 0.0, vmax, bits)
        b = apply_sar_adc_with_noise(np.array([[x, y]], dtype=sdt), 1, 2, np.zeros(bits), np.zeros(bits), vmax, bits)
        det = {"signal_dtype": str(sdt), "vmax": vmax, "x": [x, y], "sar": a.tolist(), "noisy_with_zero_noise": b.tolist(), "full_scale": 2**bits - 1}
        if "codes_stored_exactly" in oid:
            return bool(int(a[0, 0]) != 2**bits - 1 or int(b[0, 0]) != 2**bits - 1 or int(b[0, 1]) != 2**bits - 1), det
        return (not np.array_equal(a, b) or a.dtype != b.dtype), det
    if fn == "dtype_width":
        b = int(model.get("bits", 0))
        try:
            dt = get_dtype(b)
            return (not 1 <= b <= 64) or (2**b - 1 > np.iinfo(dt).max), {"bits": b, "dtype": str(dt)}
        except ValueError:
            return 1 <= b <= 64, {"bits": b, "rejected": True}
    return False, {"note": "no concrete oracle for this obligation"}
