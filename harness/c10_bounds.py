"""C10 — calibration candidates map to the right parameters, inside their bounds.

Real code: ParameterValues.__init__ (boundaries), ModelFittingDataTree._set_bound / get_bounds /
convert_to_parameters / update_processor, Processor.set / get.  The instance is built with __new__
(initialisation that reads target files skipped; state constructed directly).
"""

from __future__ import annotations

import itertools

import numpy as np

import vx
import vxprobes
from vx import funcs, symnp
from vx.core import unjson
from vx.patching import Patch

from .common import close, make_ccd, nums

PROPERTY = "C10"
LEVEL = "model_checking"
FUNCTIONS = [
    "pyxel.observation.parameter_values:ParameterValues.__init__",
    "pyxel.calibration.fitting_datatree:ModelFittingDataTree._set_bound",
    "pyxel.calibration.fitting_datatree:ModelFittingDataTree.get_bounds",
    "pyxel.calibration.fitting_datatree:ModelFittingDataTree.convert_to_parameters",
    "pyxel.calibration.fitting_datatree:ModelFittingDataTree.update_processor",
    "pyxel.pipelines.processor:Processor.set",
    "pyxel.pipelines.processor:Processor.get",
    "pyxel.pipelines.processor:_get_obj_att",
    "pyxel.calibration.fitting_datatree:ModelFittingDataTree.fitness (witness layer, real pygmo)", "pyxel.calibration.calibration:Calibration.run_calibration (witness layer)",
]
STUBS = [
    "np/math -> vx stand-ins in calibration.fitting_datatree, observation.parameter_values, pipelines.processor",
    "10**x and log10 are uninterpreted functions constrained to be mutually inverse and monotone",
    "ModelFittingDataTree built with __new__ and the attributes its methods read (_variables)",
]
OUTSIDE = ["pygmo respecting the box it is given; IEEE rounding of 10**x", "best-individual reporting is executed with real xarray on concrete populations (all rankings of three individuals)"]
ASSUMPTIONS = ["boundaries are finite with lo <= hi, and lo > 0 for logarithmic parameters"]
EXPLANATION = "single path per layout; LRA + UF(pow10/log10)"

KEY_A = "pipeline.photon_collection.probe.arguments.a"
KEY_B = "pipeline.charge_generation.probe2.arguments.a"  # same argument name as KEY_A, in another model
KEY_BW = "pipeline.photon_collection.probe.arguments.b"  # the witness calibration has a single model
KEY_V = "pipeline.charge_generation.probe2.arguments.v"
KEY_W = "pipeline.charge_generation.probe2.arguments.w"
KEYS = [KEY_A, KEY_V, KEY_B, KEY_W]

# a variable spec: (kind, n, per_component_bounds, logarithmic)
SCALARS = [("S", 1, False, False), ("S", 1, False, True)]


def _vector_specs(maxn):
    out = []
    for n in range(1, maxn + 1):
        for per in (False, True):
            for lg in (False, True):
                out.append(("V", n, per, lg))
    return out


def _layouts(tier):
    specs = SCALARS + _vector_specs(2 if tier == "quick" else 3)
    lays = [[s] for s in specs]
    lays += [list(p) for p in itertools.product(specs, repeat=2)]
    if tier == "thorough":
        trip = list(itertools.product(SCALARS + _vector_specs(2), repeat=3))
        lays += [list(p) for p in trip]
    else:
        lays += [[("S", 1, False, True), ("V", 2, True, False), ("S", 1, False, False)],
                 [("V", 2, False, True), ("S", 1, False, False), ("V", 2, True, True)],
                 [("V", 1, True, True), ("V", 2, True, False), ("S", 1, False, True)]]
    return lays


def _lab(layout):
    return ",".join(f"{'log' if lg else ''}{k}{n if k == 'V' else ''}{'p' if per else ''}" for k, n, per, lg in layout)


def bounds(tier):
    return {"variables": "1..3", "vector_length": "1..2 quick / 1..3 thorough", "layouts": len(_layouts(tier)), "decision_array": "1-D and 2-D (2 individuals)"}


def tasks(tier, seed):
    out = [{"fn": "layout", "kwargs": {"layout": [list(s) for s in lay]}, "label": f"layout={_lab(lay)}"} for lay in _layouts(tier)]
    out.append({"fn": "best_individuals", "kwargs": {}, "label": "report/best_individuals"})
    for algo, solver in (ALGOS if tier == "thorough" else [ALGOS[0], ALGOS[2], ALGOS[3], ALGOS[4]]):
        out.append({"fn": "evaluated_candidates", "kwargs": {"algo": algo, "solver": solver}, "label": f"evaluated/{algo}{'/' + solver if solver else ''}"})
    return out


def REQUIRED_REACH(tier):
    return ["C10/bounds/layout/*", "C10/convert/value/*", "C10/convert/in_box/*", "C10/convert/2d/*", "C10/update/slices/*", "C10/report/equals_applied/*", "C10/evaluated/ran", "C10/evaluated/in_box/*"]


def _processor(nv):
    from pyxel.pipelines import DetectionPipeline, ModelFunction, Processor

    det = make_ccd(2, 2)
    pipe = DetectionPipeline(
        photon_collection=[ModelFunction(func="vxprobes.probe", name="probe", arguments={"a": 1.0, "b": 2.0})],
        charge_generation=[ModelFunction(func="vxprobes.probe_a", name="probe2", arguments={"v": [0.0] * 3, "w": [0.0] * 3, "a": 2.0})],
    )
    return Processor(detector=det, pipeline=pipe)


def _build(layout, bnds, symbolic):
    """Create the ParameterValues list and the problem instance.  bnds[k] = list of (lo, hi)."""
    from pyxel.calibration.fitting_datatree import ModelFittingDataTree
    from pyxel.observation import ParameterValues

    variables = []
    for k, (kind, n, per, lg) in enumerate(layout):
        key = KEYS[k] if kind == "S" else KEYS[k]
        if kind == "S":
            key = [KEY_A, KEY_B, KEY_A][k] if k < 3 else KEY_A
            key = {0: KEY_A, 1: KEY_B, 2: "detector.environment.temperature"}[k]
            values = "_"
            b = tuple(bnds[k][0])
        else:
            key = {0: KEY_V, 1: KEY_W, 2: "pipeline.photon_collection.probe.arguments.c"}[k]
            values = ["_"] * n
            if symbolic is True and bool(vx.boolean(f"declared_as_tuple_{k}")):
                values = tuple(values)  # Sequence[Literal["_"]]: a tuple of placeholders is as legal as a list
            elif isinstance(symbolic, dict) and symbolic.get(f"declared_as_tuple_{k}"):
                values = tuple(values)
            b = [tuple(x) for x in bnds[k]] if per else tuple(bnds[k][0])
        variables.append(ParameterValues(key=key, values=values, boundaries=b, logarithmic=lg))
    prob = _construct(variables, layout)
    return prob, variables


def _construct(variables, layout):
    """The problem object through its real constructor (whatever it pre-computes from the variables is then in place); only the loading
    of the target file is replaced - by a 2x2 frame of zeros."""
    import importlib

    from pyxel.calibration.util import FitRange2D, FitRange3D
    from pyxel.exposure import Readout

    from vx import fakexr

    from .c11_fitness import _xr_shim

    fd = importlib.import_module("pyxel.calibration.fitting_datatree")
    symbolic_np = getattr(fd, "np") is not np
    with Patch() as q:
        if symbolic_np:
            q.attr(fd, "xr", _xr_shim(), "fake DataArray")
            q.sysmodule("xarray", _xr_shim(), "late imports of xarray")
            q.attr(fd, "create_processor_data_array", lambda filenames: fakexr.DataArray(symnp.zeros((1, 2, 2)), dims=("processor", "y", "x")), "target file: zeros")
        else:
            import xarray as xr

            q.attr(fd, "create_processor_data_array", lambda filenames: xr.DataArray(np.zeros((1, 2, 2)), dims=("processor", "y", "x")), "target file: zeros")
        return fd.ModelFittingDataTree(
            processor=_proc_for(layout), variables=variables, readout=Readout(), simulation_output="pixel", generations=1, population_size=2,
            fitness_func=lambda simulated, target, weighting: 0.0, file_path=None, target_fit_range=FitRange2D(row=slice(0, 2), col=slice(0, 2)),
            out_fit_range=FitRange3D(time=slice(None, None), row=slice(0, 2), col=slice(0, 2)), target_filenames=["target.npy"])


def _proc_for(layout):
    from pyxel.pipelines import DetectionPipeline, ModelFunction, Processor

    det = make_ccd(2, 2)
    pipe = DetectionPipeline(
        photon_collection=[ModelFunction(func="vxprobes.probe", name="probe", arguments={"a": 1.0, "b": 2.0, "c": [0.0, 0.0, 0.0]})],
        charge_generation=[ModelFunction(func="vxprobes.probe_a", name="probe2", arguments={"v": [0.0] * 3, "w": [0.0] * 3, "a": 2.0})],
    )
    return Processor(detector=det, pipeline=pipe)


MODS = ("pyxel.calibration.fitting_datatree", "pyxel.observation.parameter_values", "pyxel.pipelines.processor")


def layout(layout):
    layout = [tuple(s) for s in layout]
    lab = _lab(layout)
    # symbolic boundaries
    bnds, exp_lo, exp_hi, owner = [], [], [], []
    for k, (kind, n, per, lg) in enumerate(layout):
        m = n if (kind == "V" and per) else 1
        pairs = []
        for c in range(m):
            lo, hi = vx.real(f"lo_{k}_{c}"), vx.real(f"hi_{k}_{c}")
            vx.assume(lo <= hi, "boundaries lo <= hi")
            if lg:
                vx.assume(lo > 0, "logarithmic parameters have positive boundaries")
            if k == 2 and kind == "S":
                vx.assume((lo > 0) & (hi <= 1000), "temperature boundaries inside the documented range")
            pairs.append((lo, hi))
        bnds.append(pairs)
        for c in range(n):
            lo, hi = pairs[c] if (kind == "V" and per) else pairs[0]
            exp_lo.append(funcs.log10(lo) if lg else lo)
            exp_hi.append(funcs.log10(hi) if lg else hi)
            owner.append((k, c, lg, lo, hi))
    dim = len(owner)
    dv = [vx.real(f"dv_{i}") for i in range(dim)]
    dv2 = [vx.real(f"dw_{i}") for i in range(dim)]
    with Patch() as p:
        p.numpy(*MODS)
        p.math("pyxel.calibration.fitting_datatree")
        prob, variables = _build(layout, bnds, True)
        lbd, ubd = prob._set_bound()
        prob._lower_boundaries, prob._upper_boundaries = lbd, ubd
        got_lo, got_hi = prob.get_bounds()
        vx.prove(f"C10/bounds/layout/{lab}", vx.all_of([len(got_lo) == dim, len(got_hi) == dim]
                                                        + [a == b for a, b in zip(got_lo, exp_lo)] + [a == b for a, b in zip(got_hi, exp_hi)]))
        # decision vectors inside the box the optimiser is given
        for i in range(dim):
            vx.assume((dv[i] >= exp_lo[i]) & (dv[i] <= exp_hi[i]), "decision vector inside the declared box")
            vx.assume((dv2[i] >= exp_lo[i]) & (dv2[i] <= exp_hi[i]), "decision vector inside the declared box")
        dv_arr = symnp.asarray(dv)
        params = prob.convert_to_parameters(dv_arr)
        pe = params.elems()
        want = [funcs.pow10(dv[i]) if owner[i][2] else dv[i] for i in range(dim)]
        vx.prove(f"C10/convert/value/{lab}", vx.all_of([len(pe) == dim] + [a == b for a, b in zip(pe, want)]))
        vx.prove(f"C10/convert/in_box/{lab}", vx.all_of([(pe[i] >= owner[i][3]) & (pe[i] <= owner[i][4]) for i in range(dim)]))
        vx.prove(f"C10/convert/input_unchanged/{lab}", vx.all_of([len(dv_arr.elems()) == dim] + [a == b for a, b in zip(dv_arr.elems(), dv)]))
        # 2-D (individual x param): what _get_champions / get_best_individuals report
        p2 = prob.convert_to_parameters(symnp.asarray([dv, dv2]))
        want2 = want + [funcs.pow10(dv2[i]) if owner[i][2] else dv2[i] for i in range(dim)]
        vx.prove(f"C10/convert/2d/{lab}", vx.all_of([tuple(p2.shape) == (2, dim)] + [a == b for a, b in zip(p2.elems(), want2)]))
        # application to the pipeline
        proc = _proc_for(layout)
        newp = prob.update_processor(parameter=params, processor=proc)
        applied = []
        a = 0
        ok = []
        for k, (kind, n, per, lg) in enumerate(layout):
            val = newp.get(variables[k].key)
            if kind == "S":
                ok.append(val == want[a])
                applied.append(val)
            else:
                ve = symnp.asarray(val).elems()
                ok.append(len(ve) == n)
                ok += [x == y for x, y in zip(ve, want[a : a + n])]
                applied += ve
            a += n
        vx.prove(f"C10/update/slices/{lab}", vx.all_of(ok))
        vx.prove(f"C10/report/equals_applied/{lab}", vx.all_of([len(applied) == dim] + [x == y for x, y in zip(applied, p2.elems()[:dim])]))
        # the caller's processor is not modified
        vx.prove(f"C10/update/caller_unchanged/{lab}", vx.all_of([proc.get(KEY_A) == 1.0, proc.get(KEY_B) == 2.0, list(proc.get(KEY_V)) == [0.0] * 3]))


class _RPop:
    def __init__(self, f, x):
        self.f, self.x = np.array(f, dtype=float).reshape(-1, 1), np.array(x, dtype=float)

    def get_f(self):
        return self.f

    def get_x(self):
        return self.x


class _RIsland:
    def __init__(self, pop):
        self.pop = pop

    def get_population(self):
        return self.pop


def _report_best(order, n_best):
    """Real get_best_individuals (real xarray) on a stub archipelago: two islands of three individuals whose fitness ranks are the
    permutation `order` (second island: reversed); scalar linear, scalar logarithmic and a logarithmic vector parameter."""
    import itertools

    from pyxel.calibration.archipelago_datatree import ArchipelagoDataTree
    from pyxel.calibration.fitting_datatree import ModelFittingDataTree
    from pyxel.observation import ParameterValues

    prob = ModelFittingDataTree.__new__(ModelFittingDataTree)
    prob._variables = [ParameterValues(key=KEY_A, values="_", boundaries=(0.0, 10.0)), ParameterValues(key=KEY_B, values="_", boundaries=(1.0, 1000.0), logarithmic=True),
                       ParameterValues(key=KEY_V, values=["_", "_"], boundaries=(1.0, 100.0), logarithmic=True)]
    perm = list(itertools.permutations(range(3)))[order]
    islands = []
    for isl in range(2):
        ranks = perm if isl == 0 else perm[::-1]
        f = [10.0 * (r + 1) + isl for r in ranks]
        x = [[1.0 + j + isl, 0.5 * (j + 1), 0.25 * (j + 1), 1.0 + 0.125 * j] for j in range(3)]
        islands.append(_RIsland(_RPop(f, x)))
    obj = ArchipelagoDataTree.__new__(ArchipelagoDataTree)
    obj._pygmo_archi = islands
    obj.problem = prob
    ds = obj.get_best_individuals(num_best_decisions=n_best)
    problems = []
    for isl in range(2):
        pop = islands[isl].pop
        rank = np.argsort(pop.f.ravel())[:n_best]
        bd = np.asarray(ds["best_decision"].sel(island=isl))
        bp = np.asarray(ds["best_parameters"].sel(island=isl))
        bf = np.asarray(ds["best_fitness"].sel(island=isl))
        if bd.shape[0] != n_best or not np.array_equal(bd, pop.x[rank]) or not np.array_equal(bf, pop.f.ravel()[rank]):
            problems.append(f"island {isl}: best individuals are not the {n_best} fittest, in order")
        want = np.array([prob.convert_to_parameters(row) for row in bd])
        if bp.shape != want.shape or not np.allclose(bp, want, rtol=1e-12, atol=0):
            problems.append(f"island {isl}: reported parameters are not the conversion of the reported decision vectors (got {bp.tolist()}, expected {want.tolist()})")
    return problems


def best_individuals():
    """The reported best individuals: the fittest of each island in order, and for each the parameters that this very decision vector
    denotes (10**x for logarithmic ones) - over every fitness ranking of three individuals and every requested count."""
    o, n = vx.integer("ranking"), vx.integer("num_best_decisions")
    vx.assume((o >= 0) & (o <= 5) & (n >= 1) & (n <= 3), "ranking among the 6 permutations, 1..3 individuals requested")
    order, n_best = vx.concretize_int(o), vx.concretize_int(n)
    problems = _report_best(order, n_best)
    vx.prove(f"C10/report/best_individuals/ranking={order},n={n_best}", not problems, problems=str(problems)[:300])


ALGOS = [("sade", None), ("sga", None), ("nlopt", "neldermead"), ("nlopt", "slsqp"), ("nlopt", "lbfgs"), ("nlopt", "bobyqa"), ("nlopt", "mma")]
BOX = {"a": (2.0, 10.0), "b": (1.0, 1000.0)}


def _evaluated(algo, solver, corner):
    """Real Calibration with real pygmo (one island) on a two-parameter problem (a linear, b logarithmic) whose optimum lies on the
    lower faces of the box; every value the pipeline is run with is recorded by the model itself.  Then every evaluation entry point
    that the pygmo problem exposes (fitness, and gradient / hessians / batch_fitness when the class provides them) is called on the
    corner of the box selected by `corner`.  Returns the list of recorded out-of-box values."""
    import os
    import sys
    import tempfile
    import warnings

    import pygmo as pg

    import pyxel
    import pyxel.calibration.archipelago_datatree as _ad
    import pyxel.calibration.calibration as calmod
    from pyxel.calibration import Algorithm, Calibration
    from pyxel.exposure import Readout
    from pyxel.observation import ParameterValues
    from pyxel.pipelines import DetectionPipeline, FitnessFunction, ModelFunction

    warnings.filterwarnings("ignore")
    seen = []

    def hook(d, tag, kwargs, rec):
        a, b = float(kwargs["a"]), float(kwargs["b"])
        seen.append((a, b))
        d.pixel.array = np.full((2, 2), a + b / 100.0)
        d.signal.array = np.full((2, 2), a + b / 100.0)
        d.image.array = np.full((2, 2), min(max(a + b / 100.0, 0.0), 60000.0)).astype("uint16")

    problems_made = []
    real_cls = calmod.ModelFittingDataTree

    def recording_cls(*a, **k):
        obj = real_cls(*a, **k)
        problems_made.append(obj)
        return obj

    tmp = tempfile.mkdtemp(prefix="vx_c10_")
    tfile = os.path.join(tmp, "t.npy")
    np.save(tfile, np.zeros((2, 2)))
    vxprobes.reset(hook)
    real_tqdm = _ad.tqdm
    _ad.tqdm = lambda *a, **k: real_tqdm(*a, **{**k, "disable": True})
    calmod.ModelFittingDataTree = recording_cls
    refused = None
    sys.stdout.flush()
    saved_fd = os.dup(1)  # pygmo's C++ optimisers log to the process's stdout
    devnull = os.open(os.devnull, os.O_WRONLY)
    os.dup2(devnull, 1)
    try:
        kw = {"type": algo, "generations": 2, "population_size": 8}
        if solver:
            kw.update(nlopt_solver=solver, maxeval=20)
        cal = Calibration(target_data_path=[tfile], fitness_function=FitnessFunction(func="pyxel.calibration.fitness.sum_of_abs_residuals"),
                          algorithm=Algorithm(**kw), num_islands=1, num_evolutions=1,
                          parameters=[ParameterValues(key=KEY_A, values="_", boundaries=BOX["a"]), ParameterValues(key=KEY_BW, values="_", boundaries=BOX["b"], logarithmic=True)],
                          readout=Readout(), pygmo_seed=5, pipeline_seed=3, result_type="pixel")
        pipe = DetectionPipeline(photon_collection=[ModelFunction(func="vxprobes.probe", name="probe", arguments={"a": 3.0, "b": 2.0})])
        try:
            res = pyxel.run_mode(mode=cal, detector=make_ccd(2, 2), pipeline=pipe)
            if hasattr(res, "load"):
                res.load()
        except Exception as e:  # noqa: BLE001  (a solver that refuses the problem evaluates nothing out of the box)
            refused = f"{type(e).__name__}: {str(e)[:80]}"
        n_run = len(seen)
        entry = []
        if problems_made:
            prob = pg.problem(problems_made[-1])
            lo, hi = prob.get_bounds()
            x = np.array([hi[i] if (corner >> i) & 1 else lo[i] for i in range(len(lo))], dtype=float)
            prob.fitness(x)
            entry.append("fitness")
            for name, has in (("gradient", prob.has_gradient), ("hessians", prob.has_hessians), ("batch_fitness", prob.has_batch_fitness)):
                if has():
                    getattr(prob, name)(x)
                    entry.append(name)
    finally:
        os.dup2(saved_fd, 1)
        os.close(saved_fd)
        os.close(devnull)
        calmod.ModelFittingDataTree = real_cls
        _ad.tqdm = real_tqdm
        vxprobes.reset(None)
        try:
            os.remove(tfile)
            os.rmdir(tmp)
        except OSError:
            pass
    tol = 1e-9
    out = [(a, b) for a, b in seen if not (BOX["a"][0] - tol <= a <= BOX["a"][1] + tol and BOX["b"][0] * (1 - tol) <= b <= BOX["b"][1] * (1 + tol))]
    return {"evaluations": len(seen), "during_run": n_run, "entry_points": entry, "refused": refused, "out_of_box": out[:6], "n_out": len(out)}


def evaluated_candidates(algo, solver):
    """Every candidate that reaches the pipeline lies in the declared box: over the algorithm family (including the gradient-based
    NLopt solvers, which ask the problem for derivatives) and over the corner of the box the entry points are called at."""
    c = vx.integer("corner")
    vx.assume((c >= 0) & (c <= 3), "one of the four corners of the two-parameter box")
    corner = vx.concretize_int(c)
    r = _evaluated(algo, solver, corner)
    lab = f"{algo}{'/' + solver if solver else ''},corner={corner}"
    if r["evaluations"] == 0:
        # nothing reached the pipeline (the algorithm could not even be set up): no verdict, not a pass
        raise symnp.Unsupported(f"no candidate was evaluated for {lab}: {r['refused']}")
    vx.reach("C10/evaluated/ran")
    vx.prove(f"C10/evaluated/in_box/{lab}", r["n_out"] == 0, out_of_box=str(r["out_of_box"])[:200], entry_points=",".join(r["entry_points"]), refused=str(r["refused"]))


def replay(oid, kwargs, model, data):
    """Concrete re-run with real numpy."""
    if oid.startswith("C10/evaluated/"):
        r = _evaluated(kwargs["algo"], kwargs["solver"], int(model.get("corner", 0)))
        return r["n_out"] > 0, r
    from pyxel.calibration.fitting_datatree import ModelFittingDataTree

    if data["fn"] == "best_individuals":
        problems = _report_best(int(model.get("ranking", 0)), int(model.get("num_best_decisions", 1)))
        return bool(problems), {"problems": problems}

    layout = [tuple(s) for s in kwargs["layout"]]
    g = lambda k, d=0.0: float(model.get(k, d))  # noqa: E731
    bnds, owner = [], []
    for k, (kind, n, per, lg) in enumerate(layout):
        m = n if (kind == "V" and per) else 1
        pairs = [(g(f"lo_{k}_{c}", 1.0), g(f"hi_{k}_{c}", 1.0)) for c in range(m)]
        bnds.append(pairs)
        for c in range(n):
            lo, hi = pairs[c] if (kind == "V" and per) else pairs[0]
            owner.append((k, c, lg, lo, hi))
    dim = len(owner)
    prob, variables = _build(layout, bnds, {k: bool(v) for k, v in model.items() if str(k).startswith("declared_as_tuple_")})
    lbd, ubd = prob._set_bound()
    exp_lo = [np.log10(o[3]) if o[2] else o[3] for o in owner]
    exp_hi = [np.log10(o[4]) if o[2] else o[4] for o in owner]
    bad = {}
    if not (close(list(lbd), exp_lo) and close(list(ubd), exp_hi)):
        bad["bounds"] = {"got": [list(lbd), list(ubd)], "expected": [exp_lo, exp_hi]}
    # choose the decision vector from the model when consistent with the (rounded) box, else the midpoint
    dv = []
    for i in range(dim):
        v = g(f"dv_{i}", (exp_lo[i] + exp_hi[i]) / 2)
        if not (exp_lo[i] <= v <= exp_hi[i]):
            v = min(max(v, exp_lo[i]), exp_hi[i])
        dv.append(v)
    params = prob.convert_to_parameters(np.array(dv))
    want = [10 ** dv[i] if owner[i][2] else dv[i] for i in range(dim)]
    if not close(list(params), want):
        bad["convert"] = {"got": list(map(float, params)), "expected": want}
    for i in range(dim):
        lo, hi = owner[i][3], owner[i][4]
        if not (lo * (1 - 1e-9) - 1e-12 <= params[i] <= hi * (1 + 1e-9) + 1e-12):
            bad[f"in_box_{i}"] = [float(params[i]), lo, hi]
    p2 = prob.convert_to_parameters(np.array([dv, dv]))
    if p2.shape != (2, dim) or not close(list(p2[0]), want) or not close(list(p2[1]), want):
        bad["convert2d"] = p2.tolist()
    proc = _proc_for(layout)
    newp = prob.update_processor(parameter=params, processor=proc)
    a = 0
    for k, (kind, n, per, lg) in enumerate(layout):
        val = newp.get(variables[k].key)
        w = want[a] if kind == "S" else want[a : a + n]
        got = float(val) if kind == "S" else [float(x) for x in val]
        if not close(got, w):
            bad[f"update_{k}"] = {"got": got, "expected": w}
        a += n
    return bool(bad), bad
