"""C14 — charge is accounted identically as arrays and as positioned clusters.

Real Charge methods executed with symbolic array values, cluster numbers and cluster positions
(any real), the binning function run un-jitted with numba's index semantics: an index outside
[-n, n) is an out-of-bounds store (reported), an index in [-n, 0) wraps to another pixel.
"""

from __future__ import annotations

import itertools

import numpy as np

import vx
from vx import symnp
from vx.core import Fraction, unjson
from vx.patching import Patch

from .common import close, nums, sym_array

PROPERTY = "C14"
LEVEL = "model_checking"
FUNCTIONS = [
    "pyxel.data_structure.charge:Charge.__init__",
    "pyxel.data_structure.charge:Charge.add_charge_array",
    "pyxel.data_structure.charge:Charge.add_charge",
    "pyxel.data_structure.charge:Charge.add_charge_dataframe",
    "pyxel.data_structure.charge:Charge.array",
    "pyxel.data_structure.charge:Charge.empty",
    "pyxel.data_structure.charge:Charge.convert_df_to_array",
    "pyxel.data_structure.charge:Charge.convert_array_to_df",
    "pyxel.data_structure.charge:Charge.create_charges",
    "pyxel.detectors.geometry:get_vertical_pixel_center_pos",
    "pyxel.detectors.geometry:get_horizontal_pixel_center_pos",
]
STUBS = [
    "np -> vx.symnp in pyxel.data_structure.charge and pyxel.detectors.geometry",
    "numba.njit -> identity while convert_df_to_array runs; index stores get numba semantics (no bounds check)",
    "the cluster table is a real pandas DataFrame whose cells hold symbolic values (object dtype)",
]
OUTSIDE = [
    "removal of clusters by id is covered for the most recently added cluster (stack discipline); arbitrary id lists are outside",
    "negative array additions and negative cluster numbers (the statement speaks of non-negative charge)",
    "IEEE rounding of position / pixel size at pixel borders (real arithmetic), NaN positions",
]
ASSUMPTIONS = ["array additions and cluster numbers are non-negative", "pixel sizes > 0"]
EXPLANATION = "histories of <= 3 operations over {array add, cluster add, read, reset} against an independent per-pixel accumulator"
SIZES = [(10.0, 10.0), (0.5, 3.0)]


def bounds(tier):
    return {"geometry": "1x2 (histories), 2x3 (binning)", "history_length": "<= 3 plus 27 reset-in-the-middle histories of length 4 (quick); all of length <= 4 (thorough); + final read", "clusters_per_add": "1..2",
            "pixel_sizes": "symbolic > 0 (binning, 1 cluster) and concrete " + str(SIZES)}


def tasks(tier, seed):
    out = []
    for shape in ([2, 3], [1, 2]):
        out.append({"fn": "binning", "kwargs": {"shape": shape, "sizes": None, "n": 1}, "label": f"binning/{shape[0]}x{shape[1]},sizes=symbolic,n=1",
                    "caps": {"max_seconds": 200}})
        for si in range(len(SIZES)):
            for n in (1, 2):
                out.append({"fn": "binning", "kwargs": {"shape": shape, "sizes": si, "n": n}, "label": f"binning/{shape[0]}x{shape[1]},sizes={si},n={n}"})
    ops = "ACRE"
    hists = ["".join(h) for L in (1, 2, 3) for h in itertools.product(ops, repeat=L)]
    if tier == "quick":
        hists = [h for h in hists if len(h) <= 2 or h.count("A") + h.count("C") >= 2]
        # length-4 histories with a reset between two additions and a read somewhere
        hists += [a + m + "E" + b for a in "AC" for m in "ACR" for b in "AC"] + [a + "E" + b + m for a in "AC" for b in "AC" for m in "ACR"]
        hists += ["CRER", "ARCE", "CCRE"]
        # removals by id (X removes the most recently added cluster still present)
        hists += ["CX", "CCX", "ACX", "CAX", "ACCX", "ACCXR", "CXC", "ACXC", "CCXX", "ACRX", "CRXR", "ACCXX", "CAXC"]
        # removals that leave a gap in the ids (Y removes the oldest cluster still present), followed by another removal
        hists += ["CCY", "CCCYX", "CCCYY", "CCYC", "ACCYX", "CCCYXR", "CCYX", "CCCYRX"]
    else:
        hists += ["".join(h) for h in itertools.product(ops, repeat=4)]
    for h in hists:
        out.append({"fn": "history", "kwargs": {"ops": h}, "label": f"history/{h}", "caps": {"max_seconds": 200, "max_paths": 4000}})
    # pixels that are not square (0.5 x 3.0): array charge and clusters in one frame
    rect = ["A", "AC", "CA", "ACR", "CAR", "ARC", "ACX", "CAX", "CAE"] if tier == "quick" else [h for h in hists if "A" in h and "C" in h and len(h) <= 3] + ["A", "ACX", "CAX"]
    for h in rect:
        out.append({"fn": "history", "kwargs": {"ops": h, "sizes": 1}, "label": f"history/{h}@rect", "caps": {"max_seconds": 200, "max_paths": 4000}})
    out.append({"fn": "centres", "kwargs": {}, "label": "centres/roundtrip"})
    return out


def REQUIRED_REACH(tier):
    return ["C14/cluster/credit_pixel/*", "C14/cluster/in_bounds_only/*", "C14/mixed/*", "C14/reset/zero*", "C14/centres/roundtrip"]


MODS = ("pyxel.data_structure.charge", "pyxel.detectors.geometry")


def _geo(shape, vs, hs):
    from pyxel.detectors import CCDGeometry

    g = CCDGeometry(row=shape[0], col=shape[1], total_thickness=10.0, pixel_vert_size=1.0, pixel_horz_size=1.0)
    g._pixel_vert_size = vs
    g._pixel_horz_size = hs
    return g


def _add_clusters(ch, xp, nums_, ys, xs):
    n = len(nums_)
    z = xp.zeros(n)
    ch.add_charge(particle_type="e", particles_per_cluster=xp.asarray(nums_) if xp is symnp else np.array(nums_, dtype=float),
                  init_energy=z, init_ver_position=xp.asarray(ys) if xp is symnp else np.array(ys, dtype=float),
                  init_hor_position=xp.asarray(xs) if xp is symnp else np.array(xs, dtype=float), init_z_position=z,
                  init_ver_velocity=z, init_hor_velocity=z, init_z_velocity=z)


def _credit(acc, shape, vs, hs, n, y, x):
    """Independent accumulator: pixel (r, c) gains n iff r = floor(y/vs), c = floor(x/hs) and (r, c) is a pixel."""
    for r in range(shape[0]):
        for c in range(shape[1]):
            inside = vx.all_of([y >= r * vs, y < (r + 1) * vs, x >= c * hs, x < (c + 1) * hs])
            acc[r][c] = acc[r][c] + vx.ite(inside, n, 0)


def binning(shape, sizes, n):
    from pyxel.data_structure import Charge

    shape = tuple(shape)
    if sizes is None:
        vs, hs = vx.real("vsize"), vx.real("hsize")
        vx.assume((vs > 0) & (hs > 0), "pixel sizes > 0")
    else:
        vs, hs = SIZES[sizes]
    nn = [vx.real(f"n{i}") for i in range(n)]
    ys = [vx.real(f"y{i}") for i in range(n)]
    xs = [vx.real(f"x{i}") for i in range(n)]
    for v in nn:
        vx.assume(v >= 0, "cluster numbers are non-negative")
    lab = f"{shape[0]}x{shape[1]},sizes={'symbolic' if sizes is None else sizes},n={n}"
    oob = False
    with Patch() as p:
        p.numpy(*MODS)
        p.attr("numba", "njit", lambda f=None, **kw: f if f is not None else (lambda g: g), "identity")
        ch = Charge(geo=_geo(shape, vs, hs))
        _add_clusters(ch, symnp, nn, ys, xs)
        try:
            arr = ch.array
        except IndexError:
            oob = True
    # a cluster outside the sensitive area never reaches the unchecked store with an index outside the array
    vx.prove(f"C14/cluster/in_bounds_only/{lab}", not oob)
    if oob:
        return
    acc = [[0 for _ in range(shape[1])] for _ in range(shape[0])]
    for i in range(n):
        _credit(acc, shape, vs, hs, nn[i], ys[i], xs[i])
    vx.prove(f"C14/cluster/credit_pixel/{lab}", vx.all_of([arr[r, c] == acc[r][c] for r in range(shape[0]) for c in range(shape[1])]))
    vx.observe("arr", arr.elems())


def _concrete_binning(shape, vs, hs, nn, ys, xs, boundscheck=True):
    import numba

    from pyxel.data_structure import Charge

    old = numba.config.BOUNDSCHECK
    numba.config.BOUNDSCHECK = 1 if boundscheck else old
    try:
        ch = Charge(geo=_geo(shape, vs, hs))
        _add_clusters(ch, np, nn, ys, xs)
        return ch.array
    finally:
        numba.config.BOUNDSCHECK = old


def fidelity_binning(kwargs, w):
    inp = unjson(w["inputs"])
    if "arr" not in w["observed"]:
        return True, {}
    shape, n = tuple(kwargs["shape"]), kwargs["n"]
    vs, hs = (float(inp["vsize"]), float(inp["hsize"])) if kwargs["sizes"] is None else SIZES[kwargs["sizes"]]
    vals = [inp[f"{k}{i}"] for i in range(n) for k in "nyx"] + ([inp["vsize"], inp["hsize"]] if kwargs["sizes"] is None else [])
    exact = all(Fraction(float(v)) == v for v in vals) and kwargs["sizes"] is not None
    try:
        arr = _concrete_binning(shape, vs, hs, [float(inp[f"n{i}"]) for i in range(n)], [float(inp[f"y{i}"]) for i in range(n)],
                                [float(inp[f"x{i}"]) for i in range(n)])
    except IndexError:
        return (not exact), {"concrete": "IndexError under numba bounds checking", "exact": exact}
    ok = close(arr.ravel().tolist(), nums(unjson(w["observed"]["arr"])), 1e-9)
    return (ok or not exact), {"concrete": arr.ravel().tolist(), "exact_inputs": exact}


# -- histories ---------------------------------------------------------------------------------
HSHAPE = (1, 2)
HS = list(SIZES[0])  # pixel (vertical, horizontal) size of the history geometry; set per task through `sizes`


def _remove(ch, ids, xp):
    """Removal by id only filters rows of the (real pandas) table by concrete labels: it runs against real numpy also in the symbolic
    run - except for the reset of the cached array, which must stay a stand-in array."""
    import sys

    import numpy as real_np

    mod = sys.modules["pyxel.data_structure.charge"]
    if xp is real_np or mod.np is real_np:
        ch.remove_from_frame(ids)
        return
    shim = type(sys)("vx_np_for_removal")
    shim.__getattr__ = lambda name: getattr(xp, name) if name in ("zeros_like", "zeros") else getattr(real_np, name)  # type: ignore[attr-defined]
    saved, mod.np = mod.np, shim
    try:
        ch.remove_from_frame(ids)
    finally:
        mod.np = saved


def _run_history(ops, xp, arrs, clus):
    """Shared by the symbolic and the concrete run.  Returns list of reads (after each R and a final one)."""
    from pyxel.data_structure import Charge

    ch = Charge(geo=_geo(HSHAPE, HS[0], HS[1]))
    reads = []
    ia = ic = 0
    batches = []  # ids the frame gave to the clusters added by each C (most recent last)
    for op in ops:
        if op == "A":
            ch.add_charge_array(arrs[ia])
            ia += 1
        elif op == "C":
            n, y, x = clus[ic]
            _add_clusters(ch, xp, [n], [y], [x])
            batches.append(list(ch.frame.index[-1:]))
            ic += 1
        elif op == "X":
            # removal by id of the most recently added cluster that is still there
            if batches:
                _remove(ch, batches.pop(), xp)
        elif op == "Y":
            # removal by id of the oldest cluster still there (leaves a gap in front of the later ids)
            if batches:
                _remove(ch, batches.pop(0), xp)
        elif op == "R":
            reads.append(ch.array.copy())
        elif op == "E":
            ch.empty()
            batches.clear()
    reads.append(ch.array.copy())
    return reads


def history(ops, sizes=0):
    HS[:] = SIZES[sizes]
    sfx = "" if sizes == 0 else f"@pixel={SIZES[sizes][0]}x{SIZES[sizes][1]}"
    arrs = [sym_array(f"a{i}", HSHAPE) for i in range(ops.count("A"))]
    for a in arrs:
        for e in a.elems():
            vx.assume(e >= 0, "array additions are non-negative")
    clus = []
    for i in range(ops.count("C")):
        n, y, x = vx.real(f"n{i}"), vx.real(f"y{i}"), vx.real(f"x{i}")
        vx.assume(n >= 0, "cluster numbers are non-negative")
        clus.append((n, y, x))
    oob = False
    with Patch() as p:
        p.numpy(*MODS)
        p.attr("numba", "njit", lambda f=None, **kw: f if f is not None else (lambda g: g), "identity")
        try:
            reads = _run_history(ops, symnp, arrs, clus)
        except IndexError:
            oob = True
    vx.prove(f"C14/mixed/in_bounds_only/{ops}{sfx}", not oob)
    if oob:
        return
    # oracle
    acc = [[0, 0]]
    want = []
    ia = ic = 0
    live = []  # clusters added and not yet removed
    for op in ops:
        if op == "A":
            for c in range(2):
                acc[0][c] = acc[0][c] + arrs[ia][0, c]
            ia += 1
        elif op == "C":
            n, y, x = clus[ic]
            _credit(acc, HSHAPE, HS[0], HS[1], n, y, x)
            live.append(clus[ic])
            ic += 1
        elif op == "X":
            if live:
                n, y, x = live.pop()
                _credit(acc, HSHAPE, HS[0], HS[1], -n, y, x)  # exactly that cluster's charge goes, nothing else
        elif op == "Y":
            if live:
                n, y, x = live.pop(0)
                _credit(acc, HSHAPE, HS[0], HS[1], -n, y, x)
        elif op == "R":
            want.append(list(acc[0]))
        elif op == "E":
            acc = [[0, 0]]
            live = []
    want.append(list(acc[0]))
    ok = [len(reads) == len(want)]
    for r, wv in zip(reads, want):
        ok += [r[0, 0] == wv[0], r[0, 1] == wv[1]]
    vx.prove(f"C14/mixed/{ops}{sfx}", vx.all_of(ok))
    if ops.endswith("E"):
        vx.prove(f"C14/reset/zero/{ops}{sfx}", vx.all_of([e == 0 for e in reads[-1].elems()]))
    vx.observe("reads", [r.elems() for r in reads])


def fidelity_history(kwargs, w):
    inp = unjson(w["inputs"])
    if "reads" not in w["observed"]:
        return True, {}
    ops = kwargs["ops"]
    HS[:] = SIZES[kwargs.get("sizes", 0)]
    arrs = [np.array([float(inp[f"a{i}_{j}"]) for j in range(2)]).reshape(HSHAPE) for i in range(ops.count("A"))]
    clus = [(float(inp[f"n{i}"]), float(inp[f"y{i}"]), float(inp[f"x{i}"])) for i in range(ops.count("C"))]
    exact = all(Fraction(float(v)) == v for v in inp.values())
    import numba

    old = numba.config.BOUNDSCHECK
    numba.config.BOUNDSCHECK = 1
    try:
        reads = _run_history(ops, np, arrs, clus)
    except IndexError:
        return (not exact), {"concrete": "IndexError under numba bounds checking"}
    finally:
        numba.config.BOUNDSCHECK = old
    got = [r.ravel().tolist() for r in reads]
    return (close(got, nums(unjson(w["observed"]["reads"])), 1e-9) or not exact), {"concrete": got}


def centres():
    """convert_array_to_df puts positive pixels at pixel centres, which bin back to the same pixel."""
    from pyxel.data_structure import Charge

    shape = (2, 2)
    vs, hs = vx.real("vsize"), vx.real("hsize")
    vx.assume((vs > 0) & (hs > 0), "pixel sizes > 0")
    a = sym_array("a", shape)
    for e in a.elems():
        vx.assume(e >= 0, "array additions are non-negative")
    with Patch() as p:
        p.numpy(*MODS)
        p.attr("numba", "njit", lambda f=None, **kw: f if f is not None else (lambda g: g), "identity")
        ch = Charge(geo=_geo(shape, vs, hs))
        df = Charge.convert_array_to_df(array=a, num_rows=2, num_cols=2, pixel_vertical_size=vs, pixel_horizontal_size=hs)
        ch.add_charge_dataframe(df)
        try:
            back = ch.array
            ok = True
        except IndexError:
            ok = False
    vx.prove("C14/centres/roundtrip", ok and vx.all_of([x == y for x, y in zip(back.elems(), a.elems())]))


# ------------------------------------------------------------------------------------------------
def replay(oid, kwargs, model, data):
    g = lambda k: float(model.get(k, 0))  # noqa: E731
    fn = data["fn"]
    if fn == "binning":
        shape, n = tuple(kwargs["shape"]), kwargs["n"]
        vs, hs = (g("vsize") or 1.0, g("hsize") or 1.0) if kwargs["sizes"] is None else SIZES[kwargs["sizes"]]
        nn, ys, xs = [g(f"n{i}") for i in range(n)], [g(f"y{i}") for i in range(n)], [g(f"x{i}") for i in range(n)]
        want = np.zeros(shape)
        outside = []
        for i in range(n):
            r, c = int(np.floor(ys[i] / vs)), int(np.floor(xs[i] / hs))
            if 0 <= r < shape[0] and 0 <= c < shape[1]:
                want[r, c] += nn[i]
            else:
                outside.append([r, c])
        try:
            arr = _concrete_binning(shape, vs, hs, nn, ys, xs, boundscheck=True)
        except IndexError as e:
            return True, {"numba_boundscheck": repr(e), "index": outside, "note": "without bounds checking this store writes outside the array"}
        return (not np.allclose(arr, want)), {"reported": arr.tolist(), "expected": want.tolist(), "clusters_outside": outside}
    if fn == "history":
        ops = kwargs["ops"]
        HS[:] = SIZES[kwargs.get("sizes", 0)]
        arrs = [np.array([g(f"a{i}_{j}") for j in range(2)]).reshape(HSHAPE) for i in range(ops.count("A"))]
        clus = [(g(f"n{i}"), g(f"y{i}"), g(f"x{i}")) for i in range(ops.count("C"))]
        acc = np.zeros(HSHAPE)
        want = []
        ia = ic = 0
        live = []
        for op in ops:
            if op == "A":
                acc = acc + arrs[ia]
                ia += 1
            elif op == "C":
                n, y, x = clus[ic]
                r, c = int(np.floor(y / HS[0])), int(np.floor(x / HS[1]))
                if 0 <= r < 1 and 0 <= c < 2:
                    acc = acc.copy()
                    acc[r, c] += n
                    live.append((r, c, n))
                else:
                    live.append(None)
                ic += 1
            elif op in ("X", "Y"):
                if live:
                    last = live.pop() if op == "X" else live.pop(0)
                    if last is not None:
                        acc = acc.copy()
                        acc[last[0], last[1]] -= last[2]
            elif op == "R":
                want.append(acc.copy())
            elif op == "E":
                acc = np.zeros(HSHAPE)
                live = []
        want.append(acc.copy())
        import numba

        old = numba.config.BOUNDSCHECK
        numba.config.BOUNDSCHECK = 1
        try:
            reads = _run_history(ops, np, arrs, clus)
        except IndexError as e:
            return True, {"numba_boundscheck": repr(e)}
        finally:
            numba.config.BOUNDSCHECK = old
        bad = len(reads) != len(want) or any(not np.allclose(r, wv) for r, wv in zip(reads, want))
        return bad, {"reads": [r.tolist() for r in reads], "expected": [wv.tolist() for wv in want]}
    return False, {}
