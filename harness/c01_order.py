"""C01 — enabled models run once per readout, in the fixed physical group order.

The `enabled` flag of every model is a symbolic boolean (the code's own `if model.enabled` forks, the
solver enumerates the feasible on/off patterns), every model gets symbolic argument terms, and probe
model functions record (group, position, kwargs terms, step, detector identity).  Driven through the
real pyxel.run_mode (exposure, and sequential observation with a one-value product), with pipelines
built from Python objects and from configuration mappings whose group keys come in other orders.
"""

from __future__ import annotations

import itertools

import numpy as np

import vx
import vxprobes
from vx.core import unjson

from .common import GROUPS, make_ccd

PROPERTY = "C01"
LEVEL = "model_checking"
FUNCTIONS = [
    "pyxel.pipelines.pipeline:DetectionPipeline.__init__",
    "pyxel.pipelines.pipeline:DetectionPipeline.model_group_names",
    "pyxel.pipelines.processor:Processor.run_pipeline",
    "pyxel.pipelines.model_group:ModelGroup.__iter__",
    "pyxel.pipelines.model_group:ModelGroup.run",
    "pyxel.pipelines.model_function:ModelFunction.__call__",
    "pyxel.pipelines.model_function:ModelFunction.func",
    "pyxel.configuration.configuration:to_pipeline",
    "pyxel.configuration.configuration:to_model_function",
    "pyxel.exposure.exposure:run_pipeline",
    "pyxel.run:run_mode",
    "pyxel.observation.observation:Observation.run_pipelines",
]
STUBS = ["none: the whole of pyxel.run_mode runs unmodified (real xarray extraction per step); only flags and argument values are symbolic",
         "an always-enabled helper model (vxprobes.init_buckets, first in scene_generation) initialises photon/signal/image so that the real exposure "
         "loop can build its result when every probed model is disabled"]
OUTSIDE = ["YAML text parsing (PyYAML) is exercised by C09's pyxel.run witness only", "pygmo's evolution loop and dask graph scheduling: the functions they call per candidate / per cell are driven directly"]
ASSUMPTIONS = []
EXPLANATION = "the canonical order is written out in the harness from the statement; expected trace = per step, per canonical group, each listed model whose flag is true on this path"
CANON = ("scene_generation", "photon_collection", "phasing", "charge_generation", "charge_collection", "charge_transfer",
         "charge_measurement", "signal_transfer", "readout_electronics", "data_processing")
HARD_TIMEOUT_S = {"quick": 900, "thorough": 3600}


def bounds(tier):
    return {"group_pairs": "all 45 unordered pairs x 2 models each (16 on/off patterns)", "all_groups": "8 groups x 1 model (256 patterns) quick; 10 groups (1024) thorough",
            "in_group": "3 models in one group, every group", "readouts": "1..2 quick, 1..3 thorough", "construction": "Python objects; mapping with keys in given / reversed / rotated order"}


def tasks(tier, seed):
    out = []
    pairs = list(itertools.combinations(range(10), 2))
    for n, (a, b) in enumerate(pairs):
        via = ("python", "mapping_rev", "mapping_rot")[n % 3]
        mode = "observation" if n % 5 == 0 else "exposure"
        out.append({"fn": "order", "kwargs": {"layout": [[a, 2], [b, 2]], "readouts": 1 + n % 2, "debug": n % 4 == 1 and mode == "exposure", "via": via, "mode": mode},
                    "label": f"pairs/{CANON[a]},{CANON[b]}/{via}/{mode}"})
    for g in range(10):
        out.append({"fn": "order", "kwargs": {"layout": [[g, 3]], "readouts": 2, "debug": g % 2 == 0, "via": "python" if g % 2 else "mapping_rev", "mode": "exposure"},
                    "label": f"ingroup/{CANON[g]}"})
    # every group in every mode that works on copies of the processor
    for g in range(10):
        for mode in ("observation", "dask_fn", "fitness"):
            other = (g + 3) % 10
            out.append({"fn": "order", "kwargs": {"layout": [[g, 2], [other, 1]], "readouts": 1 + g % 2, "debug": False, "via": ("python", "mapping_rev")[g % 2], "mode": mode},
                        "label": f"modes/{mode}/{CANON[g]}+{CANON[other]}"})
    if tier == "quick":
        out.append({"fn": "order", "kwargs": {"layout": [[g, 1] for g in (0, 1, 3, 4, 5, 6, 8, 9)], "readouts": 1, "debug": False, "via": "mapping_rot", "mode": "exposure"},
                    "label": "all8", "caps": {"max_seconds": 500, "max_paths": 5000}})
    else:
        out.append({"fn": "order", "kwargs": {"layout": [[g, 1] for g in range(10)], "readouts": 2, "debug": False, "via": "mapping_rot", "mode": "exposure"},
                    "label": "all10", "caps": {"max_seconds": 2400, "max_paths": 5000}})
        out.append({"fn": "order", "kwargs": {"layout": [[g, 1] for g in range(10)], "readouts": 1, "debug": True, "via": "python", "mode": "exposure"},
                    "label": "all10/debug", "caps": {"max_seconds": 2400, "max_paths": 5000}})
        for n, (a, b) in enumerate(pairs):
            out.append({"fn": "order", "kwargs": {"layout": [[a, 2], [b, 1]], "readouts": 3, "debug": True, "via": "python", "mode": "exposure"},
                        "label": f"pairs3/{CANON[a]},{CANON[b]}"})
    out.append({"fn": "absent", "kwargs": {}, "label": "absent_groups"})
    out.append({"fn": "aliased", "kwargs": {}, "label": "aliased_entries"})
    # the same pipeline object used again after its on/off pattern was changed (notebook workflow)
    for n, touch in enumerate(("run", "repr", "iterate")):
        a, b = pairs[(3 * n + seed) % len(pairs)]
        out.append({"fn": "reconfigure", "kwargs": {"layout": [[a, 2], [b, 1]], "touch": touch}, "label": f"reconfigure/{CANON[a]},{CANON[b]}/{touch}"})
    return out


def REQUIRED_REACH(tier):
    return ["C01/order/*", "C01/once_per_step/*", "C01/disabled_never/*", "C01/kwargs_exact/*", "C01/detector_identity/*", "C01/absent/*", "C01/reconfigure/*"]


FUNCS = ("vxprobes.probe", "vxprobes.probe_a", "vxprobes.probe_b")
# configured values that are easy to lose on the way to the model: null, zero, empty text, False, an empty list
EXTRA_ARGS = {"opt": None, "z": 0, "e": "", "f": False, "l": []}


def _hook(d, tag, kwargs, rec):
    rec["step"] = d.pipeline_count
    # real exposure needs initialised buckets to build its result: every probe makes sure they exist (concrete data)
    shape = (d.geometry.row, d.geometry.col)
    if d.photon._array is None:
        d.photon.array = np.zeros(shape)
    if d.signal._array is None:
        d.signal.array = np.zeros(shape)
    if d.image._array is None:
        d.image.array = np.zeros(shape, dtype=np.uint16)


def _spec(layout):
    """[(group index, number of models)] -> list of model specs with symbolic flag and arguments."""
    specs = []
    for g, n in layout:
        for k in range(n):
            nm = f"m{g}_{k}"
            specs.append({"group": CANON[g], "pos": k, "name": nm, "func": FUNCS[(g + k) % 3],
                          "enabled": vx.boolean(f"en_{g}_{k}"), "a": vx.integer(f"a_{g}_{k}"), "b": vx.real(f"b_{g}_{k}")})
    return specs


def _pipeline(specs, via):
    from pyxel.configuration.configuration import to_pipeline
    from pyxel.pipelines import DetectionPipeline, ModelFunction

    by_group: dict = {}
    for s in specs:
        by_group.setdefault(s["group"], []).append(s)
    init = {"name": "init", "func": "vxprobes.init_buckets"}
    if via == "python":
        kw = {g: [ModelFunction(func=s["func"], name=s["name"], arguments={"tag": [s["group"], s["pos"]], "a": s["a"], "b": s["b"], **EXTRA_ARGS}, enabled=s["enabled"]) for s in lst]
              for g, lst in by_group.items()}
        kw["scene_generation"] = [ModelFunction(**init)] + kw.get("scene_generation", [])
        return DetectionPipeline(**kw)
    keys = list(by_group)
    if via == "mapping_rev":
        keys = keys[::-1]
    elif via == "mapping_rot":
        keys = keys[1:] + keys[:1]
    dct = {}
    for g in keys:
        dct[g] = [{"name": s["name"], "func": s["func"], "enabled": s["enabled"], "arguments": {"tag": [s["group"], s["pos"]], "a": s["a"], "b": s["b"], **EXTRA_ARGS}} for s in by_group[g]]
    dct["scene_generation"] = [init] + (dct.get("scene_generation") or [])
    # absent groups given explicitly as None / [] in the mapping
    for g in CANON:
        if g not in dct and len(dct) % 2 == 0:
            dct[g] = None if len(g) % 2 else []
    return to_pipeline(dct)


def _run(mode, m, det, pipe, debug, swept, times):
    """The running modes: exposure / sequential observation through run_mode, the function every dask worker executes,
    and the fitness evaluation of calibration (each candidate runs the pipeline once)."""
    import pyxel
    from pyxel.exposure import Readout
    from pyxel.observation import ParameterValues
    from pyxel.pipelines import Processor

    if mode in ("exposure", "observation"):
        pyxel.run_mode(mode=m, detector=det, pipeline=pipe, debug=debug)
    elif mode == "dask_fn":
        from pyxel.observation.observation_dask import _run_pipelines_array_to_datatree

        _run_pipelines_array_to_datatree(params_tuple=(swept[1],), output_filename_suffix=None, dimension_names={swept[2]: "a"}, processor=Processor(detector=det, pipeline=pipe),
                                         readout=Readout(times=times), outputs=None, pipeline_seed=None, progressbar=False)
    else:
        from pyxel.calibration.fitting_datatree import ModelFittingDataTree

        prob = ModelFittingDataTree.__new__(ModelFittingDataTree)
        prob._variables = [ParameterValues(key=swept[2], values="_", boundaries=(0.0, 10.0))]
        prob.pop, prob.readout, prob.pipeline_seed = 2, Readout(times=times), None
        prob._with_inherited_coords, prob.sim_output, prob.sim_fit_range = True, "pixel", None
        prob.weighting = prob.weighting_from_file = None
        prob.fitness_func = lambda simulated, target, weighting: 0.0
        prob.param_processor_list = [Processor(detector=det, pipeline=pipe)]
        prob.all_target_data = [np.zeros((2, 2))]
        prob.fitness(np.array([float(swept[1])]))


def order(layout, readouts, debug, via, mode):
    import pyxel
    from pyxel.exposure import Exposure, Readout
    from pyxel.observation import Observation, ParameterValues

    specs = _spec(layout)
    pipe = _pipeline(specs, via)
    det = make_ccd(2, 2)
    vxprobes.reset(_hook)
    times = [float(i + 1) for i in range(readouts)]
    swept = None
    if mode == "exposure":
        m = Exposure(readout=Readout(times=times))
    else:
        s0 = specs[0]
        swept = (s0, 7, f"pipeline.{s0['group']}.{s0['name']}.arguments.a")
        m = Observation(parameters=[ParameterValues(key=swept[2], values=[7])], readout=Readout(times=times))
    raised = None
    try:
        _run(mode, m, det, pipe, debug, swept, times)
    except (KeyError, ValueError) as e:
        # sweeping an argument of a disabled model is refused (C08): nothing may have run
        if mode != "observation":
            raise
        raised = e
    trace = list(vxprobes.TRACE)
    vxprobes.reset(None)
    lab = "+".join(f"{CANON[g]}x{n}" for g, n in layout) + f"/{via}/{mode}/r={readouts}/debug={int(debug)}"
    if raised is not None:
        vx.prove(f"C01/observation/refused_only_when_swept_model_disabled/{lab}", mode == "observation" and not bool(swept[0]["enabled"]) and len(trace) == 0)
        return
    # expected trace from the statement
    exp = []
    for step in range(readouts):
        for g in CANON:
            for s in specs:
                if s["group"] == g and bool(s["enabled"]):  # decided on this path: no new fork
                    exp.append((step, s))
    got = [(r["step"], tuple(r["tag"])) for r in trace]
    want = [(st, (s["group"], s["pos"])) for st, s in exp]
    vx.prove(f"C01/order/{lab}", got == want)
    vx.prove(f"C01/once_per_step/{lab}", len(got) == len(set(got)) and len(got) == len(want))
    disabled = {(s["group"], s["pos"]) for s in specs if not bool(s["enabled"])}
    vx.prove(f"C01/disabled_never/{lab}", all(t not in disabled for _, t in got))
    if got == want:
        ok = []
        for r, (st, s) in zip(trace, exp):
            kw = r["kwargs"]
            a_want = swept[1] if (swept is not None and s is swept[0]) else s["a"]
            ok += [set(kw) == {"a", "b"} | set(EXTRA_ARGS), kw.get("a") == a_want, kw.get("b") == s["b"]]
            ok += [k in kw and type(kw[k]) is type(v) and kw[k] == v for k, v in EXTRA_ARGS.items()]
        vx.prove(f"C01/kwargs_exact/{lab}", vx.all_of(ok))
        # run_mode works on the detector it was given (exposure) / on a private copy of it (observation runs)
        ids = {r["detector_id"] for r in trace}
        vx.prove(f"C01/detector_identity/{lab}", (ids <= {id(det)}) if mode == "exposure" else len(ids) <= 1)
    vx.observe("n_calls", len(got))


def fidelity_order(kwargs, w):
    """Concrete replay of the path's on/off pattern through the same driver (no symbolic values at all)."""
    inp = unjson(w["inputs"])
    calls = _concrete_calls(kwargs, inp)
    if calls is None:
        return "n_calls" not in w["observed"], {"concrete": "refused"}
    return ("n_calls" in w["observed"] and len(calls) == w["observed"]["n_calls"]), {"concrete_calls": len(calls)}


def _concrete_calls(kwargs, inp):
    import pyxel
    from pyxel.exposure import Exposure, Readout
    from pyxel.observation import Observation, ParameterValues
    from pyxel.pipelines import DetectionPipeline, ModelFunction

    layout, readouts, debug, mode = kwargs["layout"], kwargs["readouts"], kwargs["debug"], kwargs["mode"]
    by_group: dict = {}
    first = None
    for g, n in layout:
        for k in range(n):
            mf = ModelFunction(func=FUNCS[(g + k) % 3], name=f"m{g}_{k}", arguments={"tag": [CANON[g], k], "a": int(inp.get(f"a_{g}_{k}", 0)), "b": float(inp.get(f"b_{g}_{k}", 0)), **EXTRA_ARGS},
                               enabled=bool(inp.get(f"en_{g}_{k}", False)))
            by_group.setdefault(CANON[g], []).append(mf)
            first = first or (CANON[g], mf)
    by_group["scene_generation"] = [ModelFunction(name="init", func="vxprobes.init_buckets")] + by_group.get("scene_generation", [])
    pipe = DetectionPipeline(**by_group)
    det = make_ccd(2, 2)
    vxprobes.reset(_hook)
    times = [float(i + 1) for i in range(readouts)]
    swept = None
    if mode == "exposure":
        m = Exposure(readout=Readout(times=times))
    else:
        swept = (None, 7, f"pipeline.{first[0]}.{first[1].name}.arguments.a")
        m = Observation(parameters=[ParameterValues(key=swept[2], values=[7])], readout=Readout(times=times))
    try:
        _run(mode, m, det, pipe, debug, swept, times)
    except (KeyError, ValueError):
        vxprobes.reset(None)
        if mode != "observation":
            raise
        return None
    calls = [(r["step"], tuple(r["tag"]), dict(r["kwargs"])) for r in vxprobes.TRACE]
    vxprobes.reset(None)
    return calls


def _reconfigure_run(layout, touch, flags1, flags2):
    """Build, use once (run / repr / iterate), change every enabled flag, run; returns the second run's calls."""
    import pyxel
    from pyxel.exposure import Exposure, Readout
    from pyxel.pipelines import DetectionPipeline, ModelFunction

    by_group: dict = {}
    for g, n in layout:
        for k in range(n):
            by_group.setdefault(CANON[g], []).append(ModelFunction(func=FUNCS[(g + k) % 3], name=f"m{g}_{k}", arguments={"tag": [CANON[g], k]}, enabled=flags1[(g, k)]))
    by_group["scene_generation"] = [ModelFunction(name="init", func="vxprobes.init_buckets")] + by_group.get("scene_generation", [])
    pipe = DetectionPipeline(**by_group)
    det = make_ccd(2, 2)
    vxprobes.reset(_hook)
    try:
        if touch == "run":
            pyxel.run_mode(mode=Exposure(readout=Readout(times=[1.0])), detector=det, pipeline=pipe)
        elif touch == "repr":
            repr(pipe)
            for g in CANON:
                repr(getattr(pipe, g))
        else:
            for g in CANON:
                grp = getattr(pipe, g)
                if grp is not None:
                    list(grp)
        for g, n in layout:
            for k in range(n):
                getattr(getattr(pipe, CANON[g]), f"m{g}_{k}").enabled = flags2[(g, k)]
        vxprobes.reset(_hook)
        pyxel.run_mode(mode=Exposure(readout=Readout(times=[1.0, 2.0])), detector=det, pipeline=pipe)
        return [(r["step"], tuple(r["tag"])) for r in vxprobes.TRACE]
    finally:
        vxprobes.reset(None)


def _reconfigure_want(layout, flags2):
    return [(step, (CANON[g], k)) for step in range(2) for gi in range(10) for g, n in layout if g == gi for k in range(n) if bool(flags2[(g, k)])]


def reconfigure(layout, touch):
    """A pipeline object that was already used executes exactly the models enabled *now*."""
    flags1 = {(g, k): vx.boolean(f"en_{g}_{k}") for g, n in layout for k in range(n)}
    flags2 = {(g, k): vx.boolean(f"en2_{g}_{k}") for g, n in layout for k in range(n)}
    got = _reconfigure_run(layout, touch, flags1, flags2)
    vx.prove(f"C01/reconfigure/{touch}", got == _reconfigure_want(layout, flags2))


def aliased():
    """YAML anchors / aliases hand the loader the *same* mapping object for several entries (a disabled noise model listed twice, the
    same entry in two groups): every occurrence keeps its own configured flag and arguments, and converting the mapping does not change it."""
    import copy as _copy

    import pyxel
    from pyxel.configuration.configuration import to_pipeline
    from pyxel.exposure import Exposure, Readout

    en = vx.boolean("en_shared")
    shared = {"name": "noise", "func": "vxprobes.probe_b", "enabled": en, "arguments": {"tag": ["shared", 0], "a": vx.integer("a_shared"), **EXTRA_ARGS}}
    other = {"name": "first", "func": "vxprobes.probe", "enabled": True, "arguments": {"tag": ["other", 0]}}
    dct = {"scene_generation": [{"name": "init", "func": "vxprobes.init_buckets"}], "photon_collection": [other, shared], "charge_measurement": [shared], "readout_electronics": [shared, other]}
    pipe = to_pipeline(dct)
    vxprobes.reset(_hook)
    try:
        pyxel.run_mode(mode=Exposure(readout=Readout(times=[1.0, 2.0])), detector=make_ccd(2, 2), pipeline=pipe)
        got = [(r["step"], tuple(r["tag"])) for r in vxprobes.TRACE]
    finally:
        vxprobes.reset(None)
    per_step = [("other", 0)] + ([("shared", 0)] * 3 if bool(en) else []) + [("other", 0)]
    if bool(en):
        per_step = [("other", 0), ("shared", 0), ("shared", 0), ("shared", 0), ("other", 0)]
    want = [(st, t) for st in range(2) for t in per_step]
    vx.prove("C01/aliased/every_occurrence_keeps_its_flag", got == want, got=str(got)[:200])


def absent():
    """Absent groups (None, [], key missing) never execute and do not disturb the others."""
    import pyxel
    from pyxel.configuration.configuration import to_pipeline
    from pyxel.exposure import Exposure, Readout

    en = vx.boolean("en")
    dct = {"data_processing": [{"name": "z", "func": "vxprobes.probe", "enabled": en, "arguments": {"tag": ["data_processing", 0]}}],
           "photon_collection": None, "charge_generation": [], "scene_generation": [{"name": "s", "func": "vxprobes.probe_a", "arguments": {"tag": ["scene_generation", 0]}}]}
    pipe = to_pipeline(dct)
    vxprobes.reset(_hook)
    pyxel.run_mode(mode=Exposure(readout=Readout(times=[1.0])), detector=make_ccd(2, 2), pipeline=pipe)
    got = [tuple(r["tag"]) for r in vxprobes.TRACE]
    vxprobes.reset(None)
    want = [("scene_generation", 0)] + ([("data_processing", 0)] if bool(en) else [])
    vx.prove("C01/absent/none_and_empty_groups_skipped", got == want)
    vx.prove("C01/absent/default_enabled_true", ("scene_generation", 0) in got)


def replay(oid, kwargs, model, data):
    if data["fn"] == "aliased":
        import pyxel
        from pyxel.configuration.configuration import to_pipeline
        from pyxel.exposure import Exposure, Readout

        en = bool(model.get("en_shared", False))
        shared = {"name": "noise", "func": "vxprobes.probe_b", "enabled": en, "arguments": {"tag": ["shared", 0], "a": int(model.get("a_shared", 0)), **EXTRA_ARGS}}
        other = {"name": "first", "func": "vxprobes.probe", "enabled": True, "arguments": {"tag": ["other", 0]}}
        dct = {"scene_generation": [{"name": "init", "func": "vxprobes.init_buckets"}], "photon_collection": [other, shared], "charge_measurement": [shared], "readout_electronics": [shared, other]}
        pipe = to_pipeline(dct)
        vxprobes.reset(_hook)
        try:
            pyxel.run_mode(mode=Exposure(readout=Readout(times=[1.0, 2.0])), detector=make_ccd(2, 2), pipeline=pipe)
            got = [(r["step"], tuple(r["tag"])) for r in vxprobes.TRACE]
        finally:
            vxprobes.reset(None)
        per_step = [("other", 0), ("shared", 0), ("shared", 0), ("shared", 0), ("other", 0)] if en else [("other", 0), ("other", 0)]
        want = [(st, t) for st in range(2) for t in per_step]
        return got != want, {"shared_entry_enabled": en, "executed": got, "expected": want}
    if data["fn"] == "reconfigure":
        layout = kwargs["layout"]
        f1 = {(g, k): bool(model.get(f"en_{g}_{k}", False)) for g, n in layout for k in range(n)}
        f2 = {(g, k): bool(model.get(f"en2_{g}_{k}", False)) for g, n in layout for k in range(n)}
        got, want = _reconfigure_run(layout, kwargs["touch"], f1, f2), _reconfigure_want(layout, f2)
        return got != want, {"second_run_executed": got, "enabled_now": want}
    if data["fn"] != "order":
        return False, {}
    calls = _concrete_calls(kwargs, model)
    layout, readouts = kwargs["layout"], kwargs["readouts"]
    if calls is None:
        return "refused_only" not in oid, {"refused": True}
    want = []
    for step in range(readouts):
        for gi, g in enumerate(CANON):
            for gg, n in layout:
                if gg == gi:
                    for k in range(n):
                        if bool(model.get(f"en_{gg}_{k}", False)):
                            want.append((step, (g, k)))
    got = [(s, t) for s, t, _ in calls]
    bad = got != want
    if not bad and "kwargs_exact" in oid:
        first = (CANON[layout[0][0]], 0)
        for (s, t, kw) in calls:
            gi = CANON.index(t[0])
            a = 7 if (kwargs["mode"] != "exposure" and t == first) else int(model.get(f"a_{gi}_{t[1]}", 0))
            if set(kw) != {"a", "b"} | set(EXTRA_ARGS) or kw["a"] != a or abs(kw["b"] - float(model.get(f"b_{gi}_{t[1]}", 0))) > 1e-9:
                bad = True
            if any(k not in kw or type(kw[k]) is not type(v) or kw[k] != v for k, v in EXTRA_ARGS.items()):
                bad = True
    return bad, {"got": got[:12], "want": want[:12]}
