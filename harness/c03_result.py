"""C03 — the returned result is a faithful, complete record of every step  (weak level: exploration).

The code that decides C03 is xarray (expand_dims, merge, astype, DataTree.from_dict) over pandas
indexes: C-level, not symbolically executable.  What the solver contributes here is *input generation*:
the feasible paths of the real Readout validation / step computation, crossed with symbolic choices of
destructive mode, image dtype, float dtype, 2-D vs multi-wavelength photon, write pattern, debug and
layout, each yield a solver witness; every witness is run end-to-end through the real pyxel.run_mode
with a last-in-step probe that snapshots every bucket, and the returned DataTree is compared slice by
slice with the snapshots.  The comparison itself is concrete.
"""

from __future__ import annotations

import numpy as np

import vx
import vxprobes
from vx.core import Fraction, unjson
from vx.patching import Patch

from .common import make_ccd

PROPERTY = "C03"
LEVEL = "exploration"
FUNCTIONS = [
    "pyxel.exposure.exposure:_extract_datatree_2d",
    "pyxel.exposure.exposure:run_pipeline",
    "pyxel.data_structure.array:ArrayBase.to_xarray",
    "pyxel.data_structure.photon:Photon.to_xarray",
    "pyxel.data_structure.charge:Charge.to_xarray",
    "pyxel.pipelines.model_group:ModelGroup.run",
    "pyxel.run:run_mode",
    "pyxel.exposure.readout:Readout.__init__",
    "pyxel.data_structure.charge:Charge.array", "pyxel.data_structure.charge:Charge.set_frame_values", "pyxel.data_structure.charge:Charge.remove_from_frame",
]
STUBS = ["none: the real run_mode runs end-to-end on the solver-chosen concrete inputs"]
OUTSIDE = ["this is concolic input generation + concrete comparison, not a symbolic decision: xarray / pandas cannot hold symbolic values"]
ASSUMPTIONS = ["every step writes the image bucket (real pyxel cannot merge >= 2 steps otherwise)"]
EXPLANATION = "one end-to-end run per feasible path of the schedule validation x choice vector; comparison with per-step snapshots"
RULE = ("cases = solver witnesses of the feasible paths of Readout validation crossed with symbolic choices (destructive flag, image dtype uint8..uint64, "
        "float dtype float16..64, 2-D / 3-wavelength photon, which optional buckets are written, debug, layout); a case is non-trivial when it has >= 2 readouts "
        "or a non-zero start time; distinct = distinct (schedule, choice vector)")
IMG = ["uint8", "uint16", "uint32", "uint64"]
FLT = ["float16", "float32", "float64"]
SHAPE = (2, 3)


def bounds(tier):
    return {"readouts": "1..3 quick, 1..5 thorough", "image_dtypes": IMG, "float_dtypes": FLT, "photon": ["2-D", "3 wavelengths"], "layouts": ["flat", "hierarchical"], "debug": [False, True]}


def tasks(tier, seed):
    out = []
    for n in ((1, 2, 3) if tier == "quick" else (1, 2, 3, 4, 5)):
        for k in range(4 if tier == "quick" else 12):
            out.append({"fn": "witness", "kwargs": {"n": n, "variant": (seed + k) % 12}, "label": f"witness/n={n},variant={(seed + k) % 12}", "caps": {"max_seconds": 400, "max_paths": 200}})
    return out


def REQUIRED_REACH(tier):
    return ["C03/witness/values/*", "C03/witness/time_labels/*", "C03/witness/image_dtype/*", "C03/witness/layouts_agree/*"]


def count_nontrivial(results):
    seen = set()
    for r in results:
        for w in r.get("witnesses", []):
            inp = w.get("inputs", {})
            n = len([k for k in inp if k.startswith("t") and k[1:].isdigit()])
            start = inp.get("start", 0)
            if n >= 2 or start != 0:
                seen.add(repr(sorted((k, repr(v)) for k, v in inp.items())) + r["label"])
    return len(seen)


def _run_concrete(times, start, nd, img_dt, flt_dt, photon3d, writes, debug, inherited):
    """Real run; returns (DataTree, snapshots per step)."""
    import xarray as xr

    import pyxel
    from pyxel.exposure import Exposure, Readout
    from pyxel.pipelines import DetectionPipeline, ModelFunction

    snaps = []

    def hook(d, tag, kwargs, rec):
        i = d.pipeline_count
        base = float(i + 1)
        if tag == "write":
            if photon3d:
                da = xr.DataArray(np.full((3,) + SHAPE, base * 2, dtype=float), dims=["wavelength", "y", "x"], coords={"wavelength": [500.0, 600.0, 700.0]})
                d.photon.array_3d = da
            elif writes["photon"]:
                d.photon.array = (np.arange(6, dtype=float).reshape(SHAPE) * base).astype(flt_dt)
            if writes["charge"]:
                d.charge.add_charge_array(np.full(SHAPE, base * 3.0))
            d.pixel.array = d.pixel.array + (np.arange(6, dtype=float).reshape(SHAPE) + base).astype(float)
            if writes["signal"]:
                d.signal.array = (np.full(SHAPE, base * 0.5)).astype(flt_dt)
            d.image.array = (np.arange(6).reshape(SHAPE) * (i + 1) % 200).astype(img_dt)
        else:
            snaps.append({
                "photon": None if d.photon._array is None else np.asarray(d.photon._array).copy(),
                "charge": d.charge.array.copy(), "pixel": d.pixel.array.copy(),
                "signal": None if d.signal._array is None else d.signal.array.copy(), "image": d.image.array.copy(), "abs_time": float(d.absolute_time)})

    vxprobes.reset(hook)
    try:
        pipe = DetectionPipeline(charge_collection=[ModelFunction(func="vxprobes.probe", name="write", arguments={"tag": "write"})],
                                 data_processing=[ModelFunction(func="vxprobes.probe_a", name="snap", arguments={"tag": "snap"})])
        dt = pyxel.run_mode(mode=Exposure(readout=Readout(times=times, start_time=start, non_destructive=nd)), detector=make_ccd(*SHAPE), pipeline=pipe,
                            debug=debug, with_inherited_coords=inherited)
    finally:
        vxprobes.reset(None)
    return dt, snaps


def _debug_records(times, start, nd, img_dt, flt_dt, photon3d=False):
    """Debug clause, per model and per step: a four-model pipeline (one model writes photons, one adds to them in place, one writes the
    other buckets, one writes nothing); every bucket a model changed is recorded under it with the values the detector held when that
    model returned, and nothing else is - except, for the first model of a step, what the reset at the beginning of the step changed."""
    import xarray as xr

    import pyxel
    from pyxel.exposure import Exposure, Readout
    from pyxel.pipelines import DetectionPipeline, ModelFunction

    BUCKETS = ("photon", "charge", "pixel", "signal", "image")

    def cube(v):
        return xr.DataArray(np.full((3,) + SHAPE, float(v)) + np.arange(3.0).reshape(3, 1, 1), dims=["wavelength", "y", "x"], coords={"wavelength": [500.0, 600.0, 700.0]})

    def snap(d):
        out = {}
        for b in BUCKETS:
            a = d.charge.array if b == "charge" else getattr(d, b)._array
            out[b] = None if a is None else np.asarray(a, dtype=float).copy()
        return out

    def differs(x, y):
        if x is None or y is None:
            return not (x is None and y is None)
        return x.shape != y.shape or not np.allclose(x, y)

    calls = []

    def hook(d, tag, kwargs, rec):
        i = d.pipeline_count
        before = snap(d)
        if tag == "pc":
            if photon3d:
                d.photon.array_3d = cube(10 * (i + 1))
            else:
                d.photon.array = (np.arange(6, dtype=float).reshape(SHAPE) * (i + 2)).astype(flt_dt)
        elif tag == "pc2":
            if photon3d:
                d.photon += cube(i + 1)  # in place on the cube the first model left
            else:
                d.photon += np.full(SHAPE, 1.0 + i)
        elif tag == "write":
            d.charge.add_charge_array(np.full(SHAPE, 3.0 * (i + 1)))
            if i % 2 == 0:
                d.pixel.array = d.pixel.array + 1.0 + i  # odd steps leave the pixel bucket alone
            d.signal.array = np.full(SHAPE, 0.5 * (i + 1)).astype(flt_dt)
            d.image.array = (np.arange(6).reshape(SHAPE) + i).astype(img_dt)
        calls.append((i, tag, before, snap(d)))

    vxprobes.reset(hook)
    try:
        pipe = DetectionPipeline(photon_collection=[ModelFunction(func="vxprobes.probe", name="pc", arguments={"tag": "pc"}),
                                                    ModelFunction(func="vxprobes.probe_c", name="pc2", arguments={"tag": "pc2"})],
                                 charge_collection=[ModelFunction(func="vxprobes.probe_a", name="write", arguments={"tag": "write"})],
                                 data_processing=[ModelFunction(func="vxprobes.probe_b", name="idle", arguments={"tag": "idle"})])
        dt = pyxel.run_mode(mode=Exposure(readout=Readout(times=times, start_time=start, non_destructive=nd)), detector=make_ccd(*SHAPE), pipeline=pipe,
                            debug=True, with_inherited_coords=True)
    finally:
        vxprobes.reset(None)
    groups = {"pc": "photon_collection", "pc2": "photon_collection", "write": "charge_collection", "idle": "data_processing"}
    problems = {}
    prev_end = None
    for k, (i, tag, before, after) in enumerate(calls):
        try:
            node = dt[f"/intermediate/time_idx_{i}/{groups[tag]}/{tag}"]
            recorded = {str(v) for v in node.data_vars}
        except KeyError:
            problems[f"step{i}/{tag}"] = "no node"
            continue
        changed = {b for b in BUCKETS if differs(before[b], after[b])}
        first_of_step = tag == "pc"
        by_reset = {b for b in BUCKETS if first_of_step and (differs(prev_end[b], before[b]) if prev_end is not None else before[b] is not None)} if first_of_step else set()
        missing, extra = changed - recorded, recorded - changed - by_reset
        if missing or extra:
            problems[f"step{i}/{tag}"] = {"changed_by_model": sorted(changed), "recorded": sorted(recorded), "changed_by_reset": sorted(by_reset)}
        for b in sorted(changed & recorded):
            got = np.asarray(node[b], dtype=float)
            want = after[b]
            if got.size != want.size or not np.allclose(got.reshape(want.shape), want, rtol=1e-6, atol=0):
                problems[f"step{i}/{tag}/{b}/values"] = {"recorded": got.ravel()[:6].tolist(), "detector_held_after_the_model": want.ravel()[:6].tolist()}
        if tag == "idle":
            prev_end = after
    return problems


def _particle_charge(times, start, nd, edit, debug):
    """Charge written as particles by one model and edited in place by the next model of the same step (set_frame_values /
    remove_from_frame with an id list): the charge slice of each step is what the particle list held at the end of that step - the
    reference is computed here from the dataframe, not through Charge.array - with and without debug records."""
    import pyxel
    from pyxel.exposure import Exposure, Readout
    from pyxel.pipelines import DetectionPipeline, ModelFunction

    want = []

    def hook(d, tag, kwargs, rec):
        i = d.pipeline_count
        if tag == "make":
            n = 3
            d.charge.add_charge(particle_type="e", particles_per_cluster=np.array([10.0 + i, 20.0, 30.0]), init_energy=np.zeros(n),
                                init_ver_position=np.array([0.5, 1.5, 1.5]) * d.geometry.pixel_vert_size, init_hor_position=np.array([0.5, 1.5, 2.5]) * d.geometry.pixel_horz_size,
                                init_z_position=np.zeros(n), init_ver_velocity=np.zeros(n), init_hor_velocity=np.zeros(n), init_z_velocity=np.zeros(n))
            d.image.array = np.zeros(SHAPE, dtype="uint16")
        elif tag == "edit":
            ids = list(d.charge.frame.index)
            if edit == "set_number":
                d.charge.set_frame_values("number", [float(v) * (i + 2) for v in d.charge.frame["number"]], id_list=ids)
            elif edit == "set_position":
                d.charge.set_frame_values("position_hor", [0.5 * d.geometry.pixel_horz_size] * len(ids), id_list=ids)
            elif edit == "remove_some":
                d.charge.remove_from_frame(ids[-1:])
        else:
            ref = np.zeros(SHAPE)
            fr = d.charge.frame
            for num, pv, ph in zip(fr["number"], fr["position_ver"], fr["position_hor"]):
                r, c = int(np.floor(pv / d.geometry.pixel_vert_size)), int(np.floor(ph / d.geometry.pixel_horz_size))
                if 0 <= r < SHAPE[0] and 0 <= c < SHAPE[1]:
                    ref[r, c] += float(num)
            want.append(ref)

    vxprobes.reset(hook)
    try:
        pipe = DetectionPipeline(charge_generation=[ModelFunction(func="vxprobes.probe", name="make", arguments={"tag": "make"}),
                                                    ModelFunction(func="vxprobes.probe_a", name="edit", arguments={"tag": "edit"})],
                                 data_processing=[ModelFunction(func="vxprobes.probe_b", name="snap", arguments={"tag": "snap"})])
        dt = pyxel.run_mode(mode=Exposure(readout=Readout(times=times, start_time=start, non_destructive=nd)), detector=make_ccd(*SHAPE), pipeline=pipe,
                            debug=debug, with_inherited_coords=True)
    finally:
        vxprobes.reset(None)
    got = np.asarray(dt["/bucket/charge"]).astype(float)
    bad = {}
    if got.shape[0] != len(want):
        return {"slices": [int(got.shape[0]), len(want)]}
    for i, w in enumerate(want):
        if not np.array_equal(got[i], w):
            bad[f"charge[{i}]"] = {"got": got[i].tolist(), "want": w.tolist()}
    return bad


EDITS = ("set_number", "set_position", "remove_some")


def _compare(dt, snaps, times, start, img_dt, inherited, photon3d):
    bad = {}
    node = dt["/bucket"] if inherited else dt
    n = len(times)
    if len(snaps) != n:
        bad["steps"] = [len(snaps), n]
        return bad
    for b in ("photon", "charge", "pixel", "signal", "image"):
        if snaps[0][b] is None:
            continue
        if b not in node:
            bad[b] = "missing from the result"
            continue
        da = node[b]
        arr = np.asarray(da)
        if arr.shape[0] != n:
            bad[b + "_slices"] = [int(arr.shape[0]), n]
            continue
        for i in range(n):
            want = snaps[i][b]
            got = arr[i]
            if got.shape != want.shape or not np.array_equal(got.astype(float), want.astype(float)):
                bad[f"{b}[{i}]"] = {"got": got.tolist(), "want": want.tolist()}
        tl = np.asarray(da.coords["time"]).astype(float).tolist()
        exp_t = [start + t for t in times]
        if not np.allclose(tl, exp_t, rtol=1e-12, atol=0) or not np.allclose(tl, [s["abs_time"] for s in snaps], rtol=0, atol=0):
            bad[b + "_time"] = {"got": tl, "want": exp_t}
        if list(np.asarray(da.coords["y"])) != list(range(SHAPE[0])) or list(np.asarray(da.coords["x"])) != list(range(SHAPE[1])):
            bad[b + "_yx"] = "wrong row / column labels"
    if "image" in node and str(node["image"].dtype) != img_dt:
        bad["image_dtype"] = [str(node["image"].dtype), img_dt]
    return bad


def _values(dt, inherited):
    node = dt["/bucket"] if inherited else dt
    return {b: np.asarray(node[b]).astype(float) for b in ("photon", "charge", "pixel", "signal", "image") if b in node}


def _check_all(times, start, nd, img_dt, flt_dt, photon3d, writes, debug):
    res = {}
    dt_flat, snaps = _run_concrete(times, start, nd, img_dt, flt_dt, photon3d, writes, False, False)
    res["flat"] = _compare(dt_flat, snaps, times, start, img_dt, False, photon3d)
    dt_h, snaps_h = _run_concrete(times, start, nd, img_dt, flt_dt, photon3d, writes, False, True)
    res["hier"] = _compare(dt_h, snaps_h, times, start, img_dt, True, photon3d)
    vf, vh = _values(dt_flat, False), _values(dt_h, True)
    res["layouts"] = {} if (set(vf) == set(vh) and all(np.array_equal(vf[k], vh[k], equal_nan=True) for k in vf)) else {"flat_vs_hierarchical": [sorted(vf), sorted(vh)]}
    res["debug"] = {}
    if debug:
        dt_d, snaps_d = _run_concrete(times, start, nd, img_dt, flt_dt, photon3d, writes, True, True)
        vd = _values(dt_d, True)
        if "intermediate" not in dt_d.children:
            res["debug"]["intermediate"] = "missing"
        if not (set(vd) == set(vh) and all(np.array_equal(vd[k], vh[k], equal_nan=True) for k in vd)):
            res["debug"]["final_result_changed_by_debug"] = True
        try:
            first = dt_d["/intermediate/time_idx_0/charge_collection/write"]
            if "pixel" not in first:
                res["debug"]["changed_bucket_not_recorded"] = sorted(first.data_vars)
        except KeyError as e:
            res["debug"]["missing_node"] = str(e)
        for mode_nd in (False, True):  # both readout modes on this schedule (the reset differs between them)
            rec = _debug_records(times, start, mode_nd, img_dt, flt_dt, photon3d=photon3d)
            if rec:
                res["debug"][f"per_model_records/non_destructive={mode_nd}"] = rec
    if "scene" not in dt_h.children or "data" not in dt_h.children:
        res["layouts"]["scene_or_data_missing"] = sorted(dt_h.children)
    res["particles"] = {}
    edit = EDITS[(len(times) + IMG.index(img_dt)) % len(EDITS)]
    for dbg in (False, True):
        bad = _particle_charge(times, start, nd, edit, dbg)
        if bad:
            res["particles"][f"{edit}/debug={dbg}"] = bad
    return res


def witness(n, variant):
    from pyxel.exposure import Readout

    ts = [vx.real(f"t{i}") for i in range(n)]
    s = vx.real("start")
    nd = vx.boolean("non_destructive")
    # symbolic schedule through the real validation: only accepted schedules continue
    with Patch() as p:
        p.numpy("pyxel.exposure.readout")
        try:
            Readout(times=ts, start_time=s, non_destructive=nd)
        except ValueError:
            return
    # keep witnesses well inside double precision
    for t in ts + [s]:
        vx.assume((t >= -64) & (t <= 64), "schedule values of moderate magnitude")
    for a, b in zip([s] + ts, ts):
        vx.assume(b - a >= Fraction(1, 64), "steps not smaller than 1/64 s")
    img_i, flt_i = vx.integer("image_dtype"), vx.integer("float_dtype")
    vx.assume((img_i >= 0) & (img_i <= 3) & (img_i == variant % 4), "image dtype index")
    vx.assume((flt_i >= 0) & (flt_i <= 2) & (flt_i == variant % 3), "float dtype index")
    photon3d = variant % 5 == 0
    wr = {"photon": variant % 2 == 0, "charge": variant % 3 != 1, "signal": variant % 4 != 3}
    debug = variant % 3 == 0
    m = vx.current().model()
    if m is None:
        return
    times = [float(vx.evalv(t, m)) for t in ts]
    start = float(vx.evalv(s, m))
    ndv = bool(vx.evalv(nd, m))
    # pin the witness so that the recorded path inputs are exactly what was run
    for t, v in zip(ts + [s], times + [start]):
        vx.assume(t == Fraction(v), "witness pinned")
    vx.assume(nd == ndv, "witness pinned")
    img_dt, flt_dt = IMG[variant % 4], FLT[variant % 3]
    res = _check_all(times, start, ndv, img_dt, flt_dt, photon3d, wr, debug)
    lab = f"n={n},variant={variant}"
    vx.prove(f"C03/witness/values/{lab}", not {k: v for k, v in {**res["flat"], **res["hier"]}.items() if not k.endswith("_time") and k != "image_dtype"}, detail=str(res["flat"])[:300])
    vx.prove(f"C03/witness/time_labels/{lab}", not [k for k in {**res["flat"], **res["hier"]} if k.endswith("_time")])
    vx.prove(f"C03/witness/image_dtype/{lab}", "image_dtype" not in res["flat"] and "image_dtype" not in res["hier"], dtype=img_dt)
    vx.prove(f"C03/witness/layouts_agree/{lab}", not res["layouts"])
    vx.prove(f"C03/witness/particle_charge_edited_in_place/{lab}", not res["particles"], detail=str(res["particles"])[:300])
    if debug:
        vx.prove(f"C03/witness/debug/{lab}", not res["debug"], detail=str(res["debug"])[:200])


def replay(oid, kwargs, model, data):
    n, variant = kwargs["n"], kwargs["variant"]
    times = [float(model[f"t{i}"]) for i in range(n)]
    start = float(model["start"])
    nd = bool(model.get("non_destructive", False))
    wr = {"photon": variant % 2 == 0, "charge": variant % 3 != 1, "signal": variant % 4 != 3}
    res = _check_all(times, start, nd, IMG[variant % 4], FLT[variant % 3], variant % 5 == 0, wr, variant % 3 == 0)
    flat = {k: v for part in res.values() for k, v in part.items()}
    return bool(flat), {k: str(v)[:200] for k, v in flat.items()}
