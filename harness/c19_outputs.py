"""C19 — output files are complete, correctly attributed and never clobbered.

H1 create_output_directory against a symbolic file system: existence of every candidate directory is a
symbolic boolean, the clock is an opaque token, between two attempts an adversary may create any
candidate (concurrent starts); Path.mkdir is the atomic test-and-create.
H2 every writer with a symbolic `exists(target)`: a write primitive reaches an existing target on no path.
H3 numbering and naming: apply_run_number (glob stubbed by a symbolic set of used numbers),
build_filenames injective; the per-run index array of the parallel path through witness observations.
"""

from __future__ import annotations

import itertools
import pathlib
import tempfile
import types

import numpy as np

import vx
from vx import symnp
from vx.patching import Patch

PROPERTY = "C19"
LEVEL = "model_checking"
FUNCTIONS = [
    "pyxel.outputs.outputs:create_output_directory",
    "pyxel.outputs.outputs:Outputs.build_filenames",
    "pyxel.outputs.utils:apply_run_number",
    "pyxel.outputs.utils:write_to_fits", "pyxel.outputs.utils:write_to_npy", "pyxel.outputs.utils:write_to_jpg",
    "pyxel.outputs.utils:to_fits", "pyxel.outputs.utils:to_npy", "pyxel.outputs.utils:to_txt", "pyxel.outputs.utils:to_csv",
    "pyxel.outputs.utils:to_png", "pyxel.outputs.utils:to_jpg",
    "pyxel.outputs.utils:save_to_files",
    "pyxel.models.photon_collection.load_image:load_image (include_header; witness layer)",
    "pyxel.observation.observation_dask:run_pipelines_with_dask (outputs; witness layer)", "pyxel.observation.observation:Observation.run_pipelines (outputs; witness layer)",
]
STUBS = ["pathlib.Path.exists / mkdir under the scratch prefix -> symbolic file system; datetime.now() -> opaque clock token",
         "write primitives (np.save, np.savetxt, PIL Image.save, astropy writeto, DataFrame.to_csv) -> recorders honouring their documented overwrite contract",
         "glob.glob -> symbolic set of existing numbered files"]
OUTSIDE = ["the encoders (astropy / numpy / PIL) are C / third-party code: symbolic claims stop at what is handed to them, read-back is a concrete witness layer", "OS-level atomicity of mkdir is assumed",
           "HDF5 writer (h5py not installed)"]
ASSUMPTIONS = ["at most 6 candidate directories exist or are created concurrently (bound of the loop exploration)"]
EXPLANATION = "existence flags fork the real code's branches; oracle: no write primitive is reached for a target that exists on the path"
PREFIX = "/vx_c19_scratch"
WRITERS = ["write_to_fits", "write_to_npy", "write_to_jpg", "to_fits", "to_npy", "to_txt", "to_csv", "to_png", "to_jpg"]


def bounds(tier):
    return {"colliding_directories": "<= 6", "writers": WRITERS, "used_numbers": "symbolic subset of 1..5", "save_lists": "all pairs over 3 buckets x 3 formats"}


def tasks(tier, seed):
    out = [{"fn": "directory", "kwargs": {"k": k, "custom": c}, "label": f"dir/k={k},custom={int(c)}"} for k in (2, 4, 6) for c in (False, True)]
    out.append({"fn": "two_calls", "kwargs": {}, "label": "dir/two_calls"})
    for w in WRITERS:
        out.append({"fn": "writer", "kwargs": {"which": w}, "label": f"writer/{w}"})
    out.append({"fn": "numbering", "kwargs": {}, "label": "number"})
    out.append({"fn": "names", "kwargs": {}, "label": "names"})
    out.append({"fn": "save_files", "kwargs": {}, "label": "save_to_files"})
    for which, n in (("3", 3), ("4", 4), ("5", 5), ("pictures", 4)):
        for rot in range(n):
            if which == "3" and rot == 0:
                continue
            out.append({"fn": "save_files", "kwargs": {"which": which, "rot": rot}, "label": f"save_to_files/{which}/rot={rot}"})
    # contents: what Outputs.save_to_file hands to every writer, for ordered format lists of the image bucket
    fmts = ["fits", "npy", "jpg", "png", "txt"]
    lists = [list(c) for c in itertools.permutations(fmts, 2)] + [["jpg", "fits", "npy"], ["fits", "jpg", "npy"], ["png", "jpg", "txt"], ["npy", "png", "fits", "jpg"]]
    for fl in lists:
        out.append({"fn": "content", "kwargs": {"formats": fl, "bucket": "image"}, "label": "content/image/" + "+".join(fl)})
    for fl in (["fits", "npy"], ["npy", "txt", "fits"]):
        out.append({"fn": "content", "kwargs": {"formats": fl, "bucket": "pixel"}, "label": "content/pixel/" + "+".join(fl)})
    grids = [["product", 3, 2, 1], ["product", 2, 2, 1], ["product", 2, 3, 0], ["sequential", 2, 2, 1]] + ([["product", 3, 3, 1], ["product", 1, 3, 1], ["sequential", 3, 2, 0]] if tier == "thorough" else [])
    for g in grids:
        out.append({"fn": "observation_outputs_witness", "kwargs": {"cases": [g]}, "label": f"witness/observation_outputs/{g[0]},{g[1]}x{g[2]},{'dask' if g[3] else 'seq'}", "kind": "direct"})
    for how in ("clusters", "array", "both"):
        out.append({"fn": "outputs_witness", "kwargs": {"cases": [[how, 1], [how, 2], [how, 2, "header"]] + ([[how, 4]] if tier == "thorough" else [])}, "label": f"witness/outputs/{how}", "kind": "direct"})
    return out


def REQUIRED_REACH(tier):
    return ["C19/dir/fresh*", "C19/dir/created_by_call*", "C19/dir/distinct_calls*", "C19/writer/*/refuses_existing", "C19/number/not_in_use*", "C19/names/injective*",
            "C19/witness/observation_files/*"]


# -- symbolic file system ---------------------------------------------------------------------------------
class FS:
    """Symbolic file system.  A path that the code under test did not create may exist initially or be created by
    another process at any moment: every *observation* of its existence gets a fresh symbolic boolean, monotone in
    time (once seen, it stays).  `bound` limits how many distinct foreign paths can ever exist."""

    def __init__(self, bound, races=True):
        self.flags = {}  # path -> latest existence flag (SymBool / False)
        self.history = {}  # path -> list of flags in observation order
        self.created = []  # paths created by the code under test (in order)
        self.bound = bound
        self.races = races
        self.attempts = 0

    def exists(self, path):
        path = str(path)
        if path in self.created:
            return True
        hist = self.history.setdefault(path, [])
        if not hist and len(self.history) > self.bound:
            hist.append(False)
        elif hist and (not self.races or hist[-1] is False and len(self.history) > self.bound):
            hist.append(hist[-1])
        elif hist and not vx.is_sym(hist[-1]):
            hist.append(hist[-1])
        else:
            f = vx.boolean(f"exists_{list(self.history).index(path)}_{len(hist)}")
            if hist:
                vx.assume(vx.implies(hist[-1], f), "files created by others are not deleted")
            hist.append(f)
        self.flags[path] = hist[-1]
        return hist[-1]


def _install_fs(p, fs):
    real_exists, real_mkdir = pathlib.Path.exists, pathlib.Path.mkdir

    def exists(self, *a, **k):
        if str(self).startswith(PREFIX):
            return fs.exists(self)
        return real_exists(self, *a, **k)

    def mkdir(self, mode=0o777, parents=False, exist_ok=False):
        if not str(self).startswith(PREFIX):
            return real_mkdir(self, mode, parents, exist_ok)
        # atomic test-and-create; another process may have created it just before (that is what a fresh flag stands for)
        fs.attempts += 1
        if fs.attempts > 4 * fs.bound + 8:
            raise RecursionError("create_output_directory makes no progress")
        if bool(fs.exists(self)):
            if exist_ok:
                return
            raise FileExistsError(str(self))
        fs.created.append(str(self))

    p.attr(pathlib.Path, "exists", exists, "symbolic file system")
    p.attr(pathlib.Path, "mkdir", mkdir, "symbolic file system")
    p.attr(pathlib.Path, "resolve", lambda self, strict=False: self if str(self).startswith(PREFIX) else pathlib.Path(str(self)), "identity under the scratch prefix")


class _Clock:
    def __init__(self):
        self.n = 0

    def now(self):
        self.n += 1
        return self

    def strftime(self, fmt):
        return "DATE"  # any two starts may fall into the same second


def directory(k, custom):
    import pyxel.outputs.outputs as oo

    with Patch() as p:
        fs = FS(bound=k)
        _install_fs(p, fs)
        p.attr(oo, "datetime", _Clock(), "opaque clock token")
        try:
            got = oo.create_output_directory(PREFIX + "/out", custom_dir_name="my_" if custom else None)
        except RecursionError:
            got = None
    lab = f"k={k},custom={int(custom)}"
    vx.prove(f"C19/dir/terminates/{lab}", got is not None)
    if got is None:
        return
    g = str(got)
    # the directory handed out was created by this very call (an existing one — even one that appeared a moment ago — is never adopted)
    vx.prove(f"C19/dir/created_by_call/{lab}", fs.created == [g])
    # it did not exist when this call's mkdir succeeded: its last observed existence flag is false on this path
    vx.prove(f"C19/dir/fresh/{lab}", vx.implies(True, ~fs.flags[g]) if vx.is_sym(fs.flags.get(g)) else fs.flags.get(g) is False)
    vx.prove(f"C19/dir/inside_parent/{lab}", g.startswith(PREFIX + "/out/" + ("my_" if custom else "run_") + "DATE"))
    vx.prove(f"C19/dir/bounded_attempts/{lab}", len(fs.history) <= k + 2)


def two_calls():
    import pyxel.outputs.outputs as oo

    with Patch() as p:
        fs = FS(bound=3)
        _install_fs(p, fs)
        p.attr(oo, "datetime", _Clock(), "opaque clock token")
        try:
            a = oo.create_output_directory(PREFIX + "/out")
            b = oo.create_output_directory(PREFIX + "/out")
            c = oo.create_output_directory(PREFIX + "/out")
        except RecursionError:
            a = None
    vx.prove("C19/dir/terminates/three_calls", a is not None)
    if a is None:
        return
    vx.prove("C19/dir/distinct_calls", len({str(a), str(b), str(c)}) == 3 and fs.created == [str(a), str(b), str(c)])


# -- writers -------------------------------------------------------------------------------------------------
class _Rec:
    def __init__(self, fs):
        self.fs = fs
        self.writes = []

    def write(self, target, honour_no_overwrite=False):
        target = str(target)
        if honour_no_overwrite and bool(self.fs.exists(target)):
            raise OSError(f"File {target!r} already exists.")
        self.writes.append((target, self.fs.exists(target)))


def _np_shim(rec):
    m = types.ModuleType("vx_np_recorder")

    def ga(name):
        if name == "save":
            return lambda file=None, arr=None, *a, **k: rec.write(file if file is not None else a[0])
        if name == "savetxt":
            return lambda fname, X, *a, **k: rec.write(fname)
        return getattr(np, name)

    m.__getattr__ = ga  # type: ignore[attr-defined]
    return m


def _install_writers(p, rec):
    import pandas as pd
    from astropy.io import fits
    from PIL import Image

    import pyxel.outputs.utils as ou

    p.attr(ou, "np", _np_shim(rec), "recorder")
    p.attr(fits, "writeto", lambda filename, data, header=None, output_verify="exception", overwrite=False, **k: rec.write(filename, honour_no_overwrite=not overwrite), "recorder")
    p.attr(fits.PrimaryHDU, "writeto", lambda self, name, output_verify="exception", overwrite=False, **k: rec.write(name, honour_no_overwrite=not overwrite), "recorder")
    p.attr(Image.Image, "save", lambda self, fp, *a, **k: rec.write(fp), "recorder")
    p.attr(pd.DataFrame, "to_csv", lambda self, path=None, *a, **k: rec.write(path), "recorder")
    p.attr(ou, "glob", lambda pattern: [], "no numbered files yet")


def writer(which):
    import pandas as pd

    import pyxel.outputs.utils as ou

    data = np.arange(6.0).reshape(2, 3)
    folder = pathlib.Path(PREFIX + "/run")
    with Patch() as p:
        fs = FS(bound=3, races=False)
        _install_fs(p, fs)
        rec = _Rec(fs)
        _install_writers(p, rec)
        raised = None
        ret = None
        try:
            if which.startswith("write_to_"):
                target = folder / ("detector_image." + which.rsplit("_", 1)[-1])
                kw = {"filename": target, "data": data, "overwrite": False}
                if which == "write_to_fits":
                    kw["header"] = None
                getattr(ou, which)(**kw)
                ret = target
            else:
                ext = {"to_fits": "fits", "to_npy": "npy", "to_txt": "txt", "to_csv": "csv", "to_png": "png", "to_jpg": "jpg"}[which]
                d = pd.DataFrame(data) if which == "to_csv" else data
                variant = vx.boolean("with_auto_suffix")
                if bool(variant):
                    target = folder / f"detector_image_array_5.{ext}"
                    ret = getattr(ou, which)(current_output_folder=folder, data=d, name="detector.image.array", with_auto_suffix=True, run_number=4)
                else:
                    target = folder / f"detector_image_array.{ext}"
                    ret = getattr(ou, which)(current_output_folder=folder, data=d, name="detector.image.array", with_auto_suffix=False)
        except (OSError, FileExistsError) as e:
            raised = e
    existed = fs.flags.get(str(target))
    # every write primitive reached on this path targets a file that cannot exist on this path
    vx.prove(f"C19/writer/{which}/refuses_existing", vx.all_of([(~w[1] if vx.is_sym(w[1]) else (w[1] is False)) for w in rec.writes]), targets=[w[0] for w in rec.writes])
    clobbered = []
    if raised is None and rec.writes:
        vx.prove(f"C19/writer/{which}/writes_requested_target", [w[0] for w in rec.writes] == [str(target)] and str(ret) == str(target))
    if raised is None and not rec.writes:
        # silently skipped: only legitimate when the target existed
        vx.prove(f"C19/writer/{which}/skip_only_when_existing", existed is not None and bool(existed))


# -- numbering / names ------------------------------------------------------------------------------------------
def numbering():
    import pyxel.outputs.utils as ou

    used = [n for n in range(1, 6) if bool(vx.boolean(f"used_{n}"))]
    rn = vx.integer("run_number")
    given = vx.boolean("run_number_given")
    with Patch() as p:
        p.attr(ou, "glob", lambda pattern: [pattern.replace("*", str(n)) for n in used], "symbolic set of existing numbers")
        if bool(given):
            vx.assume((rn >= 0) & (rn <= 3), "run index small")
            r = vx.concretize_int(rn)
            got = ou.apply_run_number(pathlib.Path(PREFIX + "/run/detector_image_?.fits"), run_number=r)
            vx.prove("C19/number/explicit", str(got) == PREFIX + f"/run/detector_image_{r + 1}.fits")
        else:
            got = ou.apply_run_number(pathlib.Path(PREFIX + "/run/detector_image_?.fits"))
            n = int(str(got).rsplit("_", 1)[-1].split(".")[0])
            vx.prove("C19/number/not_in_use", n not in used and n >= 1)


def names():
    from pyxel.outputs import ExposureOutputs

    buckets = ["photon", "pixel", "image"]
    fmts = ["fits", "npy", "jpg"]
    combos = list(itertools.product(buckets, fmts))
    picks = [c for i, c in enumerate(combos) if bool(vx.boolean(f"pick_{i}"))]
    if not picks:
        return
    cfg: dict = {}
    for b, f in picks:
        cfg.setdefault(f"detector.{b}.array", []).append(f)
    out = ExposureOutputs(output_folder=PREFIX + "/out", save_data_to_file=[{k: v} for k, v in cfg.items()])
    for suffix in (None, 0, 7):
        fn = [str(x) for x in out.build_filenames(filename_suffix=suffix)]
        vx.prove("C19/names/injective", len(fn) == len(set(fn)) == len(picks))
        want = {f"detector_{b}" + (f"_{suffix}" if suffix is not None else "") + f".{f}" for b, f in picks}
        vx.prove("C19/names/complete", set(fn) == want)
    # per-run suffixes keep the runs apart
    a = {str(x) for x in out.build_filenames(filename_suffix=1)}
    b = {str(x) for x in out.build_filenames(filename_suffix=2)}
    vx.prove("C19/names/runs_disjoint", not (a & b))
    # (the per-run file index array of the parallel path is built inline in run_pipelines_with_dask next to the dask graph: it is
    #  exercised by the observation witness runs - C19/witness/observation_files/* - not re-derived here)


SAVE_LISTS = {
    "3": ["detector_image.fits", "detector_image.npy", "detector_pixel.npy"],
    "4": ["detector_image.fits", "detector_pixel.npy", "detector_image.npy", "detector_pixel.fits"],
    "5": ["detector_pixel.npy", "detector_image.fits", "detector_signal.npy", "detector_image.npy", "detector_pixel.fits"],
    # picture formats and their aliases: the name that is reported is the name that is written
    "pictures": ["detector_image.jpeg", "detector_image.fits", "detector_image.jpg", "detector_pixel.npy"],
}


def save_files(which="3", rot=0):
    """save_to_files(overwrite=False): every reported file was written by this call, unless it already existed - for every order
    in which the requested (bucket, format) combinations are listed."""
    import pyxel.outputs.utils as ou

    from .common import make_ccd

    folder = pathlib.Path(PREFIX + "/run")
    with Patch() as p:
        fs = FS(bound=2, races=False)
        _install_fs(p, fs)
        rec = _Rec(fs)
        _install_writers(p, rec)
        from pyxel.pipelines import DetectionPipeline, Processor

        det = make_ccd(2, 2)
        det.image.array = np.zeros((2, 2), dtype=np.uint16)
        det.pixel.array = np.zeros((2, 2))
        det.signal.array = np.zeros((2, 2))
        proc = Processor(detector=det, pipeline=DetectionPipeline())
        base = SAVE_LISTS[which]
        files = base[rot % len(base):] + base[: rot % len(base)]
        dt = ou.save_to_files(folder=folder, processor=proc, filenames=files, header=None)
    reported = sorted(str(x) for g in dt.children for x in np.asarray(dt[g]["filename"]).ravel().tolist())
    vx.prove("C19/files/every_request_reported_once", reported == sorted(str(folder / f) for f in files), order=files)
    written = [w[0] for w in rec.writes]
    vx.prove("C19/files/never_overwrites", vx.all_of([(~w[1] if vx.is_sym(w[1]) else (w[1] is False)) for w in rec.writes]))
    fresh = [f for f in reported if not (vx.is_sym(fs.flags.get(f)) and vx.current().implied(fs.flags[f].t)) and fs.flags.get(f) is not True]
    vx.prove("C19/files/reported_implies_written_when_fresh", all(f in written for f in fresh))


LOSSLESS = ("fits", "npy", "txt", "csv", "hdf")


def content(formats, bucket):
    """Outputs.save_to_file: every lossless format receives exactly the bucket's array (values and dtype), a picture format the
    documented 8-bit rescaling of it, whatever the order of the format list."""
    import pyxel.outputs.outputs as oo
    from pyxel.outputs import ExposureOutputs
    from pyxel.pipelines import DetectionPipeline, Processor

    from .common import make_ccd, sym_array

    bits = 12
    got = []

    def recorder(fmt):
        def f(current_output_folder, data, name, with_auto_suffix=True, run_number=None, header=None):
            got.append((fmt, data, name))
            return pathlib.Path(str(current_output_folder)) / f"{name.replace('.', '_')}.{fmt}"

        return f

    with Patch() as p:
        p.numpy("pyxel.outputs.outputs")
        for fmt, fname in (("fits", "to_fits"), ("npy", "to_npy"), ("txt", "to_txt"), ("csv", "to_csv"), ("png", "to_png"), ("jpg", "to_jpg"), ("hdf", "to_hdf")):
            p.attr(oo, fname, recorder(fmt), "recording writer (receives what the real writer would be handed)")
        det = make_ccd(2, 2)
        det.characteristics._adc_bit_resolution = bits
        if bucket == "image":
            src = sym_array("img", (2, 2), kind="int", dtype="uint16")
            for e in src.elems():
                vx.assume((e >= 0) & (e <= 2**bits - 1), "image values are ADC codes")
            det.image._array = src
        else:
            src = sym_array("pix", (2, 2))
            det.pixel._array = src
        snap = src.copy()
        proc = Processor(detector=det, pipeline=DetectionPipeline())
        out = ExposureOutputs(output_folder=PREFIX + "/out", save_data_to_file=[{f"detector.{bucket}.array": list(formats)}])
        out._current_output_folder = pathlib.Path(PREFIX + "/out/run")
        out.save_to_file(processor=proc)
        held = getattr(det, bucket)._array  # what the detector holds after the files were written (re-bound or mutated, both show)
    lab = f"{bucket}/" + "+".join(formats)
    vx.prove(f"C19/content/every_format_written_once/{lab}", [g[0] for g in got] == list(formats))
    ok = []
    for fmt, data, name in got:
        elems = symnp.asarray(data).elems()
        if fmt in LOSSLESS:
            ok += [tuple(data.shape) == (2, 2), str(data.dtype) == str(snap.dtype)] + [a == b for a, b in zip(elems, snap.elems())]
        else:
            # 8-bit preview of the full ADC range (lossy by design; one count of slack for the float rounding of 255 / (2^bits - 1))
            ok += [str(data.dtype) == "uint8"] + [((a - 1) * (2**bits - 1) <= 255 * b) & (255 * b <= (a + 1) * (2**bits - 1)) & (a >= 0) & (a <= 255) for a, b in zip(elems, snap.elems())]
    vx.prove(f"C19/content/writer_receives_bucket/{lab}", vx.all_of(ok))
    vx.prove(f"C19/content/bucket_untouched/{lab}", (held is not None) and tuple(held.shape) == (2, 2) and str(held.dtype) == str(snap.dtype)
             and vx.all_of([a == b for a, b in zip(symnp.asarray(held).elems(), snap.elems())]))


def _replay_content(kwargs, model):
    import shutil

    from astropy.io import fits
    from pyxel.outputs import ExposureOutputs
    from pyxel.pipelines import DetectionPipeline, Processor

    from .common import make_ccd

    bucket, formats = kwargs["bucket"], kwargs["formats"]
    det = make_ccd(2, 2)
    det.characteristics._adc_bit_resolution = 12
    if bucket == "image":
        vals = [int(model.get(f"img_{i}", 1000 + 300 * i)) for i in range(4)]
        if max(vals) < 256:
            vals = [v + 1000 for v in vals]  # values below 256 survive an 8-bit detour unnoticed
        src = np.array(vals, dtype=np.uint16).reshape(2, 2)
        det.image.array = src.copy()
    else:
        src = np.array([float(model.get(f"pix_{i}", 0.5 + i)) for i in range(4)]).reshape(2, 2)
        det.pixel.array = src.copy()
    tmp = tempfile.mkdtemp(prefix="vx_c19_")
    try:
        out = ExposureOutputs(output_folder=tmp, save_data_to_file=[{f"detector.{bucket}.array": list(formats)}])
        out.create_output_folder()
        tree = out.save_to_file(processor=Processor(detector=det, pipeline=DetectionPipeline()))
        folder = pathlib.Path(out.current_output_folder)
        bad = {}
        for f in sorted(folder.iterdir()):
            ext = f.suffix.lstrip(".")
            if ext == "npy":
                back = np.load(f)
            elif ext == "fits":
                back = fits.getdata(f)
            elif ext == "txt":
                back = np.array([[float(x) for x in line.split("|")] for line in f.read_text().splitlines() if line.strip()])
            else:
                continue
            if back.shape != src.shape or not np.array_equal(np.asarray(back, dtype=float), src.astype(float)) or (ext != "txt" and back.dtype.kind != src.dtype.kind):
                bad[f.name] = {"file_holds": np.asarray(back).tolist(), "dtype": str(back.dtype)}
        return bool(bad), {"bucket": src.tolist(), "format_list": formats, "files_differing_from_the_bucket": bad}
    finally:
        shutil.rmtree(tmp, ignore_errors=True)


def _run_with_outputs(case):
    """Whole exposure through run_mode with outputs configured: every reported lossless file holds exactly the bucket of the result.
    The charge bucket is filled through the particle interface (clusters) and / or as an array, the other buckets as arrays."""
    import shutil

    import vxprobes
    from astropy.io import fits

    import pyxel
    from pyxel.exposure import Exposure, Readout
    from pyxel.outputs import ExposureOutputs
    from pyxel.pipelines import DetectionPipeline, ModelFunction

    from .common import make_ccd

    how, nsteps = case[0], case[1]
    with_header = len(case) > 2 and case[2] == "header"

    def hook(d, tag, kw, rec):
        i = d.pipeline_count
        z = np.zeros(2)
        if how in ("clusters", "both"):
            d.charge.add_charge(particle_type="e", particles_per_cluster=np.array([10.0 + i, 20.0 + 2 * i]), init_energy=z, init_ver_position=np.array([5.0, 15.0]),
                                init_hor_position=np.array([5.0, 25.0]), init_z_position=z, init_ver_velocity=z, init_hor_velocity=z, init_z_velocity=z)
        if how in ("array", "both"):
            d.charge.add_charge_array(np.arange(6.0).reshape(2, 3) + i)
        d.pixel.array = d.pixel.array + np.arange(6.0).reshape(2, 3) * (i + 1)
        d.signal.array = np.full((2, 3), 0.25 * (i + 1))
        d.image.array = (np.arange(6).reshape(2, 3) + 100 * i).astype(np.uint16)
        d.photon.array = np.full((2, 3), 7.0 + i)

    tmp = tempfile.mkdtemp(prefix="vx_c19_")
    vxprobes.reset(hook)
    try:
        out = ExposureOutputs(output_folder=tmp, save_data_to_file=[{"detector.charge.array": ["npy", "fits"]}, {"detector.pixel.array": ["npy", "fits"]}, {"detector.image.array": ["fits", "npy"]},
                                                                    {"detector.signal.array": ["fits", "npy"]}, {"detector.photon.array": ["fits"]}])
        groups = {"charge_generation": [ModelFunction(func="vxprobes.probe", name="gen", arguments={"tag": "gen"})]}
        if with_header:
            # the detector carries the header of a raw unsigned 16-bit frame (model load_image, option include_header)
            src = pathlib.Path(tmp) / "raw_frame.fits"
            hdu = fits.PrimaryHDU(np.arange(6, dtype=np.uint16).reshape(2, 3) + 1000)
            hdu.header["OBSERVER"] = "vx"
            hdu.writeto(src)
            groups["photon_collection"] = [ModelFunction(func="pyxel.models.photon_collection.load_image", name="load_image",
                                                         arguments={"image_file": str(src), "include_header": True, "convert_to_photons": False})]
        pipe = DetectionPipeline(**groups)
        dt = pyxel.run_mode(mode=Exposure(readout=Readout(times=[float(i + 1) for i in range(nsteps)]), outputs=out), detector=make_ccd(2, 3), pipeline=pipe, with_inherited_coords=True)
        folder = pathlib.Path(out.current_output_folder)
        bad = {}
        for f in sorted(folder.iterdir()):
            if f.suffix not in (".npy", ".fits") or not f.name.startswith("detector_"):
                continue
            bucket = f.stem.split("_")[1]
            back = np.load(f) if f.suffix == ".npy" else fits.getdata(f)
            want = np.asarray(dt[f"/bucket/{bucket}"])[-1]
            if back.shape != want.shape or not np.array_equal(np.asarray(back, dtype=float), np.asarray(want, dtype=float)):
                bad[f.name] = {"file_holds": np.asarray(back).tolist(), "result_bucket": want.tolist()}
        n_files = len([f for f in folder.iterdir() if f.suffix in (".npy", ".fits") and f.name.startswith("detector_")])
        if n_files != 9:
            bad["files"] = sorted(f.name for f in folder.iterdir())
        return bad
    finally:
        vxprobes.reset(None)
        shutil.rmtree(tmp, ignore_errors=True)


def _observation_outputs(mode, n1, n2, with_dask):
    """Whole observation (product grid n1 x n2, or the two lists in sequential mode) with outputs configured: every run's reported
    files hold that run's buckets, no file is reported for two runs, and exactly runs x files exist."""
    import shutil
    import warnings

    import vxprobes

    import pyxel
    from pyxel.exposure import Readout
    from pyxel.observation import Observation, ParameterValues
    from pyxel.outputs import ObservationOutputs
    from pyxel.pipelines import DetectionPipeline, ModelFunction

    from .common import make_ccd

    warnings.filterwarnings("ignore")

    def hook(d, tag, kw, rec):
        a, b = float(kw["a"]), float(kw["b"])
        d.pixel.array = np.arange(6.0).reshape(2, 3) + 100.0 * a + 1000.0 * b
        d.signal.array = np.full((2, 3), a + b / 16.0)
        d.image.array = (np.arange(6).reshape(2, 3) + int(10 * a + b)).astype(np.uint16)
        d.photon.array = np.full((2, 3), a)

    tmp = tempfile.mkdtemp(prefix="vx_c19_")
    vxprobes.reset(hook)
    try:
        out = ObservationOutputs(output_folder=tmp, save_data_to_file=[{"detector.pixel.array": ["npy"]}, {"detector.image.array": ["npy"]}])
        pipe = DetectionPipeline(charge_generation=[ModelFunction(func="vxprobes.probe", name="gen", arguments={"tag": "gen", "a": 0.0, "b": 0.0})])
        A, B = [float(i + 1) for i in range(n1)], [float(j + 1) for j in range(n2)]
        obs = Observation(mode=mode, parameters=[ParameterValues(key="pipeline.charge_generation.gen.arguments.a", values=A),
                                                 ParameterValues(key="pipeline.charge_generation.gen.arguments.b", values=B)],
                          readout=Readout(times=[1.0]), outputs=out, with_dask=with_dask)
        dt = pyxel.run_mode(mode=obs, detector=make_ccd(2, 3), pipeline=pipe)
        if hasattr(dt, "load"):
            dt = dt.load()
        folder = pathlib.Path(out.current_output_folder)
        on_disk = sorted(f.name for f in folder.iterdir() if f.suffix == ".npy")
        runs = [(a, b) for a in A for b in B] if mode == "product" else [(a, 0.0) for a in A] + [(0.0, b) for b in B]
        bad = {}
        fmt_dims = ("extension", "data_format")
        reported = {}
        for bucket in ("pixel", "image"):
            try:
                fn = dt[f"/output/{bucket}"]["filename"]
            except KeyError:
                bad[f"no_report_for_{bucket}"] = sorted(dt.groups)
                continue
            run_dims = [d for d in fn.dims if d not in fmt_dims]
            for idx in np.ndindex(*[fn.sizes[d] for d in run_dims]):
                sel = fn.isel(dict(zip(run_dims, idx)))
                a, b = float(sel.coords["a"]) if "a" in sel.coords else None, float(sel.coords["b"]) if "b" in sel.coords else None
                for name in np.asarray(sel).ravel().tolist():
                    name = pathlib.Path(str(name)).name
                    if name in reported:
                        bad.setdefault("reported_for_two_runs", []).append(name)
                    reported[name] = (bucket, a, b)
                    if not (folder / name).exists():
                        bad.setdefault("reported_but_missing", []).append(name)
                        continue
                    if mode == "product" and a is not None and b is not None:
                        back = np.load(folder / name)
                        want = (np.arange(6.0).reshape(2, 3) + 100.0 * a + 1000.0 * b) if bucket == "pixel" else (np.arange(6).reshape(2, 3) + int(10 * a + b))
                        if not np.array_equal(np.asarray(back, dtype=float), np.asarray(want, dtype=float)):
                            bad.setdefault("file_holds_another_run", []).append({"file": name, "run": [a, b], "holds": np.asarray(back).ravel()[:3].tolist(), "expected": np.asarray(want).ravel()[:3].tolist()})
        if len(reported) != 2 * len(runs):
            bad["reported_files"] = {"count": len(reported), "expected": 2 * len(runs)}
        # the files of the runs have pairwise different contents (every run writes its own values)
        seen = {}
        for name in reported:
            if (folder / name).exists():
                seen.setdefault((reported[name][0], np.load(folder / name).tobytes()), []).append(name)
        dup = [v for v in seen.values() if len(v) > 1]
        if dup:
            bad["same_content_reported_for_several_runs"] = dup[:4]
        return bad
    finally:
        vxprobes.reset(None)
        shutil.rmtree(tmp, ignore_errors=True)


def observation_outputs_witness(tier, seed, cases):
    """Observation with outputs, sequential engine and the parallel (dask) engine: witness runs over grid shapes."""
    obligations = []
    for mode, n1, n2, dask in cases:
        bad = _observation_outputs(mode, n1, n2, bool(dask))
        obligations.append({"id": f"C19/witness/observation_files/{mode},{n1}x{n2},{'dask' if dask else 'sequential_engine'}", "verdict": "sat" if bad else "unsat",
                            "info": {"differences": str(bad)[:600]}, "model": {"mode": mode, "n1": n1, "n2": n2, "dask": bool(dask)}, "observed": {}})
    return {"obligations": obligations, "paths": len(cases), "reached": {o["id"]: 1 for o in obligations}}


def outputs_witness(tier, seed, cases):
    """End-to-end witness runs (real writers, real files): the symbolic content obligations above stop at what is handed to the writers."""
    obligations = []
    for case in cases:
        bad = _run_with_outputs(tuple(case))
        hd = case[2] if len(case) > 2 else "no_header"
        obligations.append({"id": f"C19/witness/exposure_files_equal_buckets/{case[0]},steps={case[1]},{hd}", "verdict": "sat" if bad else "unsat", "info": {"differences": str(bad)[:600]},
                            "model": {"how": case[0], "steps": case[1], "header": hd}, "observed": {}})
    return {"obligations": obligations, "paths": len(cases), "reached": {o["id"]: 1 for o in obligations}}


def replay(oid, kwargs, model, data):
    """Real file system in a scratch directory."""
    if data["fn"] == "observation_outputs_witness":
        bad = _observation_outputs(model["mode"], int(model["n1"]), int(model["n2"]), bool(model["dask"]))
        return bool(bad), {"differences": bad}
    if data["fn"] == "outputs_witness":
        bad = _run_with_outputs((model["how"], int(model["steps"]), model.get("header", "no_header")))
        return bool(bad), {"differences": bad}
    if data["fn"] == "content":
        return _replay_content(kwargs, model)
    if data["fn"] == "save_files":
        import shutil

        import pyxel.outputs.utils as ou
        from pyxel.pipelines import DetectionPipeline, Processor

        from .common import make_ccd

        base = SAVE_LISTS[kwargs.get("which", "3")]
        rot = kwargs.get("rot", 0) % len(base)
        files = base[rot:] + base[:rot]
        tmp = tempfile.mkdtemp(prefix="vx_c19_")
        try:
            det = make_ccd(2, 2)
            det.image.array = np.arange(4, dtype=np.uint16).reshape(2, 2)
            det.pixel.array = np.arange(4.0).reshape(2, 2)
            det.signal.array = np.arange(4.0).reshape(2, 2) / 8
            dt = ou.save_to_files(folder=pathlib.Path(tmp), processor=Processor(detector=det, pipeline=DetectionPipeline()), filenames=files, header=None)
            reported = sorted(pathlib.Path(str(x)).name for g in dt.children for x in np.asarray(dt[g]["filename"]).ravel().tolist())
            on_disk = sorted(f.name for f in pathlib.Path(tmp).iterdir())
        finally:
            shutil.rmtree(tmp, ignore_errors=True)
        return reported != sorted(files) or on_disk != sorted(files), {"requested": files, "reported": reported, "written": on_disk}
    import os

    import pyxel.outputs.utils as ou

    if data["fn"] == "writer":
        import pandas as pd

        which = kwargs["which"]
        tmp = tempfile.mkdtemp(prefix="vx_c19_")
        try:
            arr = np.arange(6.0).reshape(2, 3)
            d = pd.DataFrame(arr) if which == "to_csv" else arr
            ext = which.rsplit("_", 1)[-1]
            auto = bool(model.get("with_auto_suffix", False))
            name = f"detector_image_array_5.{ext}" if auto else f"detector_image_array.{ext}"
            if which.startswith("write_to_"):
                name = "detector_image." + ext
            target = os.path.join(tmp, name)
            with open(target, "w") as fh:
                fh.write("precious")
            try:
                if which.startswith("write_to_"):
                    kw = {"filename": pathlib.Path(target), "data": arr, "overwrite": False}
                    if which == "write_to_fits":
                        kw["header"] = None
                    getattr(ou, which)(**kw)
                else:
                    getattr(ou, which)(current_output_folder=pathlib.Path(tmp), data=d, name="detector.image.array", with_auto_suffix=auto, run_number=4 if auto else None)
            except Exception as e:  # noqa: BLE001
                err = repr(e)[:100]
            else:
                err = None
            content = open(target, "rb").read()
            return content != b"precious", {"existing_file_overwritten": content != b"precious", "raised": err, "target": name}
        finally:
            for f in os.listdir(tmp):
                os.remove(os.path.join(tmp, f))
            os.rmdir(tmp)
    if data["fn"] in ("directory", "two_calls") and ("/terminates" in oid or "distinct_calls" in oid or "bounded_attempts" in oid):
        # many starts within one second (frozen clock): earlier runs' directories exist already
        import datetime as _dt
        import shutil
        import signal

        import pyxel.outputs.outputs as oo

        tmp = tempfile.mkdtemp(prefix="vx_c19_")
        custom = "my_" if kwargs.get("custom") else None
        stamp = _dt.datetime(2024, 1, 2, 3, 4, 5)
        real_dt = oo.datetime
        oo.datetime = type("FrozenClock", (), {"now": staticmethod(lambda: stamp)})

        def _alarm(*a):
            raise TimeoutError

        signal.signal(signal.SIGALRM, _alarm)
        got = []
        try:
            signal.alarm(20)
            for _ in range(int(kwargs.get("k", 2)) + 3):
                got.append(oo.create_output_directory(tmp, custom_dir_name=custom).name)
            signal.alarm(0)
            hung = False
        except TimeoutError:
            hung = True
        finally:
            signal.alarm(0)
            oo.datetime = real_dt
            shutil.rmtree(tmp, ignore_errors=True)
        return hung or len(set(got)) != len(got), {"starts_within_one_second": int(kwargs.get("k", 2)) + 3, "directories": got, "did_not_return_within_20s": hung}
    if data["fn"] in ("directory", "two_calls"):
        # a concurrent start: another process creates the candidate directory between this call's checks and its mkdir
        import pyxel.outputs.outputs as oo

        tmp = tempfile.mkdtemp(prefix="vx_c19_")
        real_mkdir = pathlib.Path.mkdir
        state = {"raced": False}

        def racing_mkdir(self, mode=0o777, parents=False, exist_ok=False):
            if str(self).startswith(tmp) and self.name.startswith("run_") and not state["raced"]:
                state["raced"] = True
                real_mkdir(self, mode, True, True)  # the other process wins the race for this name
                (self / "other_run.txt").write_text("belongs to the other run")
            return real_mkdir(self, mode, parents, exist_ok)

        pathlib.Path.mkdir = racing_mkdir
        try:
            got = oo.create_output_directory(tmp)
        finally:
            pathlib.Path.mkdir = real_mkdir
        shared = (got / "other_run.txt").exists()
        import shutil

        shutil.rmtree(tmp, ignore_errors=True)
        return shared, {"returned": got.name, "directory_already_used_by_a_concurrent_run": shared}
    return False, {}
