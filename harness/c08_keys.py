"""C08 — a dotted parameter key addresses exactly one existing setting.

H1 set / get / frame: for every key of a generated processor (all detector types), all leaves hold
symbolic values; Processor.set(key, v) with a symbolic v either raises and changes nothing or
get(key) == v and every other leaf keeps its initial term.
H2 misspelt / truncated / extended keys, undeclared arguments, arguments of a disabled model at
every entry point (set, has, validate_steps, apply_overrides, update_processor): refused before any
model runs, no attribute silently created.
H3 eval_entry: decimal renderings of symbolic integers (vx) and CrossHair on symbolic strings
(bug-hunting only: ast.literal_eval is C code and realises the string).
"""

from __future__ import annotations

import copy
import os
import subprocess
import sys
import tempfile
import time

import numpy as np

import vx
import vxprobes
from vx import core, symnp
from vx.core import unjson
from vx.patching import Patch

PROPERTY = "C08"
LEVEL = "model_checking"
FUNCTIONS = [
    "pyxel.pipelines.processor:_get_obj_att",
    "pyxel.pipelines.processor:Processor.has",
    "pyxel.pipelines.processor:Processor.get",
    "pyxel.pipelines.processor:Processor.set",
    "pyxel.pipelines.model_function:Arguments.__getitem__",
    "pyxel.pipelines.model_function:Arguments.__setitem__",
    "pyxel.pipelines.model_function:Arguments.__getattr__",
    "pyxel.pipelines.model_function:Arguments.__setattr__",
    "pyxel.observation.observation:Observation.validate_steps",
    "pyxel.run:apply_overrides",
    "pyxel.calibration.fitting_datatree:ModelFittingDataTree.update_processor",
    "pyxel.evaluator:eval_entry",
]
STUBS = ["np -> vx.symnp in pipelines.processor, detectors.characteristics; isinstance/float/int shadowed in detectors.environment"]
OUTSIDE = ["eval_entry over arbitrary strings is bug-hunting only (CrossHair realises the string at ast.literal_eval); "
           "literals that denote neither a number, a list nor a string (None, dict, set, bytes) are unspecified by the statement"]
ASSUMPTIONS = ["assigned numeric values are inside the documented range of the addressed field (C12 decides the ranges)"]
EXPLANATION = "frame condition over a snapshot of every settable leaf; bad keys enumerated by mutation of good keys"
DETS = ("ccd", "cmos", "mkid", "apd")

GEO = ["row", "col", "total_thickness", "pixel_vert_size", "pixel_horz_size", "pixel_scale"]
ENV = ["temperature"]
CHAR = ["quantum_efficiency", "charge_to_volt_conversion", "pre_amplification", "full_well_capacity", "adc_bit_resolution"]
APD_CHAR = ["quantum_efficiency", "full_well_capacity", "adc_bit_resolution"]
RANGE = {"row": (1, 50), "col": (1, 50), "total_thickness": (0, 10000), "pixel_vert_size": (0, 1000), "pixel_horz_size": (0, 1000), "pixel_scale": (0, 1000),
         "temperature": (1, 1000), "quantum_efficiency": (0, 1), "charge_to_volt_conversion": (0, 100), "pre_amplification": (0, 10000),
         "full_well_capacity": (0, 1e7), "adc_bit_resolution": (4, 64)}
INTS = {"row", "col", "adc_bit_resolution"}


def bounds(tier):
    return {"detectors": list(DETS), "keys": "every geometry / environment / characteristics field, every model argument and enabled flag of a 3-model pipeline",
            "value_shapes": ["int", "real", "bool", "list of reals"], "eval_entry_strings": "len <= 3 (quick) / 4 (thorough), CrossHair"}


def _make_det(det):
    from pyxel.detectors import (APD, CCD, CMOS, MKID, APDCharacteristics, APDGeometry, CCDGeometry, Characteristics, CMOSGeometry, Environment, MKIDGeometry)

    geo_kw = dict(row=3, col=4, total_thickness=10.0, pixel_vert_size=5.0, pixel_horz_size=5.0, pixel_scale=1.0)
    ch_kw = dict(quantum_efficiency=0.5, charge_to_volt_conversion=1e-6, pre_amplification=10.0, full_well_capacity=1000.0, adc_bit_resolution=16, adc_voltage_range=(0.0, 5.0))
    env = Environment(temperature=100.0)
    if det == "ccd":
        return CCD(geometry=CCDGeometry(**geo_kw), environment=env, characteristics=Characteristics(**ch_kw))
    if det == "cmos":
        return CMOS(geometry=CMOSGeometry(**geo_kw), environment=env, characteristics=Characteristics(**ch_kw))
    if det == "mkid":
        return MKID(geometry=MKIDGeometry(**geo_kw), environment=env, characteristics=Characteristics(**ch_kw))
    return APD(geometry=APDGeometry(**geo_kw), environment=env,
               characteristics=APDCharacteristics(roic_gain=0.8, avalanche_gain=10.0, pixel_reset_voltage=5.0, quantum_efficiency=0.5, full_well_capacity=1000.0,
                                                  adc_bit_resolution=16, adc_voltage_range=(0.0, 5.0)))


def _processor(det, sym=True):
    """Processor whose every settable leaf holds a (symbolic) value; returns (processor, {key: initial value})."""
    from pyxel.pipelines import DetectionPipeline, ModelFunction, Processor

    d = _make_det(det)
    leaves = {}
    n = [0]

    def val(name, kind):
        n[0] += 1
        if not sym:
            return {"int": 7, "real": 0.25, "bool": True}[kind] if kind != "list" else [0.5, 1.5]
        if kind == "int":
            return vx.integer(f"init_{name}")
        if kind == "real":
            return vx.real(f"init_{name}")
        if kind == "bool":
            return vx.boolean(f"init_{name}")
        return [vx.real(f"init_{name}_0"), vx.real(f"init_{name}_1")]

    pipe = DetectionPipeline(
        photon_collection=[ModelFunction(func="vxprobes.probe", name="m1", arguments={"level": val("m1_level", "real"), "n": val("m1_n", "int"), "opt": val("m1_opt", "list")}, enabled=True),
                           ModelFunction(func="vxprobes.probe_a", name="m2", arguments={"level": val("m2_level", "real")}, enabled=True)],
        charge_generation=[ModelFunction(func="vxprobes.probe_b", name="m3", arguments={"flag": val("m3_flag", "bool"), "level": val("m3_level", "real")}, enabled=False)],
    )
    for grp, m, args in (("photon_collection", "m1", ("level", "n", "opt")), ("photon_collection", "m2", ("level",)), ("charge_generation", "m3", ("flag", "level"))):
        for a in args:
            leaves[f"pipeline.{grp}.{m}.arguments.{a}"] = getattr(pipe, grp).models[[x.name for x in getattr(pipe, grp).models].index(m)].arguments[a]
        leaves[f"pipeline.{grp}.{m}.enabled"] = getattr(getattr(pipe, grp), m).enabled
    # detector fields: symbolic values written straight into the private slots (valid by assumption)
    for f in GEO:
        v = val("geo_" + f, "int" if f in INTS else "real")
        if sym:
            lo, hi = RANGE[f]
            vx.assume((v > lo if f not in INTS else v >= lo) & (v <= hi), "pre-state: detector fields hold valid values")
        setattr(d.geometry, "_" + f, v)
        leaves["detector.geometry." + f] = v
    for f in ENV:
        v = val("env_" + f, "real")
        if sym:
            vx.assume((v > 0) & (v <= 1000), "pre-state: detector fields hold valid values")
        setattr(d.environment, "_" + f, v)
        leaves["detector.environment." + f] = v
    for f in (APD_CHAR if det == "apd" else CHAR):
        v = val("char_" + f, "int" if f in INTS else "real")
        if sym:
            lo, hi = RANGE[f]
            vx.assume((v >= lo) & (v <= hi), "pre-state: detector fields hold valid values")
        setattr(d.characteristics, "_" + f, v)
        leaves["detector.characteristics." + f] = v
    return Processor(detector=d, pipeline=pipe), leaves


def _keys(det):
    proc, leaves = None, None
    ks = ["detector.geometry." + f for f in GEO] + ["detector.environment." + f for f in ENV] + ["detector.characteristics." + f for f in (APD_CHAR if det == "apd" else CHAR)]
    ks += ["pipeline.photon_collection.m1.arguments.level", "pipeline.photon_collection.m1.arguments.n", "pipeline.photon_collection.m1.arguments.opt",
           "pipeline.photon_collection.m2.arguments.level", "pipeline.charge_generation.m3.arguments.flag", "pipeline.charge_generation.m3.arguments.level",
           "pipeline.photon_collection.m1.enabled", "pipeline.photon_collection.m2.enabled", "pipeline.charge_generation.m3.enabled"]
    return ks


def tasks(tier, seed):
    out = []
    for det in DETS:
        for k in _keys(det):
            out.append({"fn": "roundtrip", "kwargs": {"det": det, "key": k}, "label": f"set/{det}/{k}"})
    for det in (("ccd", "apd") if tier == "quick" else DETS):
        for entry in ("set", "has", "validate_steps", "apply_overrides", "update_processor"):
            out.append({"fn": "badkeys", "kwargs": {"det": det, "entry": entry}, "label": f"badkey/{det}/{entry}"})
    out.append({"fn": "disabled_model", "kwargs": {}, "label": "disabled_model_argument"})
    for k in _keys("ccd"):
        if k.startswith("pipeline."):
            out.append({"fn": "copies", "kwargs": {"key": k}, "label": f"copies/{k}"})
    out.append({"fn": "list_values", "kwargs": {}, "label": "set/list_values"})
    for n in (1, 2, 3):
        out.append({"fn": "calibration_keys", "kwargs": {"n": n}, "label": f"calibration_keys/n={n}"})
    for ko in ((0, 1, 2), (2, 0, 1), (0, 2, 1), (1, 2, 0), (2, 1, 0), (1, 0, 2), (2, 0), (0, 2)):
        out.append({"fn": "sweep_keys", "kwargs": {"keyorder": list(ko)}, "label": "sweep_keys/" + "".join(map(str, ko))})
    out.append({"fn": "list_pairs", "kwargs": {}, "label": "set/list_pairs"})
    out.append({"fn": "decimal_ints", "kwargs": {}, "label": "eval_entry/decimal_ints"})
    out.append({"fn": "eval_entry_literals", "kwargs": {}, "label": "eval_entry/literals"})
    out.append({"fn": "eval_entry_crosshair", "kwargs": {"maxlen": 3 if tier == "quick" else 4, "timeout": 40 if tier == "quick" else 240}, "label": "eval_entry/crosshair", "kind": "direct"})
    return out


def REQUIRED_REACH(tier):
    return ["C08/set/roundtrip/*", "C08/set/frame/*", "C08/badkey/*", "C08/override/no_new_attribute*", "C08/disabled_model_argument*", "C08/eval_entry/decimal_ints*"]


def _patch(p):
    p.numpy("pyxel.pipelines.processor", "pyxel.detectors.characteristics", "pyxel.detectors.apd.apd_characteristics")
    p.builtins("pyxel.detectors.environment", "isinstance", "float", "int")


def _snapshot(proc, keys):
    snap = {}
    for k in keys:
        try:
            snap[k] = proc.get(k)
        except Exception as e:  # noqa: BLE001
            snap[k] = ("raises", type(e).__name__)
    return snap


def _same(a, b):
    if isinstance(a, list) and isinstance(b, list):
        return len(a) == len(b) and all(_same(x, y) for x, y in zip(a, b))
    if a is b:
        return True
    return a == b


def roundtrip(det, key):
    fld = key.rsplit(".", 1)[-1]
    with Patch() as p:
        _patch(p)
        proc, leaves = _processor(det)
        keys = _keys(det)
        before = _snapshot(proc, keys)
        # value shape by key
        if key.endswith(".enabled") or key.endswith(".flag"):
            v = vx.boolean("v")
        elif key.endswith(".opt"):
            v = [vx.real("v_0"), vx.real("v_1"), vx.real("v_2")]
        elif fld in INTS or key.endswith(".n"):
            v = vx.integer("v")
        else:
            v = vx.real("v")
        if key.startswith("detector.") and fld in RANGE:
            lo, hi = RANGE[fld]
            vx.assume((v > lo) & (v <= hi), "assigned value inside the documented range of the field")
        raised = None
        try:
            proc.set(key, v)
        except Exception as e:  # noqa: BLE001
            raised = e
        after = _snapshot(proc, keys)
    lab = f"{det}/{key}"
    if raised is None:
        vx.prove(f"C08/set/roundtrip/{lab}", _same(after[key], v))
        vx.prove(f"C08/set/frame/{lab}", vx.all_of([_same(after[k], before[k]) for k in keys if k != key]))
    else:
        vx.prove(f"C08/set/reject_leaves_state/{lab}", vx.all_of([_same(after[k], before[k]) for k in keys]))
        vx.prove(f"C08/set/valid_assignment_accepted/{lab}", False, error=repr(raised)[:200])


def copies(key):
    """Keys applied through Processor.replace (what every sweep and every calibration candidate does): the key changes that
    setting in the new processor only - the base processor and sibling copies keep theirs, for enabled and disabled models alike."""
    with Patch() as p:
        _patch(p)
        proc, leaves = _processor("ccd")
        keys = _keys("ccd")
        before = _snapshot(proc, keys)
        if key.endswith(".enabled") or key.endswith(".flag"):
            v, w = vx.boolean("v"), vx.boolean("w")
        elif key.endswith(".opt"):
            v, w = [vx.real("v_0"), vx.real("v_1")], [vx.real("w_0"), vx.real("w_1")]
        elif key.endswith(".n"):
            v, w = vx.integer("v"), vx.integer("w")
        else:
            v, w = vx.real("v"), vx.real("w")
        q = proc.replace({key: v})
        r = proc.replace({key: w})
        base, sq, sr = _snapshot(proc, keys), _snapshot(q, keys), _snapshot(r, keys)
    vx.prove(f"C08/copies/base_unchanged/{key}", vx.all_of([_same(base[k], before[k]) for k in keys]))
    vx.prove(f"C08/copies/first_copy_keeps_its_value/{key}", vx.all_of([_same(sq[k], v if k == key else before[k]) for k in keys]))
    vx.prove(f"C08/copies/second_copy_gets_its_value/{key}", vx.all_of([_same(sr[k], w if k == key else before[k]) for k in keys]))


def calibration_keys(n):
    """Keys of calibration variables: a variable declared with n placeholders assigns a sequence of exactly n values to its key (also
    for n = 1: `values: [_]` is a one-element list, not a scalar), a variable declared as `_` a scalar; nothing else changes."""
    from pyxel.calibration.fitting_datatree import ModelFittingDataTree
    from pyxel.observation import ParameterValues

    with Patch() as p:
        _patch(p)
        p.numpy("pyxel.calibration.fitting_datatree")
        proc, leaves = _processor("ccd")
        keys = _keys("ccd")
        before = _snapshot(proc, keys)
        klist, kscal = "pipeline.photon_collection.m1.arguments.opt", "pipeline.photon_collection.m2.arguments.level"
        vals = [vx.real(f"v_{i}") for i in range(n)]
        s0 = vx.real("v_scalar")
        prob = ModelFittingDataTree.__new__(ModelFittingDataTree)
        prob._variables = [ParameterValues(key=klist, values=["_"] * n, boundaries=(0.0, 1.0)), ParameterValues(key=kscal, values="_", boundaries=(0.0, 1.0))]
        new = prob.update_processor(parameter=symnp.asarray(vals + [s0]), processor=proc)
        got_list, got_scalar = new.get(klist), new.get(kscal)
        after = _snapshot(new, keys)
    try:
        as_list = list(symnp.asarray(got_list).elems()) if not isinstance(got_list, (list, tuple)) else list(got_list)
        is_seq = getattr(got_list, "ndim", 1) == 1 if not isinstance(got_list, (list, tuple)) else True
    except Exception:  # noqa: BLE001
        as_list, is_seq = [], False
    vx.prove(f"C08/calibration/list_key_gets_a_sequence/n={n}", is_seq and len(as_list) == n and vx.all_of([_same(a, b) for a, b in zip(as_list, vals)]), got=repr(got_list)[:100])
    vx.prove(f"C08/calibration/scalar_key_gets_a_scalar/n={n}", _same(got_scalar, s0))
    vx.prove(f"C08/calibration/frame/n={n}", vx.all_of([_same(after[k], before[k]) for k in keys if k not in (klist, kscal)]))


def sweep_keys(keyorder):
    """Keys of a parallel sweep: the value swept for a key ends up in that key's setting and in no other - the dask worker pairs keys
    and values through the dimension-name mapping (shared with C05/worker, asserted here per key)."""
    from .c05_space import WKEYS, _worker_run

    values = {k: vx.integer(f"x{i}") for i, k in enumerate(WKEYS)}
    keys, dn, seen = _worker_run(keyorder, values)
    lab = "".join(map(str, keyorder))
    ok = []
    for k in keys:
        _, grp, name, _, arg = k.split(".")
        got = seen.get(name, {}).get(arg)
        ok.append(got is values[k] or got == values[k])
    vx.prove(f"C08/sweep/value_reaches_its_own_key/{lab}", vx.all_of(ok), seen=repr(seen)[:200])


# ---- bad keys ------------------------------------------------------------------------------------
def _mutations(key):
    parts = key.split(".")
    muts = {
        "typo_last": ".".join(parts[:-1] + [parts[-1] + "z"]),
        "typo_middle": ".".join(parts[:-2] + [parts[-2] + "x", parts[-1]]),
        "truncated": ".".join(parts[:-1]) + ".",
        "extended": key + ".extra",
        "dropped_segment": ".".join(parts[:1] + parts[2:]),
        "swapped": ".".join(parts[:-2] + [parts[-1], parts[-2]]),
    }
    return muts


BAD_BASES = ["detector.geometry.row", "detector.characteristics.quantum_efficiency", "detector.environment.temperature",
             "pipeline.photon_collection.m1.arguments.level", "pipeline.photon_collection.m2.enabled"]


def _attr_names(proc):
    d = proc.detector
    objs = {"geometry": d.geometry, "environment": d.environment, "characteristics": d.characteristics, "detector": d, "pipeline": proc.pipeline, "processor": proc,
            "group": proc.pipeline.photon_collection, "m1": proc.pipeline.photon_collection.m1, "m1args": dict(proc.pipeline.photon_collection.m1.arguments._arguments)}
    return {k: (set(vars(o)) if not isinstance(o, dict) else set(o)) for k, o in objs.items()}


def badkeys(det, entry):
    from pyxel.calibration.fitting_datatree import ModelFittingDataTree
    from pyxel.exposure import Readout
    from pyxel.observation import Observation, ParameterValues
    from pyxel.run import apply_overrides

    results = []
    for base in BAD_BASES:
        for mname, bad in _mutations(base).items():
            with Patch() as p:
                _patch(p)
                proc, leaves = _processor(det, sym=False)
                keys = _keys(det)
                before = _snapshot(proc, keys)
                names_before = _attr_names(proc)
                v = vx.real(f"v_{len(results)}")
                vx.assume((v > 0) & (v <= 1), "assigned value small and positive")
                vxprobes.reset(None)
                rejected = False
                try:
                    if entry == "set":
                        proc.set(bad, v)
                    elif entry == "has":
                        rejected = not proc.has(bad)
                    elif entry == "validate_steps":
                        obs = Observation(parameters=[ParameterValues(key=bad, values=[0.1, 0.2])], readout=Readout(times=[1.0]))
                        obs.validate_steps(proc)
                    elif entry == "apply_overrides":
                        apply_overrides({bad: v}, processor=proc, mode=Observation(parameters=[ParameterValues(key=BAD_BASES[0], values=[1])]))
                    elif entry == "update_processor":
                        prob = ModelFittingDataTree.__new__(ModelFittingDataTree)
                        prob._variables = [ParameterValues(key=bad, values="_", boundaries=(0.0, 1.0))]
                        newp = prob.update_processor(parameter=symnp.asarray([v]), processor=proc)
                        # the candidate processor must not carry a silently created attribute either
                        if _attr_names(newp) != names_before:
                            raise AssertionError("attribute created on the candidate processor")
                except AssertionError:
                    rejected = False
                    results.append((base, mname, bad, "created_on_copy"))
                    continue
                except Exception:  # noqa: BLE001
                    rejected = True
                after = _snapshot(proc, keys)
                names_after = _attr_names(proc)
                results.append((base, mname, bad, "rejected" if rejected else "accepted", names_after == names_before, all(_same(after[k], before[k]) for k in keys)))
    bad_accept = [r for r in results if r[3] != "rejected"]
    created = [r for r in results if len(r) > 4 and not r[4]] + [r for r in results if r[3] == "created_on_copy"]
    changed = [r for r in results if len(r) > 5 and not r[5]]
    vx.prove(f"C08/badkey/{entry}/rejected/{det}", not bad_accept, accepted=[(r[1], r[2]) for r in bad_accept][:6])
    vx.prove(f"C08/override/no_new_attribute/{entry}/{det}", not created, created=[(r[1], r[2]) for r in created][:6])
    vx.prove(f"C08/badkey/{entry}/state_unchanged/{det}", not changed)


def list_values():
    """Assigning a list keeps every element, falsy ones included, and converts textual elements literally."""
    from pyxel.pipelines import DetectionPipeline, ModelFunction, Processor

    key = "pipeline.photon_collection.m1.arguments.opt"
    x = vx.real("x")
    cases = {"falsy": ([0, False, 0.0, x], [0, False, 0.0, x]), "text": (["1", "2.5", "abc", "[1, 2]"], [1, 2.5, "abc", [1, 2]]), "empty_string": ([""], [""]), "mixed": ([60.0, "1e2", "3", 4, x], [60.0, 100.0, 3, 4, x]),
             "nested": ([[1, 2], [3]], [[1, 2], [3]])}
    for name, (given, want) in cases.items():
        pipe = DetectionPipeline(photon_collection=[ModelFunction(func="vxprobes.probe", name="m1", arguments={"opt": None})])
        proc = Processor(detector=_make_det("ccd"), pipeline=pipe)
        proc.set(key, given)
        got = proc.get(key)
        ok = isinstance(got, list) and len(got) == len(want) and all((g is w) or (type(g) is type(w) and g == w) or (vx.is_sym(w) and g is w) for g, w in zip(got, want))
        vx.prove(f"C08/set/list_values/{name}", ok, got=repr(got)[:120])


POOL = [(0, 0), (False, False), (0.0, 0.0), ("", ""), ("1e2", 100.0), ("3", 3), ("abc", "abc"), ("[1, 2]", [1, 2]), (4, 4), (60.5, 60.5), ("-7", -7), ("2.5e-3", 0.0025)]


def _same_typed(g, w):
    return (g is w) or (type(g) is type(w) and g == w)


def list_pairs():
    """Every ordered triple-free combination: lists of two and three elements drawn from a pool of numbers, falsy values,
    numeric text and plain text; each element must come back as what it literally denotes, independently of its neighbours."""
    from pyxel.pipelines import DetectionPipeline, ModelFunction, Processor

    key = "pipeline.photon_collection.m1.arguments.opt"
    pipe = DetectionPipeline(photon_collection=[ModelFunction(func="vxprobes.probe", name="m1", arguments={"opt": None})])
    proc = Processor(detector=_make_det("ccd"), pipeline=pipe)
    sym = vx.real("x")
    bad = []
    n = len(POOL)
    combos = [(i, j) for i in range(n) for j in range(n)] + [(i, j, (i + j + 1) % n) for i in range(n) for j in range(n)]
    for combo in combos:
        given = [POOL[i][0] for i in combo] + [sym]
        want = [POOL[i][1] for i in combo] + [sym]
        proc.set(key, list(given))
        got = proc.get(key)
        if not (isinstance(got, list) and len(got) == len(want) and all(_same_typed(g, w) for g, w in zip(got, want))):
            bad.append(list(combo))
    vx.prove("C08/set/list_values/combinations", not bad, first_bad=str(bad[:3]))


def disabled_model():
    """Sweeping an argument of a disabled model, or an argument the configuration does not declare, is an error."""
    from pyxel.exposure import Readout
    from pyxel.observation import Observation, ParameterValues

    with Patch() as p:
        _patch(p)
        proc, leaves = _processor("ccd", sym=False)
        en = vx.boolean("m1_enabled")
        proc.pipeline.photon_collection.m1.enabled = en
        vxprobes.reset(None)
        obs = Observation(parameters=[ParameterValues(key="pipeline.photon_collection.m1.arguments.level", values=[0.1, 0.2])], readout=Readout(times=[1.0]))
        try:
            obs.validate_steps(proc)
            ok = True
        except (ValueError, KeyError):
            ok = False
        vx.prove("C08/disabled_model_argument/rejected_iff_disabled", ok == bool(en))
        obs2 = Observation(parameters=[ParameterValues(key="pipeline.photon_collection.m2.arguments.undeclared", values=[1, 2])], readout=Readout(times=[1.0]))
        try:
            obs2.validate_steps(proc)
            ok2 = True
        except (ValueError, KeyError):
            ok2 = False
        vx.prove("C08/undeclared_argument/rejected", not ok2)
        # two models may carry the same name in different groups: the key's group segment decides which one is meant
        from pyxel.pipelines import DetectionPipeline, ModelFunction, Processor

        en_a, en_b = vx.boolean("twin_a_enabled"), vx.boolean("twin_b_enabled")
        pipe2 = DetectionPipeline(
            photon_collection=[ModelFunction(func="vxprobes.probe", name="twin", arguments={"level": 1.0}, enabled=en_a)],
            charge_collection=[ModelFunction(func="vxprobes.probe_a", name="twin", arguments={"level": 2.0}, enabled=en_b)])
        proc2 = Processor(detector=proc.detector, pipeline=pipe2)
        for grp, flag in (("photon_collection", en_a), ("charge_collection", en_b)):
            o = Observation(parameters=[ParameterValues(key=f"pipeline.{grp}.twin.arguments.level", values=[0.1, 0.2])], readout=Readout(times=[1.0]))
            try:
                o.validate_steps(proc2)
                okt = True
            except (ValueError, KeyError):
                okt = False
            vx.prove(f"C08/disabled_model_argument/same_name_other_group/{grp}", okt == bool(flag))
        proc2.set("pipeline.charge_collection.twin.arguments.level", 9.0)
        vx.prove("C08/set/same_name_other_group", proc2.get("pipeline.charge_collection.twin.arguments.level") == 9.0 and proc2.get("pipeline.photon_collection.twin.arguments.level") == 1.0)
        for how in ("item", "attr"):
            try:
                if how == "item":
                    proc.pipeline.photon_collection.m2.arguments["undeclared"] = 1
                else:
                    proc.pipeline.photon_collection.m2.arguments.undeclared = 1
                okk = True
            except (KeyError, AttributeError):
                okk = False
            vx.prove(f"C08/undeclared_argument/arguments_refuse/{how}", not okk)


# ---- eval_entry ------------------------------------------------------------------------------------
def decimal_ints():
    from pyxel.evaluator import eval_entry

    n = vx.integer("n")
    vx.assume((n >= -3) & (n <= 12), "small integers rendered in decimal")
    k = vx.concretize_int(n)
    for s, want in ((str(k), k), (f" {k}", None), (f"{k}.5", k + 0.5 if k >= 0 else k - 0.5), (f"[{k}, {k + 1}]", [k, k + 1]), (f"1e{abs(k) % 5}", float(f"1e{abs(k) % 5}"))):
        try:
            got = eval_entry(s)
        except Exception as e:  # noqa: BLE001
            got = e
        if want is not None:
            vx.prove("C08/eval_entry/decimal_ints", (not isinstance(got, Exception)) and got == want and type(got) is type(want), text=s)


SAMPLES = ['abc', 'a b', "it's", 'say "hi"', 'back\\slash', 'nul\x00byte', '"quoted"', "'q'", '"', "'", '\\', 'a"', '"a', "1e3", "0x10", "1_000", "[1, 2", "(1,)", "True", "1+1", "a.b", "", " ", "\n", "#c", "1 #c"]


def eval_entry_literals():
    """Textual values convert to the number / list / string they literally denote, any other text to itself."""
    import ast
    from collections.abc import Sequence
    from numbers import Number

    from pyxel.evaluator import eval_entry

    i = vx.integer("i")
    vx.assume((i >= 0) & (i < len(SAMPLES)), "index into the sample list")
    s = SAMPLES[vx.concretize_int(i)]
    if s == "":
        return
    try:
        lit = ast.literal_eval(s)
        denotes = isinstance(lit, (str, Number, Sequence))
    except Exception:  # noqa: BLE001
        lit, denotes = None, False
    try:
        got = eval_entry(s)
        err = None
    except Exception as e:  # noqa: BLE001
        got, err = None, e
    if denotes:
        vx.prove("C08/eval_entry/literal_or_self/literal", err is None and got == lit and type(got) is type(lit), text=s)
    elif lit is None:
        vx.prove("C08/eval_entry/literal_or_self/self", err is None and got == s, text=s, error=repr(err))


CROSSHAIR_SRC = r'''
import ast
from collections.abc import Sequence
from numbers import Number
from pyxel.evaluator import eval_entry

def _denotes(s: str):
    try:
        v = ast.literal_eval(s)
    except BaseException:
        return False, None
    return isinstance(v, (str, Number, Sequence)), v

def check_eval_entry(s: str) -> bool:
    """
    pre: 0 < len(s) <= MAXLEN
    post: _ == True
    """
    ok, lit = _denotes(s)
    unspecified = False
    try:
        v = ast.literal_eval(s)
        unspecified = not ok
    except BaseException:
        pass
    if unspecified:
        return True
    try:
        got = eval_entry(s)
    except AssertionError:
        return True
    except BaseException:
        return False
    if ok:
        return got == lit and type(got) is type(lit)
    return got == s
'''


def eval_entry_crosshair(tier, seed, maxlen, timeout):
    """CrossHair searches a counterexample string; any it reports is replayed on the real function."""
    t0 = time.time()
    d = tempfile.mkdtemp(prefix="vx_c08_")
    path = os.path.join(d, "c08_eval_entry_contract.py")
    with open(path, "w") as fh:
        fh.write(CROSSHAIR_SRC.replace("MAXLEN", str(maxlen)))
    cmd = [sys.executable, "-m", "crosshair", "check", "--report_all", "--per_condition_timeout", str(timeout), "--per_path_timeout", "5", path]
    try:
        pr = subprocess.run(cmd, capture_output=True, text=True, timeout=timeout + 120, env=dict(os.environ, PYTHONPATH="/repo:" + os.environ.get("PYTHONPATH", "")))
        out = (pr.stdout or "") + (pr.stderr or "")
    except subprocess.TimeoutExpired:
        out = "timeout"
    finally:
        try:
            os.remove(path)
            os.rmdir(d)
        except OSError:
            pass
    rec = {"id": f"C08/eval_entry/literal_or_self/crosshair,len<={maxlen}", "info": {"crosshair": out[-400:], "bug_hunting_only": True}}
    import re

    m = re.search(r"check_eval_entry\((.*?)\) \(which", out, re.S)
    if "false when calling" in out.lower() and m:
        try:
            s = eval(m.group(1).split("=", 1)[-1] if "=" in m.group(1) else m.group(1))  # noqa: S307  (CrossHair prints a Python literal)
        except Exception:  # noqa: BLE001
            s = None
        rec["verdict"] = "sat"
        rec["model"] = {"s": s}
        rec["observed"] = {}
    elif "confirmed over all paths" in out.lower():
        rec["verdict"] = "unsat"
    elif "not confirmed" in out.lower() or "unable to meet precondition" in out.lower():
        # no counterexample found within the budget: bug hunting only, the evidence says so (exhaustive: false)
        rec["verdict"] = "unknown"
        rec["info"]["note"] = "no counterexample within the budget (not exhaustive): inconclusive"
    else:
        # the tool did not report at all (timeout of the subprocess, crash, not installed): inconclusive
        rec["verdict"] = "unknown"
        rec["info"]["note"] = "CrossHair produced no verdict"
    return {"obligations": [rec], "paths": 1, "queries": 1, "solver_time_s": round(time.time() - t0, 1), "reached": {rec["id"]: 1}, "exhaustive": False,
            "cap_hit": "crosshair is bug-hunting only"}


# ---------------------------------------------------------------------------------------------------
def replay(oid, kwargs, model, data):
    fn = data["fn"]
    if fn in ("eval_entry_crosshair", "eval_entry_literals", "decimal_ints"):
        import ast
        from collections.abc import Sequence
        from numbers import Number

        from pyxel.evaluator import eval_entry

        s = model.get("s") if fn == "eval_entry_crosshair" else data.get("info", {}).get("text")
        if s is None:
            return False, {}
        try:
            lit = ast.literal_eval(s)
            denotes = isinstance(lit, (str, Number, Sequence))
            parsed = True
        except Exception:  # noqa: BLE001
            lit, denotes, parsed = None, False, False
        if parsed and not denotes:
            return False, {"unspecified": repr(lit)}
        try:
            got = eval_entry(s)
        except AssertionError:
            return False, {}
        except Exception as e:  # noqa: BLE001
            return True, {"text": s, "raised": repr(e)}
        want = lit if denotes else s
        return not (got == want and type(got) is type(want)), {"text": s, "got": repr(got), "want": repr(want)}
    if fn == "badkeys":
        from pyxel.run import apply_overrides
        from pyxel.observation import Observation, ParameterValues

        det, entry = kwargs["det"], kwargs["entry"]
        info = data.get("info", {})
        lst = info.get("accepted") or info.get("created") or []
        out = []
        for mname, bad in lst:
            proc, _ = _processor(det, sym=False)
            names_before = _attr_names(proc)
            try:
                if entry == "apply_overrides":
                    apply_overrides({bad: 0.5}, processor=proc, mode=Observation(parameters=[ParameterValues(key=BAD_BASES[0], values=[1])]))
                elif entry == "has":
                    if not proc.has(bad):
                        raise KeyError(bad)
                elif entry == "validate_steps":
                    from pyxel.exposure import Readout

                    Observation(parameters=[ParameterValues(key=bad, values=[0.1, 0.2])], readout=Readout(times=[1.0])).validate_steps(proc)
                elif entry == "update_processor":
                    import numpy as np

                    from pyxel.calibration.fitting_datatree import ModelFittingDataTree

                    prob = ModelFittingDataTree.__new__(ModelFittingDataTree)
                    prob._variables = [ParameterValues(key=bad, values="_", boundaries=(0.0, 1.0))]
                    newp = prob.update_processor(parameter=np.array([0.5]), processor=proc)
                    if _attr_names(newp) != names_before:
                        out.append((mname, bad, "attribute created on the candidate processor"))
                        continue
                else:
                    proc.set(bad, 0.5)
                created = _attr_names(proc) != names_before
                out.append((mname, bad, "accepted" + (", attribute created" if created else "")))
            except Exception:  # noqa: BLE001
                pass
        return bool(out), {"accepted_bad_keys": out}
    if fn == "calibration_keys":
        from pyxel.calibration.fitting_datatree import ModelFittingDataTree
        from pyxel.observation import ParameterValues

        import numpy as np

        n = kwargs["n"]
        proc, _ = _processor("ccd", sym=False)
        klist, kscal = "pipeline.photon_collection.m1.arguments.opt", "pipeline.photon_collection.m2.arguments.level"
        prob = ModelFittingDataTree.__new__(ModelFittingDataTree)
        prob._variables = [ParameterValues(key=klist, values=["_"] * n, boundaries=(0.0, 1.0)), ParameterValues(key=kscal, values="_", boundaries=(0.0, 1.0))]
        vals = [0.25 + 0.125 * i for i in range(n)]
        new = prob.update_processor(parameter=np.array(vals + [0.75]), processor=proc)
        got_list, got_scalar = new.get(klist), new.get(kscal)
        ok = np.ndim(got_list) == 1 and len(got_list) == n and list(map(float, got_list)) == vals and np.ndim(got_scalar) == 0 and float(got_scalar) == 0.75
        return (not ok), {"declared_placeholders": n, "list_key_holds": repr(got_list), "scalar_key_holds": repr(got_scalar)}
    if fn == "sweep_keys":
        from .c05_space import WKEYS, _worker_run

        vals = {k: 11 * (i + 1) for i, k in enumerate(WKEYS)}
        keys, dn, seen = _worker_run(kwargs["keyorder"], vals)
        got = {k: seen.get(k.split(".")[2], {}).get(k.split(".")[4]) for k in keys}
        return got != {k: vals[k] for k in keys}, {"swept": {k: vals[k] for k in keys}, "settings_after": got}
    if fn == "copies":
        key = kwargs["key"]
        proc, _ = _processor("ccd", sym=False)
        keys = [k for k in _keys("ccd") if k.startswith("pipeline.")]
        if key.endswith(".enabled") or key.endswith(".flag"):
            v, w = (not proc.get(key)), bool(proc.get(key))
        elif key.endswith(".opt"):
            v, w = [9.5, 8.5], [7.5, 6.5]
        elif key.endswith(".n"):
            v, w = 91, 92
        else:
            v, w = 0.91, 0.92
        before = {k: copy.deepcopy(proc.get(k)) for k in keys}
        q = proc.replace({key: v})
        r = proc.replace({key: w})
        got = {"base": {k: proc.get(k) for k in keys}, "first_copy": {k: q.get(k) for k in keys}, "second_copy": {k: r.get(k) for k in keys}}
        want = {"base": before, "first_copy": {**before, key: v}, "second_copy": {**before, key: w}}
        diff = {who: {k: [repr(got[who][k]), repr(want[who][k])] for k in keys if got[who][k] != want[who][k]} for who in got}
        diff = {who: d for who, d in diff.items() if d}
        return bool(diff), {"differences [got, expected]": diff}
    if fn == "list_pairs":
        from pyxel.pipelines import DetectionPipeline, ModelFunction, Processor

        pipe = DetectionPipeline(photon_collection=[ModelFunction(func="vxprobes.probe", name="m1", arguments={"opt": None})])
        proc = Processor(detector=_make_det("ccd"), pipeline=pipe)
        n = len(POOL)
        xv = float(model.get("x", 0.0))
        for combo in [(i, j) for i in range(n) for j in range(n)] + [(i, j, (i + j + 1) % n) for i in range(n) for j in range(n)]:
            given = [POOL[i][0] for i in combo] + [xv]
            want = [POOL[i][1] for i in combo] + [xv]
            proc.set("pipeline.photon_collection.m1.arguments.opt", list(given))
            got = proc.get("pipeline.photon_collection.m1.arguments.opt")
            if not (isinstance(got, list) and len(got) == len(want) and all(_same_typed(g, w) for g, w in zip(got, want))):
                return True, {"assigned": repr(given), "read_back": repr(got), "denotes": repr(want)}
        return False, {}
    if fn == "list_values":
        from pyxel.pipelines import DetectionPipeline, ModelFunction, Processor

        name = oid.rsplit("/", 1)[-1]
        given, want = {"falsy": ([0, False, 0.0, 1.5], [0, False, 0.0, 1.5]), "text": (["1", "2.5", "abc", "[1, 2]"], [1, 2.5, "abc", [1, 2]]),
                       "empty_string": ([""], [""]), "mixed": ([60.0, "1e2", "3", 4, 1.5], [60.0, 100.0, 3, 4, 1.5]), "nested": ([[1, 2], [3]], [[1, 2], [3]])}[name]
        pipe = DetectionPipeline(photon_collection=[ModelFunction(func="vxprobes.probe", name="m1", arguments={"opt": None})])
        proc = Processor(detector=_make_det("ccd"), pipeline=pipe)
        proc.set("pipeline.photon_collection.m1.arguments.opt", given)
        got = proc.get("pipeline.photon_collection.m1.arguments.opt")
        bad = not (isinstance(got, list) and len(got) == len(want) and all(type(g) is type(w) and g == w for g, w in zip(got, want)))
        return bad, {"assigned": repr(given), "read_back": repr(got)}
    if fn == "disabled_model":
        from pyxel.exposure import Readout
        from pyxel.observation import Observation, ParameterValues
        from pyxel.pipelines import DetectionPipeline, ModelFunction, Processor

        out = {}
        for ea in (True, False):
            for eb in (True, False):
                pipe2 = DetectionPipeline(
                    photon_collection=[ModelFunction(func="vxprobes.probe", name="twin", arguments={"level": 1.0}, enabled=ea)],
                    charge_collection=[ModelFunction(func="vxprobes.probe_a", name="twin", arguments={"level": 2.0}, enabled=eb)])
                proc2 = Processor(detector=_make_det("ccd"), pipeline=pipe2)
                for grp, flag in (("photon_collection", ea), ("charge_collection", eb)):
                    o = Observation(parameters=[ParameterValues(key=f"pipeline.{grp}.twin.arguments.level", values=[0.1, 0.2])], readout=Readout(times=[1.0]))
                    try:
                        o.validate_steps(proc2)
                        ok = True
                    except (ValueError, KeyError):
                        ok = False
                    if ok != flag:
                        out[f"{grp} twin enabled={flag} (other twin enabled={eb if grp == 'photon_collection' else ea})"] = "accepted" if ok else "refused"
        proc, _ = _processor("ccd", sym=False)
        for en in (True, False):
            proc.pipeline.photon_collection.m1.enabled = en
            o = Observation(parameters=[ParameterValues(key="pipeline.photon_collection.m1.arguments.level", values=[0.1, 0.2])], readout=Readout(times=[1.0]))
            try:
                o.validate_steps(proc)
                ok = True
            except (ValueError, KeyError):
                ok = False
            if ok != en:
                out[f"m1 enabled={en}"] = "accepted" if ok else "refused"
        return bool(out), out
    if fn == "roundtrip":
        import numpy as np

        det, key = kwargs["det"], kwargs["key"]
        proc, leaves = _processor(det, sym=False)
        keys = _keys(det)
        before = _snapshot(proc, keys)
        fld = key.rsplit(".", 1)[-1]
        if key.endswith(".enabled") or key.endswith(".flag"):
            v = bool(model.get("v", True))
        elif key.endswith(".opt"):
            v = [float(model.get(f"v_{i}", i)) for i in range(3)]
        elif fld in INTS or key.endswith(".n"):
            v = int(model.get("v", 5))
        else:
            v = float(model.get("v", 0.5))
        try:
            proc.set(key, v)
        except Exception as e:  # noqa: BLE001
            return "valid_assignment_accepted" in oid or "reject" in oid, {"raised": repr(e), "value": v}
        after = _snapshot(proc, keys)
        bad = {k: [repr(before[k]), repr(after[k])] for k in keys if k != key and after[k] != before[k]}
        if after[key] != v:
            bad[key] = ["assigned " + repr(v), "read back " + repr(after[key])]
        return bool(bad), bad
    return False, {}
