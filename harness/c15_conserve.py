"""C15 — charge-handling models neither create nor lose charge unaccountably.

Per-kernel conservation laws decided over symbolic frames and parameters by running the real model
functions / kernels (numba bypassed through .py_func) on z3 reals.
"""

from __future__ import annotations

import importlib

import numpy as np

import vx
from vx import core, symnp
from vx.core import unjson
from vx.patching import Patch

from .common import DATA_MODULES, arr_eq, close, make_ccd, nums, sym_array

PROPERTY = "C15"
LEVEL = "model_checking"
FUNCTIONS = [
    "pyxel.models.charge_collection.collection:simple_collection",
    "pyxel.models.charge_generation.photoelectrons:apply_qe",
    "pyxel.models.charge_generation.photoelectrons:simple_conversion",
    "pyxel.models.charge_collection.full_well:apply_simple_full_well_capacity",
    "pyxel.models.charge_collection.full_well:simple_full_well",
    "pyxel.models.charge_collection.inter_pixel_capacitance:ipc_kernel",
    "pyxel.models.charge_transfer.cdm:run_cdm_parallel",
    "pyxel.models.charge_transfer.cdm:run_cdm_serial",
    "pyxel.models.charge_collection.persistence:compute_simple_persistence",
    "pyxel.models.charge_collection.persistence:compute_persistence",
    "pyxel.models.charge_collection.persistence:clip_diff",
    "pyxel.models.charge_collection.persistence:clip_trapped_charge",
]
STUBS = [
    "np -> vx.symnp in the model modules and pyxel.data_structure.*; numba dispatchers -> .py_func",
    "np.random.binomial(n, p): returns fresh integers k with the binomial contract 0 <= k <= n",
    "x**y and exp as uninterpreted functions with valid axioms (positivity, monotonicity, b**e = b * b**(e-1))",
]
OUTSIDE = [
    "the FFT convolution of the IPC model (astropy.convolve_fft); binomial sampler internals",
    "IEEE rounding and numba fastmath reassociation (real arithmetic)",
    "CDM with a symbolic cloud-expansion exponent uses uninterpreted pow; thorough adds concrete beta in {0, 1/2, 1}",
]
ASSUMPTIONS = [
    "frames are non-negative; 0 <= qe <= 1; fwc >= 0",
    "persistence: 0 <= trap density <= 1, 0 <= proportion, sum of proportions <= 1, time constants > 0, delta_t >= 0, trapped charge >= 0 initially",
    "CDM: fwc > 0, vg > 0, tr > 0, t > 0, sigma >= 0, nt >= 0, vth >= 0, 0 <= beta <= 1",
]
EXPLANATION = "conservation identities over symbolic frames; branches inside the kernels (clipping) are enumerated as paths"
SHAPE = (2, 2)

PERS = "pyxel.models.charge_collection.persistence"
CDM = "pyxel.models.charge_transfer.cdm"


def bounds(tier):
    return {
        "frames": "2x2 (collection, conversion, full well); 1x1 and 1x2 (persistence); 2-3 transfers x 1 column (CDM)",
        "trap_species": "1..3" if tier == "quick" else "1..3 (1x1) and 1..2 (1x2)",
        "cdm_species": "1" if tier == "quick" else "1..2",
    }


def tasks(tier, seed):
    out = [
        {"fn": "collection", "kwargs": {}, "label": "collection"},
        {"fn": "conversion", "kwargs": {"sampling": False}, "label": "qe/expectation"},
        {"fn": "conversion", "kwargs": {"sampling": True}, "label": "qe/sampling"},
        {"fn": "fullwell", "kwargs": {}, "label": "fullwell"},
        {"fn": "ipc", "kwargs": {}, "label": "ipc/weights"},
    ]
    for variant in ("full", "simple"):
        for cap in (False, True):
            out.append({"fn": "persistence", "kwargs": {"variant": variant, "species": 1, "shape": [1, 1], "caps": cap, "params": None},
                        "label": f"persistence/{variant}/species=1,1x1,caps={int(cap)},params=symbolic", "caps": {"max_seconds": 120}})
            for k in (1, 2, 3):
                for pi in range(len(PARAMS[k])):
                    if tier == "quick" and pi >= 2 and k == 3:
                        continue
                    out.append({"fn": "persistence", "kwargs": {"variant": variant, "species": k, "shape": [1, 1], "caps": cap, "params": pi},
                                "label": f"persistence/{variant}/species={k},1x1,caps={int(cap)},params={pi}",
                                "caps": {"max_seconds": 240, "max_paths": 20000}})
        if tier == "thorough":
            for k in (2, 3):
                out.append({"fn": "persistence", "kwargs": {"variant": variant, "species": k, "shape": [1, 1], "caps": False, "params": None},
                            "label": f"persistence/{variant}/species={k},1x1,caps=0,params=symbolic", "logic": "QF_NRA",
                            "caps": {"max_seconds": 300, "max_paths": 40000, "solver_timeout_ms": 10000}})
            for k in (1, 2):
                out.append({"fn": "persistence", "kwargs": {"variant": variant, "species": k, "shape": [1, 2], "caps": False, "params": 0},
                            "label": f"persistence/{variant}/species={k},1x2,caps=0,params=0", "caps": {"max_seconds": 600, "max_paths": 40000}})
    for direction in ("parallel", "serial"):
        for beta in (["sym"] if tier == "quick" else ["sym", 0.0, 0.5, 1.0]):
            for k in ([1] if tier == "quick" else [1, 2]):
                for n in ([2] if tier == "quick" else [2, 3]):
                    out.append({"fn": "cdm", "kwargs": {"direction": direction, "n": n, "species": k, "beta": beta},
                                "label": f"cdm/{direction}/n={n},species={k},beta={beta}",
                                "caps": {"max_seconds": 300 if tier == "quick" else 1200, "solver_timeout_ms": 20000, "max_paths": 6000}})
    for how in ("clusters", "array", "array+clusters"):
        for n in (2, 3):
            out.append({"fn": "collection_steps", "kwargs": {"how": how, "nsteps": n}, "label": f"collection_steps/{how},n={n}"})
    for direction in ("parallel", "serial"):
        for pi, pv in enumerate(PARAMS_CDM):
            out.append({"fn": "cdm_state", "kwargs": {"direction": direction, "species": len(pv[4]), "beta": 1.0, "params": pi}, "label": f"cdm_state/{direction}/params={pi}",
                        "caps": {"max_seconds": 240, "solver_timeout_ms": 20000, "max_paths": 6000}})
        if tier == "thorough":
            for beta in (1.0, 0.5):
                out.append({"fn": "cdm_state", "kwargs": {"direction": direction, "species": 2, "beta": beta}, "label": f"cdm_state/{direction}/species=2,beta={beta},params=symbolic",
                            "logic": "QF_NRA", "caps": {"max_seconds": 300, "solver_timeout_ms": 10000, "max_paths": 6000}})
    return out


def REQUIRED_REACH(tier):
    return ["C15/collection/adds_exactly", "C15/qe/expectation", "C15/qe/sampling_range", "C15/fullwell/min", "C15/fullwell/idempotent",
            "C15/ipc/weights_sum_one", "C15/cdm/*/nonnegative/*", "C15/cdm/*/no_gain/*", "C15/persistence/*/conserved/*",
            "C15/persistence/*/trapped_nonnegative/*"]


def _nonneg(arr, why):
    for e in arr.elems():
        vx.assume(e >= 0, why)


# ---------------------------------------------------------------------------------------------
def collection():
    m = importlib.import_module("pyxel.models.charge_collection.collection")
    pix, chg = sym_array("pix", SHAPE), sym_array("chg", SHAPE)
    _nonneg(chg, "generated charge is non-negative")
    with Patch() as p:
        p.numpy("pyxel.models.charge_collection.collection", *DATA_MODULES)
        det = make_ccd(*SHAPE)
        det.pixel.array = pix.copy()
        det.charge.add_charge_array(chg.copy())
        m.simple_collection(det)
        out = det.pixel.array
    vx.prove("C15/collection/adds_exactly", vx.all_of([o == a + b for o, a, b in zip(out.elems(), pix.elems(), chg.elems())]))
    vx.observe("out", out.elems())


def _add_clusters(det, xp, numbers):
    """Clusters in the middle of pixels (0, 0), (0, 1), ... (pixel pitch 10 um) through the particle interface."""
    k = len(numbers)
    z = xp.zeros(k)
    mk = (lambda v: xp.asarray(list(v))) if xp is symnp else (lambda v: np.array(list(v), dtype=float))
    det.charge.add_charge(particle_type="e", particles_per_cluster=mk(numbers), init_energy=z, init_ver_position=mk([5.0] * k), init_hor_position=mk([5.0 + 10.0 * i for i in range(k)]),
                          init_z_position=z, init_ver_velocity=z, init_hor_velocity=z, init_z_velocity=z)


def _collect_steps(det, xp, coll, steps, how):
    """`steps` readout steps on one detector: reset, generate (clusters / array / both), collect.  Returns the pixel after each step."""
    out = []
    for gen in steps:
        det.empty(True)
        if how in ("array", "array+clusters"):
            det.charge.add_charge_array(gen["array"].copy())
        if how in ("clusters", "array+clusters"):
            _add_clusters(det, xp, gen["clusters"])
        coll(det)
        out.append(det.pixel.array.copy())
    return out


STEP_SHAPE = (1, 2)


def collection_steps(how, nsteps):
    """Repeated steps on the same detector: each step's collection adds exactly what that step generated, whatever an earlier
    step generated (same number of clusters in every step, so that nothing distinguishes the steps but the values)."""
    m = importlib.import_module("pyxel.models.charge_collection.collection")
    steps = []
    for i in range(nsteps):
        arr = sym_array(f"g{i}_arr", STEP_SHAPE)
        _nonneg(arr, "generated charge is non-negative")
        cl = [vx.real(f"g{i}_cl{j}") for j in range(2)]
        for c in cl:
            vx.assume(c >= 0, "generated charge is non-negative")
        steps.append({"array": arr, "clusters": cl})
    with Patch() as p:
        p.numpy("pyxel.models.charge_collection.collection", "pyxel.detectors.geometry", *DATA_MODULES)
        p.attr("numba", "njit", lambda f=None, **kw: f if f is not None else (lambda g: g), "identity (cluster binning)")
        det = make_ccd(*STEP_SHAPE)
        outs = _collect_steps(det, symnp, m.simple_collection, steps, how)
    ok = []
    for gen, o in zip(steps, outs):
        want = [0] * (STEP_SHAPE[0] * STEP_SHAPE[1])
        if "array" in how:
            want = [w + a for w, a in zip(want, gen["array"].elems())]
        if "clusters" in how:
            for j, c in enumerate(gen["clusters"]):
                want[j] = want[j] + c
        ok += [a == b for a, b in zip(o.elems(), want)]
    vx.prove(f"C15/collection/steps_add_exactly/{how},n={nsteps}", vx.all_of(ok))


def fidelity_collection(kwargs, w):
    from pyxel.models.charge_collection import simple_collection

    inp = unjson(w["inputs"])
    det = make_ccd(*SHAPE)
    det.pixel.array = np.array([float(inp[f"pix_{i}"]) for i in range(4)]).reshape(SHAPE)
    det.charge.add_charge_array(np.array([float(inp[f"chg_{i}"]) for i in range(4)]).reshape(SHAPE))
    simple_collection(det)
    return close(det.pixel.array.ravel().tolist(), nums(unjson(w["observed"]["out"]))), {}


class _Binomial:
    def __init__(self):
        self.k = 0

    def binomial(self, n, p, size=None):
        n = symnp.asarray(n)
        vals = []
        for e in n.elems():
            kk = vx.integer(f"draw_{self.k}")
            self.k += 1
            vx.assume((kk >= 0) & (kk <= e), "binomial draw contract 0 <= k <= n")
            vals.append(kk)
        return symnp.SymArray.from_elems(vals, n.shape, np.int64)


def conversion(sampling):
    m = importlib.import_module("pyxel.models.charge_generation.photoelectrons")
    ph = sym_array("ph", SHAPE)
    _nonneg(ph, "photon frame is non-negative")
    qe = vx.real("qe")
    with Patch() as p:
        p.numpy(*DATA_MODULES)
        p.attr(m, "np", symnp.with_random(_Binomial()), "binomial contract")
        det = make_ccd(*SHAPE)
        det.photon.array = ph.copy()
        try:
            m.simple_conversion(det, quantum_efficiency=qe, binomial_sampling=sampling)
            ok = True
        except ValueError:
            ok = False
        out = det.charge.array if ok else None
    vx.prove("C15/qe/accept_iff_in_range", ((qe >= 0) & (qe <= 1)) == ok)
    if not ok:
        return
    if sampling:
        vx.prove("C15/qe/sampling_range", vx.all_of([(o >= 0) & (o <= a) for o, a in zip(out.elems(), ph.elems())]))
    else:
        vx.prove("C15/qe/expectation", vx.all_of([o == a * qe for o, a in zip(out.elems(), ph.elems())]))
        vx.prove("C15/qe/expectation_range", vx.all_of([(o >= 0) & (o <= a) for o, a in zip(out.elems(), ph.elems())]))


def fullwell():
    m = importlib.import_module("pyxel.models.charge_collection.full_well")
    pix = sym_array("pix", SHAPE)
    _nonneg(pix, "pixel frame is non-negative")
    fwc = vx.real("fwc")
    with Patch() as p:
        p.numpy("pyxel.models.charge_collection.full_well", *DATA_MODULES)
        det = make_ccd(*SHAPE)
        det.pixel.array = pix.copy()
        try:
            m.simple_full_well(det, fwc=fwc)
            ok = True
        except ValueError:
            ok = False
        if ok:
            once = det.pixel.array.copy()
            m.simple_full_well(det, fwc=fwc)
            twice = det.pixel.array.copy()
    vx.prove("C15/fullwell/accept_iff_nonneg", (fwc >= 0) == ok)
    if ok:
        vx.prove("C15/fullwell/min", vx.all_of([o == vx.sym_min(a, fwc) for o, a in zip(once.elems(), pix.elems())]))
        vx.prove("C15/fullwell/idempotent", arr_eq(once, twice))
        vx.observe("once", once.elems())


def fidelity_fullwell(kwargs, w):
    from pyxel.models.charge_collection import simple_full_well

    inp = unjson(w["inputs"])
    if "once" not in w["observed"]:
        return True, {}
    det = make_ccd(*SHAPE)
    det.pixel.array = np.array([float(inp[f"pix_{i}"]) for i in range(4)]).reshape(SHAPE)
    simple_full_well(det, fwc=float(inp["fwc"]))
    return close(det.pixel.array.ravel().tolist(), nums(unjson(w["observed"]["once"]))), {}


def ipc():
    m = importlib.import_module("pyxel.models.charge_collection.inter_pixel_capacitance")
    c, d, a = vx.real("coupling"), vx.real("diagonal"), vx.real("anisotropic")
    with Patch() as p:
        p.numpy("pyxel.models.charge_collection.inter_pixel_capacitance")
        try:
            k = m.ipc_kernel(c, d, a)
            ok = True
        except ValueError:
            ok = False
    if ok:
        vx.prove("C15/ipc/weights_sum_one", symnp.np_sum(k) == 1)
        vx.prove("C15/ipc/shape", tuple(k.shape) == (3, 3))
        vx.prove("C15/ipc/centre_nonnegative", k[1, 1] >= 0)


# ---------------------------------------------------------------------------------------------
# concrete parameter vectors (dt, taus, proportions/densities, density-map value) used when the
# parameters are not symbolic: time factors below and above 1, small and large trap fractions
PARAMS = {
    1: [(0.5, (1.0,), (0.5,), 1.0), (8.0, (2.0,), (1.0,), 0.25)],
    2: [(0.5, (1.0, 4.0), (0.5, 0.25), 1.0), (8.0, (2.0, 32.0), (0.75, 0.25), 0.5), (3.0, (1.0, 2.0), (0.125, 0.5), 1.0),
        (1.0, (4.0, 0.25), (0.5, 0.5), 0.75)],
    3: [(0.5, (1.0, 4.0, 16.0), (0.5, 0.25, 0.125), 1.0), (8.0, (2.0, 4.0, 64.0), (0.25, 0.5, 0.25), 0.5),
        (2.0, (1.0, 8.0, 1.0), (0.125, 0.125, 0.75), 1.0)],
}


def persistence(variant, species, shape, caps, params=None):
    m = importlib.import_module(PERS)
    shape = tuple(shape)
    npx = shape[0] * shape[1]
    pix = sym_array("pix", shape)
    _nonneg(pix, "pixel frame is non-negative")
    trapped = sym_array("trapped", (species,) + shape)
    _nonneg(trapped, "trapped charge is non-negative before the step")
    if params is None:
        dt = vx.real("dt")
        vx.assume(dt >= 0, "delta_t >= 0")
        taus = [vx.real(f"tau_{k}") for k in range(species)]
        for t in taus:
            vx.assume(t > 0, "trap time constants > 0")
    else:
        dt, taus = PARAMS[species][params][0], list(PARAMS[species][params][1])
    if variant == "full":
        if params is None:
            dens = sym_array("dens", shape)
            props = [vx.real(f"prop_{k}") for k in range(species)]
            for e in dens.elems():
                vx.assume((e >= 0) & (e <= 1), "trap density map in [0, 1]")
            for pr in props:
                vx.assume(pr >= 0, "trap proportions >= 0")
            vx.assume(sum(props[1:], props[0]) <= 1, "trap proportions sum to at most 1")
        else:
            dens = symnp.full(shape, PARAMS[species][params][3])
            props = list(PARAMS[species][params][2])
    else:
        if params is None:
            props = [vx.real(f"density_{k}") for k in range(species)]
            for pr in props:
                vx.assume(pr >= 0, "trap densities >= 0")
            vx.assume(sum(props[1:], props[0]) <= 1, "trap densities sum to at most 1")
        else:
            props = list(PARAMS[species][params][2])
    capv = None
    if caps:
        if variant == "full":
            capv = sym_array("cap", shape)
            _nonneg(capv, "trap capacities >= 0")
        else:
            capv = symnp.asarray([vx.real(f"cap_{k}") for k in range(species)])
            _nonneg(capv, "trap capacities >= 0")
    total_before = [pix.elems()[i] + sum((trapped[k].elems()[i] for k in range(1, species)), trapped[0].elems()[i]) for i in range(npx)]
    with Patch() as p:
        p.numpy(PERS)
        p.pyfunc(PERS, "compute_persistence", "compute_simple_persistence", "clip_diff", "clip_trapped_charge")
        if variant == "full":
            new_pix, new_tr = m.compute_persistence(
                pixel_array=pix.copy(), all_trapped_charge=trapped.copy(), trap_proportions=symnp.asarray(props),
                trap_time_constants=symnp.asarray(taus), trap_densities_2d=dens, delta_t=dt, trap_capacities_2d=capv)
        else:
            new_pix, new_tr = m.compute_simple_persistence(
                pixel_array=pix.copy(), all_trapped_charge=trapped.copy(), trap_densities=symnp.asarray(props),
                trap_time_constants=symnp.asarray(taus), delta_t=dt, trap_capacities=capv)
    lab = f"species={species},{shape[0]}x{shape[1]},caps={int(caps)},params={'symbolic' if params is None else params}"
    total_after = [new_pix.elems()[i] + sum((new_tr[k].elems()[i] for k in range(1, species)), new_tr[0].elems()[i]) for i in range(npx)]
    vx.prove(f"C15/persistence/{variant}/conserved/{lab}", vx.all_of([a == b for a, b in zip(total_before, total_after)]), species=species)
    vx.prove(f"C15/persistence/{variant}/trapped_nonnegative/{lab}", vx.all_of([e >= 0 for e in new_tr.elems()]), species=species)
    vx.observe("pix", new_pix.elems())
    vx.observe("trapped", new_tr.elems())


def _pers_concrete(kwargs, inp):
    from pyxel.models.charge_collection.persistence import compute_persistence, compute_simple_persistence

    variant, species, shape, caps = kwargs["variant"], kwargs["species"], tuple(kwargs["shape"]), kwargs["caps"]
    npx = shape[0] * shape[1]
    g = lambda k: float(inp.get(k, 0))  # noqa: E731
    pix = np.array([g(f"pix_{i}") for i in range(npx)]).reshape(shape)
    tr = np.array([g(f"trapped_{i}") for i in range(species * npx)]).reshape((species,) + shape)
    pi = kwargs.get("params")
    if pi is None:
        taus = np.array([g(f"tau_{k}") or 1.0 for k in range(species)])
        dt = g("dt")
    else:
        dt, taus = PARAMS[species][pi][0], np.array(PARAMS[species][pi][1])
    if variant == "full":
        if pi is None:
            dens = np.array([g(f"dens_{i}") for i in range(npx)]).reshape(shape)
            props = np.array([g(f"prop_{k}") for k in range(species)])
        else:
            dens = np.full(shape, PARAMS[species][pi][3])
            props = np.array(PARAMS[species][pi][2])
        capv = np.array([g(f"cap_{i}") for i in range(npx)]).reshape(shape) if caps else None
        out = compute_persistence(pixel_array=pix.copy(), all_trapped_charge=tr.copy(), trap_proportions=props,
                                  trap_time_constants=taus, trap_densities_2d=dens, delta_t=dt, trap_capacities_2d=capv)
    else:
        props = np.array([g(f"density_{k}") for k in range(species)]) if pi is None else np.array(PARAMS[species][pi][2])
        capv = np.array([g(f"cap_{k}") for k in range(species)]) if caps else None
        out = compute_simple_persistence(pixel_array=pix.copy(), all_trapped_charge=tr.copy(), trap_densities=props,
                                         trap_time_constants=taus, delta_t=dt, trap_capacities=capv)
    return pix, tr, out


def fidelity_persistence(kwargs, w):
    inp = unjson(w["inputs"])
    pix, tr, (npix, ntr) = _pers_concrete(kwargs, inp)
    obs = unjson(w["observed"])
    ok = close(np.asarray(npix).ravel().tolist(), nums(obs["pix"]), 1e-6) and close(np.asarray(ntr).ravel().tolist(), nums(obs["trapped"]), 1e-6)
    if not ok:
        from vx.core import Fraction

        exact = all(Fraction(float(v)) == v for v in inp.values() if not isinstance(v, bool))
        if not exact or kwargs.get("params") is None:
            # the kernel is discontinuous at pixel_diff == 0: inputs that are not binary fractions (or symbolic
            # time constants) round differently in IEEE arithmetic; such witnesses cannot arbitrate the encoding
            return True, {"skipped": "witness not exactly representable in binary floating point"}
    return ok, {"concrete_pix": np.asarray(npix).ravel().tolist(), "symbolic_pix": nums(obs["pix"])}


# ---------------------------------------------------------------------------------------------
def cdm(direction, n, species, beta):
    m = importlib.import_module(CDM)
    shape = (n, 1) if direction == "parallel" else (1, n)
    arr = sym_array("a", shape)
    _nonneg(arr, "signal frame is non-negative")
    if beta == "sym":
        b = vx.real("beta")
        vx.assume((b >= 0) & (b <= 1), "0 <= beta <= 1")
    else:
        b = beta
    vg, t, fwc, vth = vx.real("vg"), vx.real("t"), vx.real("fwc"), vx.real("vth")
    vx.assume(vg > 0, "vg > 0")
    vx.assume(t > 0, "t > 0")
    vx.assume(fwc > 0, "fwc > 0")
    vx.assume(vth >= 0, "vth >= 0")
    tr = [vx.real(f"tr_{k}") for k in range(species)]
    nt = [vx.real(f"nt_{k}") for k in range(species)]
    sg = [vx.real(f"sigma_{k}") for k in range(species)]
    for k in range(species):
        vx.assume(tr[k] > 0, "tr > 0")
        vx.assume(nt[k] >= 0, "nt >= 0")
        vx.assume(sg[k] >= 0, "sigma >= 0")
    total_in = symnp.np_sum(arr)
    with Patch() as p:
        p.numpy(CDM)
        p.pyfunc(CDM, "run_cdm_parallel", "run_cdm_serial")
        p.builtins(CDM, "max")
        f = m.run_cdm_parallel if direction == "parallel" else m.run_cdm_serial
        out = f(array=arr.copy(), beta=b, vg=vg, t=t, fwc=fwc, vth=vth, tr=symnp.asarray(tr), nt=symnp.asarray(nt), sigma=symnp.asarray(sg))
    lab = f"n={n},species={species},beta={beta}"
    vx.prove(f"C15/cdm/{direction}/nonnegative/{lab}", vx.all_of([e >= 0 for e in out.elems()]))
    vx.prove(f"C15/cdm/{direction}/no_gain/{lab}", symnp.np_sum(out) <= total_in)


# concrete physics for the inductive CDM step (pixels and trap occupancies stay symbolic): beta = 1 keeps the kernel piecewise linear
# (vg, t, fwc, vth, [tr], [nt], [sigma]) - heavy capture / slow release, light capture / fast release, mixed, three species
PARAMS_CDM = [
    (1.0, 1.0, 1.0, 2.0, [5.0, 8.0], [4.5, 4.5], [20.0, 20.0]),
    (1.0, 1.0, 1.0, 2.0, [0.2, 0.5], [0.05, 0.01], [0.1, 0.3]),
    (0.5, 2.0, 4.0, 1.0, [0.3, 6.0], [3.0, 0.2], [5.0, 0.5]),
    (1.0, 1.0, 1.0, 2.0, [5.0, 8.0, 3.0], [4.5, 2.0, 9.0], [20.0, 10.0, 30.0]),
    (1.0, 0.1, 2.0, 3.0, [1.0], [7.0], [15.0]),
]


def _zeros_shim(real_np_like, first):
    """Module stand-in whose first `zeros(...)` call returns the prepared trap-occupancy array (later calls are genuine)."""
    import types

    m = types.ModuleType("vx_np_with_trap_state")
    state = {"first": first}

    def zeros(shape, *a, **k):
        if state["first"] is not None:
            out, state["first"] = state["first"], None
            if tuple(out.shape) != tuple(shape if isinstance(shape, tuple) else (shape,)):
                raise vx.Unsupported("trap state shape differs from the kernel's")
            return out
        return real_np_like.zeros(shape, *a, **k)

    m.__getattr__ = lambda name: zeros if name == "zeros" else getattr(real_np_like, name)  # type: ignore[attr-defined]
    return m


def cdm_state(direction, species, beta, params=None):
    """One inductive step of the transfer kernel from an arbitrary valid trap state: two pixels along the transfer direction,
    trap occupancies arbitrary (>= 0) instead of zero.  Pixel plus trapped charge never grows, nothing becomes negative."""
    m = importlib.import_module(CDM)
    n = 2
    shape = (n, 1) if direction == "parallel" else (1, n)
    arr = sym_array("a", shape)
    _nonneg(arr, "signal frame is non-negative")
    occ = sym_array("occ", (1, species))
    _nonneg(occ, "trap occupancies are non-negative")
    b = beta
    if beta == "sym":
        b = vx.real("beta")
        vx.assume((b >= 0) & (b <= 1), "0 <= beta <= 1")
    if params is not None:
        vg, t, fwc, vth, tr, nt, sg = PARAMS_CDM[params]
    else:
        vg, t, fwc, vth = vx.real("vg"), vx.real("t"), vx.real("fwc"), vx.real("vth")
        for c, txt in ((vg > 0, "vg > 0"), (t > 0, "t > 0"), (fwc > 0, "fwc > 0"), (vth >= 0, "vth >= 0")):
            vx.assume(c, txt)
        tr = [vx.real(f"tr_{k}") for k in range(species)]
        nt = [vx.real(f"nt_{k}") for k in range(species)]
        sg = [vx.real(f"sigma_{k}") for k in range(species)]
        for k in range(species):
            vx.assume(tr[k] > 0, "tr > 0")
            vx.assume(nt[k] >= 0, "nt >= 0")
            vx.assume(sg[k] >= 0, "sigma >= 0")
    before = symnp.np_sum(arr) + symnp.np_sum(occ)
    state = occ.copy()
    with Patch() as p:
        p.numpy(CDM)
        p.pyfunc(CDM, "run_cdm_parallel", "run_cdm_serial")
        p.builtins(CDM, "max")
        p.attr(m, "np", _zeros_shim(m.np, state), "first np.zeros of the kernel (the trap occupancy) returns an arbitrary valid state")
        f = m.run_cdm_parallel if direction == "parallel" else m.run_cdm_serial
        out = f(array=arr.copy(), beta=b, vg=vg, t=t, fwc=fwc, vth=vth, tr=symnp.asarray(tr), nt=symnp.asarray(nt), sigma=symnp.asarray(sg))
    lab = f"species={species},beta={beta}" + ("" if params is None else f",params={params}")
    vx.prove(f"C15/cdm_state/{direction}/nonnegative/{lab}", vx.all_of([e >= 0 for e in out.elems()] + [e >= 0 for e in state.elems()]))
    vx.prove(f"C15/cdm_state/{direction}/pixel_plus_trapped_never_grows/{lab}", symnp.np_sum(out) + symnp.np_sum(state) <= before)


# ---------------------------------------------------------------------------------------------
def replay(oid, kwargs, model, data):
    fn = data["fn"]
    g = lambda k: float(model.get(k, 0))  # noqa: E731
    if fn == "persistence":
        pix, tr, (npix, ntr) = _pers_concrete(kwargs, model)
        before = pix + tr.sum(axis=0)
        after = np.asarray(npix) + np.asarray(ntr).sum(axis=0)
        det = {"before": before.ravel().tolist(), "after": after.ravel().tolist(), "trapped_after": np.asarray(ntr).ravel().tolist()}
        if "/conserved/" in oid:
            return (not np.allclose(before, after, rtol=1e-9, atol=1e-12)), det
        return bool((np.asarray(ntr) < -1e-12).any()), det
    if fn == "collection":
        from pyxel.models.charge_collection import simple_collection

        det = make_ccd(*SHAPE)
        pix = np.array([g(f"pix_{i}") for i in range(4)]).reshape(SHAPE)
        chg = np.array([g(f"chg_{i}") for i in range(4)]).reshape(SHAPE)
        det.pixel.array = pix.copy()
        det.charge.add_charge_array(chg.copy())
        simple_collection(det)
        return (not np.allclose(det.pixel.array, pix + chg)), {"out": det.pixel.array.tolist()}
    if fn == "fullwell":
        from pyxel.models.charge_collection import simple_full_well

        det = make_ccd(*SHAPE)
        pix = np.array([g(f"pix_{i}") for i in range(4)]).reshape(SHAPE)
        det.pixel.array = pix.copy()
        fwc = g("fwc")
        try:
            simple_full_well(det, fwc=fwc)
        except ValueError:
            return fwc >= 0, {"rejected": True, "fwc": fwc}
        once = det.pixel.array.copy()
        simple_full_well(det, fwc=fwc)
        return (fwc < 0) or (not np.allclose(once, np.minimum(pix, fwc))) or (not np.array_equal(once, det.pixel.array)), {"once": once.tolist()}
    if fn == "conversion":
        from pyxel.models.charge_generation import simple_conversion

        det = make_ccd(*SHAPE)
        ph = np.array([g(f"ph_{i}") for i in range(4)]).reshape(SHAPE)
        det.photon.array = ph.copy()
        qe = g("qe")
        try:
            simple_conversion(det, quantum_efficiency=qe, binomial_sampling=kwargs["sampling"], seed=1)
        except ValueError:
            return 0 <= qe <= 1, {"rejected": True, "qe": qe}
        out = det.charge.array
        if not 0 <= qe <= 1:
            return True, {"accepted_out_of_range": qe}
        if kwargs["sampling"]:
            return bool(((out < 0) | (out > ph)).any()), {"out": out.tolist()}
        return (not np.allclose(out, ph * qe)), {"out": out.tolist()}
    if fn == "ipc":
        from pyxel.models.charge_collection.inter_pixel_capacitance import ipc_kernel

        try:
            k = ipc_kernel(g("coupling"), g("diagonal"), g("anisotropic"))
        except ValueError:
            return False, {"rejected": True}
        return (abs(k.sum() - 1) > 1e-12 or k[1, 1] < 0), {"kernel": k.tolist()}
    if fn == "collection_steps":
        from pyxel.models.charge_collection import simple_collection

        how, n = kwargs["how"], kwargs["nsteps"]
        steps = [{"array": np.array([g(f"g{i}_arr_{k}") for k in range(STEP_SHAPE[0] * STEP_SHAPE[1])]).reshape(STEP_SHAPE), "clusters": [g(f"g{i}_cl{j}") for j in range(2)]} for i in range(n)]
        if all(sum(st["clusters"]) == 0 and st["array"].sum() == 0 for st in steps):
            steps = [{"array": np.full(STEP_SHAPE, 1.0 + i), "clusters": [10.0 + i, 20.0 + i]} for i in range(n)]
        outs = _collect_steps(make_ccd(*STEP_SHAPE), np, simple_collection, steps, how)
        bad = {}
        for i, (gen, o) in enumerate(zip(steps, outs)):
            want = np.zeros(STEP_SHAPE)
            if "array" in how:
                want = want + gen["array"]
            if "clusters" in how:
                for j, c in enumerate(gen["clusters"]):
                    want[0, j] += c
            if not np.allclose(o, want):
                bad[f"step{i}"] = {"collected": o.tolist(), "generated": want.tolist()}
        return bool(bad), bad
    if fn == "cdm_state":
        cm = importlib.import_module(CDM)
        species, direction = kwargs["species"], kwargs["direction"]
        shape = (2, 1) if direction == "parallel" else (1, 2)
        a = np.array([g(f"a_{i}") for i in range(2)]).reshape(shape)
        occ = np.array([[g(f"occ_{k}") for k in range(species)]])
        b = g("beta") if kwargs["beta"] == "sym" else float(kwargs["beta"])
        if kwargs.get("params") is not None:
            pv = PARAMS_CDM[kwargs["params"]]
            phys = {"vg": pv[0], "t": pv[1], "fwc": pv[2], "vth": pv[3], "tr": np.array(pv[4]), "nt": np.array(pv[5]), "sigma": np.array(pv[6])}
        else:
            phys = {"vg": g("vg"), "t": g("t"), "fwc": g("fwc"), "vth": g("vth"), "tr": np.array([g(f"tr_{k}") for k in range(species)]),
                    "nt": np.array([g(f"nt_{k}") for k in range(species)]), "sigma": np.array([g(f"sigma_{k}") for k in range(species)])}
        state = occ.copy()
        f = cm.run_cdm_parallel if direction == "parallel" else cm.run_cdm_serial
        f = getattr(f, "py_func", f)
        real_np = cm.np
        cm.np = _zeros_shim(real_np, state)
        try:
            out = f(array=a.copy(), beta=b, **phys)
        finally:
            cm.np = real_np
        det = {"pixels_in": a.ravel().tolist(), "trapped_in": occ.ravel().tolist(), "pixels_out": out.ravel().tolist(), "trapped_out": state.ravel().tolist()}
        if "/nonnegative/" in oid:
            return bool((out < 0).any() or (state < 0).any()), det
        return bool(out.sum() + state.sum() > (a.sum() + occ.sum()) * (1 + 1e-12) + 1e-12), det
    if fn == "cdm":
        from pyxel.models.charge_transfer.cdm import run_cdm_parallel, run_cdm_serial

        n, species, direction = kwargs["n"], kwargs["species"], kwargs["direction"]
        shape = (n, 1) if direction == "parallel" else (1, n)
        a = np.array([g(f"a_{i}") for i in range(n)]).reshape(shape)
        b = g("beta") if kwargs["beta"] == "sym" else float(kwargs["beta"])
        f = run_cdm_parallel if direction == "parallel" else run_cdm_serial
        out = f(array=a.copy(), beta=b, vg=g("vg"), t=g("t"), fwc=g("fwc"), vth=g("vth"),
                tr=np.array([g(f"tr_{k}") for k in range(species)]), nt=np.array([g(f"nt_{k}") for k in range(species)]),
                sigma=np.array([g(f"sigma_{k}") for k in range(species)]))
        det = {"in": a.ravel().tolist(), "out": out.ravel().tolist()}
        if "/nonnegative/" in oid:
            return bool((out < 0).any()), det
        return bool(out.sum() > a.sum() * (1 + 1e-12) + 1e-12), det
    return False, {}
