"""C04 — seeded runs are reproducible and seeding never leaks.

The process-wide generator is modelled, not sampled (vx.rngmodel): its state is a term of an
uninterpreted sort; seed(s) -> seeded(s), every draw advances next(.), get_state/set_state move terms.
H1 set_random_seed with a symbolic seed, draws and an optional exception in the body.
H2 every stochastic model function: final state == initial state when seeded (also when the body
   raises), the state term of every draw does not depend on the prior state, no re-seeding without a seed.
H3 seed plumbing: the symbolic pipeline seed reaches set_random_seed in every running mode.
"""

from __future__ import annotations

import os
import tempfile
import warnings

import numpy as np
import z3

import vx
import vxprobes
from vx import rngmodel
from vx.core import SymBool
from vx.patching import Patch

from .common import make_ccd

PROPERTY = "C04"
LEVEL = "model_checking"
FUNCTIONS = [
    "pyxel.util.randomize:set_random_seed",
    "pyxel.exposure.exposure:run_pipeline",
    "pyxel.observation.observation:Observation._run_single_pipeline",
    "pyxel.observation.observation_dask:_run_pipelines_array_to_datatree",
    "pyxel.calibration.fitting_datatree:ModelFittingDataTree.fitness",
    "pyxel.calibration.fitting_datatree:ModelFittingDataTree._apply_parameters",
    "pyxel.calibration.calibration:Calibration.run_calibration",
    "pyxel.models.photon_collection.shot_noise:shot_noise",
    "pyxel.models.phasing.pulse_processing:pulse_processing",
    "pyxel.models.charge_generation.photoelectrons:simple_conversion",
    "pyxel.models.charge_generation.simple_dark_current:simple_dark_current",
    "pyxel.models.charge_generation.dark_current:dark_current",
    "pyxel.models.charge_generation.dark_current_rule07:dark_current_rule07",
    "pyxel.models.charge_collection.fixed_pattern_noise:fixed_pattern_noise",
    "pyxel.models.charge_measurement.readout_noise:output_node_noise",
    "pyxel.models.charge_measurement.readout_noise:output_node_noise_cmos",
    "pyxel.models.charge_measurement.reset_noise:ktc_noise",
]
STUBS = ["pulse_processing.convert_to_phase (deterministic superconductor physics, ~170 s per pixel, no randomness) -> constant phase",
         "numpy.random global-state functions -> vx.rngmodel (seed/get_state/set_state/draws over an uninterpreted state sort); drawn data come from a private generator keyed on the state term",
         "calibration plumbing: ArchipelagoDataTree replaced by a recording stub, ModelFittingDataTree.__init__ by a recorder of its keyword arguments"]
OUTSIDE = ["bit-identity of results additionally needs numpy's generator and pygmo to be deterministic functions of their seeds (assumed)",
           "generators local to a model are not modelled as state machines; creating one from operating-system entropy (default_rng(None), RandomState(None)) is recorded and forbidden when a seed is given",
           "models needing large setups (cosmix, nghxrg, conversion_with_qe_map) are not exercised; charge_deposition runs with the shipped stopping-power table"]
ASSUMPTIONS = ["model outputs are deterministic functions of their inputs and of the values drawn"]
EXPLANATION = "state terms over UF; equalities decided by z3; independence from the prior state by substitution of a fresh initial state"


def bounds(tier):
    return {"models": [m[0] for m in MODELS], "seed": "symbolic integer (context manager, plumbing) / concrete per model", "draws_in_body": "0..2"}


# (label, module, function, detector kind, kwargs, seed-kwarg or None, setup)
MODELS = [
    ("shot_noise/poisson", "pyxel.models.photon_collection.shot_noise", "shot_noise", "ccd", {"type": "poisson"}, "seed"),
    ("shot_noise/normal", "pyxel.models.photon_collection.shot_noise", "shot_noise", "ccd", {"type": "normal"}, "seed"),
    ("simple_conversion", "pyxel.models.charge_generation.photoelectrons", "simple_conversion", "ccd", {"quantum_efficiency": 0.5}, "seed"),
    ("simple_dark_current", "pyxel.models.charge_generation.simple_dark_current", "simple_dark_current", "ccd", {"dark_rate": 10.0}, "seed"),
    ("dark_current", "pyxel.models.charge_generation.dark_current", "dark_current", "ccd", {"figure_of_merit": 1.0, "spatial_noise_factor": 0.4, "temporal_noise": True}, "seed"),
    ("dark_current_rule07", "pyxel.models.charge_generation.dark_current_rule07", "dark_current_rule07", "cmos", {"cutoff_wavelength": 2.5, "spatial_noise_factor": 0.4, "temporal_noise": True}, "seed"),
    ("radiation_induced_dark_current", "pyxel.models.charge_generation.dark_current_induced", "radiation_induced_dark_current", "ccd",
     {"depletion_volume": 64.0, "annealing_time": 0.1, "displacement_dose": 50.0, "shot_noise": True}, "seed"),
    ("fixed_pattern_noise", "pyxel.models.charge_collection.fixed_pattern_noise", "fixed_pattern_noise", "ccd", {"fixed_pattern_noise_factor": 0.01}, "seed"),
    ("ktc_noise", "pyxel.models.charge_measurement.reset_noise", "ktc_noise", "cmos", {"node_capacitance": 30.0e-15}, "seed"),
    ("output_node_noise", "pyxel.models.charge_measurement.readout_noise", "output_node_noise", "ccd", {"std_deviation": 1.0}, "seed"),
    ("output_node_noise_cmos", "pyxel.models.charge_measurement.readout_noise", "output_node_noise_cmos", "cmos", {"readout_noise": 1.0, "readout_noise_std": 2.0}, "seed"),
    ("dark_current_saphira", "pyxel.models.charge_generation.dark_current_saphira", "dark_current_saphira", "apd", {}, "seed"),
    ("readout_noise_saphira", "pyxel.models.charge_measurement.readout_noise", "readout_noise_saphira", "apd", {"roic_readout_noise": 0.15, "controller_noise": 0.1}, "seed"),
    ("charge_deposition/isotropic", "pyxel.models.charge_generation.charge_deposition", "charge_deposition", "ccd",
     {"flux": 30.0, "step_size": 5.0, "energy_mean": 100.0, "energy_spread": 0.1, "particle_direction": "isotropic", "stopping_power_curve": "@data/protons-in-silicon_stopping-power.csv"}, "seed"),
    ("charge_deposition/orthogonal", "pyxel.models.charge_generation.charge_deposition", "charge_deposition", "ccd",
     {"flux": 30.0, "step_size": 5.0, "energy_mean": 100.0, "energy_spread": 0.1, "particle_direction": "orthogonal", "stopping_power_curve": "@data/protons-in-silicon_stopping-power.csv"}, "seed"),
    ("pulse_processing", "pyxel.models.phasing.pulse_processing", "pulse_processing", "mkid", {"wavelength": 0.6, "responsivity": 1.0, "scaling_factor": 2.5e2}, None),
    ("sar_adc_with_noise", "pyxel.models.readout_electronics.sar_adc_with_noise", "sar_adc_with_noise", "ccd8", {"strengths": [0.0] * 8, "noises": [1e-3] * 8}, None),
    # option combinations that switch one of a model's noise sources off (the other source still draws)
    ("dark_current/fpn_only", "pyxel.models.charge_generation.dark_current", "dark_current", "ccd", {"figure_of_merit": 1.0, "spatial_noise_factor": 0.4, "temporal_noise": False}, "seed"),
    ("dark_current/shot_only", "pyxel.models.charge_generation.dark_current", "dark_current", "ccd", {"figure_of_merit": 1.0, "temporal_noise": True}, "seed"),
    ("dark_current_rule07/fpn_only", "pyxel.models.charge_generation.dark_current_rule07", "dark_current_rule07", "cmos", {"cutoff_wavelength": 2.5, "spatial_noise_factor": 0.4, "temporal_noise": False}, "seed"),
    ("radiation_induced_dark_current/no_shot_noise", "pyxel.models.charge_generation.dark_current_induced", "radiation_induced_dark_current", "ccd",
     {"depletion_volume": 64.0, "annealing_time": 0.1, "displacement_dose": 50.0, "shot_noise": False}, "seed"),
]


def tasks(tier, seed):
    out = [{"fn": "ctx", "kwargs": {"draws": d}, "label": f"ctx/draws={d}"} for d in ((0, 1, 2) if tier == "quick" else (0, 1, 2, 3, 4, 5, 8))]
    for od, idr in (((0, 1), (1, 1), (1, 2)) if tier == "quick" else [(a, b) for a in (0, 1, 2, 3) for b in (0, 1, 2, 3)]):
        out.append({"fn": "ctx_nested", "kwargs": {"outer_draws": od, "inner_draws": idr}, "label": f"ctx_nested/outer={od},inner={idr}"})
    out.append({"fn": "ctx_concurrent", "kwargs": {}, "label": "ctx_concurrent"})
    for i, m in enumerate(MODELS):
        out.append({"fn": "model", "kwargs": {"i": i}, "label": f"model/{m[0]}"})
        out.append({"fn": "model_twice", "kwargs": {"i": i}, "label": f"model_twice/{m[0]}"})
        out.append({"fn": "model", "kwargs": {"i": i, "step": 1 + i % 2}, "label": f"model/{m[0]}@later_step"})
    for mode in ("exposure", "exposure_deprecated", "observation_seq", "observation_dask_fn", "observation_dask", "fitness", "apply_parameters", "calibration"):
        out.append({"fn": "plumb", "kwargs": {"mode": mode}, "label": f"plumb/{mode}"})
    return out


def REQUIRED_REACH(tier):
    return ["C04/ctx/restore_normal*", "C04/ctx/restore_on_exception*", "C04/ctx/seeded_draws_independent*", "C04/ctx/none_is_noop*",
            "C04/model/*/restore", "C04/model/*/draws_independent", "C04/plumb/exposure*", "C04/plumb/calibration*"]


def _eq(a, b):
    return SymBool(a == b)


# -- H1 -----------------------------------------------------------------------------------------------
def ctx(draws):
    from pyxel.util import set_random_seed

    s = vx.integer("seed")
    use = vx.boolean("seed_given")
    boom = vx.boolean("body_raises")
    with Patch() as p:
        rng = rngmodel.RngModel().install(p)
        seed = s if bool(use) else None
        raised = False
        try:
            with set_random_seed(seed):
                for _ in range(draws):
                    np.random.normal(size=2)
                if bool(boom):
                    raise RuntimeError("body failed")
        except RuntimeError:
            raised = True
        final = rng.state
        dr = list(rng.draws)
    if seed is not None:
        if raised:
            vx.prove(f"C04/ctx/restore_on_exception/draws={draws}", _eq(final, rngmodel.STATE0))
        else:
            vx.prove(f"C04/ctx/restore_normal/draws={draws}", _eq(final, rngmodel.STATE0))
        if dr:
            vx.prove(f"C04/ctx/seeded_draws_independent/draws={draws}", all(not rng.depends_on_initial_state(t) for _, t in dr))
            vx.prove(f"C04/ctx/seeded_draws_from_seed/draws={draws}", vx.all_of([_eq(t, rngmodel.RngModel.after(rngmodel.SEEDED(s.t), [n for n, _ in dr[:k]])) for k, (_, t) in enumerate(dr)]))
    else:
        vx.prove(f"C04/ctx/none_is_noop/draws={draws}", _eq(final, rngmodel.RngModel.after(rngmodel.STATE0, [n for n, _ in dr])))


def ctx_nested(outer_draws, inner_draws):
    """A model seed inside a pipeline seed (nested contexts): the inner block draws from its own seed only, and when it ends the outer
    stream continues exactly where it was - so the outer draws do not depend on whether / how much the inner block drew."""
    from pyxel.util import set_random_seed

    so, si = vx.integer("outer_seed"), vx.integer("inner_seed")
    inner_given = vx.boolean("inner_seed_given")
    boom = vx.boolean("inner_raises")
    with Patch() as p:
        rng = rngmodel.RngModel().install(p)
        with set_random_seed(so):
            for _ in range(outer_draws):
                np.random.normal(size=2)
            mark = len(rng.draws)
            try:
                with set_random_seed(si if bool(inner_given) else None):
                    for _ in range(inner_draws):
                        np.random.random()
                    if bool(boom):
                        raise RuntimeError("inner failed")
            except RuntimeError:
                pass
            inner = rng.draws[mark:]
            after_inner = rng.state
            np.random.normal(size=2)
        final, dr = rng.state, list(rng.draws)
    lab = f"outer={outer_draws},inner={inner_draws}"
    vx.prove(f"C04/ctx/nested/outer_restored/{lab}", _eq(final, rngmodel.STATE0))
    outer_names = ["normal"] * outer_draws
    if bool(inner_given):
        vx.prove(f"C04/ctx/nested/inner_from_its_seed/{lab}", vx.all_of([_eq(t, rngmodel.RngModel.after(rngmodel.SEEDED(si.t), [n for n, _ in inner[:k]])) for k, (_, t) in enumerate(inner)]))
        vx.prove(f"C04/ctx/nested/outer_stream_continues/{lab}", _eq(after_inner, rngmodel.RngModel.after(rngmodel.SEEDED(so.t), outer_names)))
    else:
        vx.prove(f"C04/ctx/nested/unseeded_inner_consumes_outer/{lab}", _eq(after_inner, rngmodel.RngModel.after(rngmodel.SEEDED(so.t), outer_names + [n for n, _ in inner])))
    vx.prove(f"C04/ctx/nested/nothing_depends_on_prior_state/{lab}", all(not rng.depends_on_initial_state(t) for _, t in dr))


def _contexts_can_overlap():
    """Real threads, real numpy: can a second thread enter a seeded context while another thread is inside one?  (False once the
    seeded sections are made mutually exclusive, e.g. by a lock - then interleavings inside a section do not exist.)"""
    import threading

    from pyxel.util import set_random_seed

    inside, release, entered = threading.Event(), threading.Event(), threading.Event()
    saved = np.random.get_state()

    def first():
        with set_random_seed(1):
            inside.set()
            release.wait(5)

    def second():
        if inside.wait(5):
            with set_random_seed(2):
                entered.set()

    ta, tb = threading.Thread(target=first, daemon=True), threading.Thread(target=second, daemon=True)
    ta.start()
    tb.start()
    ok = entered.wait(1.0)
    release.set()
    ta.join(5)
    tb.join(5)
    np.random.set_state(saved)
    return ok


def _threads_by_schedule(schedule, seed_a, seed_b):
    """Two real threads driven step by step (enter / draw / exit) in the order given by `schedule` (a string over a, b); returns
    None when a step blocks (mutually exclusive sections), else ({thread: draws}, restored?)."""
    import threading

    from pyxel.util import set_random_seed

    go = {c: [threading.Event() for _ in range(3)] for c in "ab"}
    fin = {c: [threading.Event() for _ in range(3)] for c in "ab"}
    draws = {}

    def worker(name, seed):
        go[name][0].wait(20)
        cm = set_random_seed(seed)
        cm.__enter__()
        fin[name][0].set()
        go[name][1].wait(20)
        draws[name] = np.random.normal(size=2).tolist()
        fin[name][1].set()
        go[name][2].wait(20)
        cm.__exit__(None, None, None)
        fin[name][2].set()

    np.random.seed(424242)
    before = np.random.get_state()
    th = [threading.Thread(target=worker, args=("a", seed_a), daemon=True), threading.Thread(target=worker, args=("b", seed_b), daemon=True)]
    for t in th:
        t.start()
    cnt = {"a": 0, "b": 0}
    blocked = False
    for who in schedule:
        k = cnt[who]
        go[who][k].set()
        if not fin[who][k].wait(3):
            blocked = True
            break
        cnt[who] += 1
    if blocked:
        for c in "ab":
            for e in go[c]:
                e.set()
    for t in th:
        t.join(10)
    after = np.random.get_state()
    if blocked:
        return None
    restored = before[0] == after[0] and np.array_equal(before[1], after[1]) and before[2:] == after[2:]
    return draws, restored


def ctx_concurrent():
    """Two runs inside seeded contexts at the same time (what the threaded dask scheduler of a parallel observation does with the
    pipeline seed): the order of their enter / draw / exit steps is symbolic.  Each run's draws are those of its own seed, and when
    both are finished the process-wide generator is back in its initial state."""
    from pyxel.util import set_random_seed

    sa, sb = vx.integer("seed_a"), vx.integer("seed_b")
    vx.assume((sa >= 0) & (sa < 2**32) & (sb >= 0) & (sb < 2**32), "seeds numpy accepts")
    if not _contexts_can_overlap():
        vx.reach("C04/ctx/concurrent/sections_mutually_exclusive")
        vx.prove("C04/ctx/concurrent/draws_from_own_seed/serialised", True)
        vx.prove("C04/ctx/concurrent/state_restored/serialised", True)
        return
    order, steps, got = [], {"a": 0, "b": 0}, {"a": [], "b": []}
    with Patch() as p:
        rng = rngmodel.RngModel().install(p)
        cms = {"a": set_random_seed(sa), "b": set_random_seed(sb)}
        k = 0
        while steps["a"] < 3 or steps["b"] < 3:
            if steps["a"] < 3 and steps["b"] < 3:
                who = "a" if bool(vx.boolean(f"next_is_a_{k}")) else "b"
            else:
                who = "a" if steps["a"] < 3 else "b"
            k += 1
            st = steps[who]
            if st == 0:
                cms[who].__enter__()
            elif st == 1:
                mark = len(rng.draws)
                np.random.normal(size=2)
                got[who] += rng.draws[mark:]
            else:
                cms[who].__exit__(None, None, None)
            steps[who] += 1
            order.append(who)
        final = rng.state
    lab = "".join(order)
    vx.reach("C04/ctx/concurrent/explored")
    own = [_eq(t, rngmodel.RngModel.after(rngmodel.SEEDED(seed.t), [n for n, _ in got[w][:k]])) for w, seed in (("a", sa), ("b", sb)) for k, (_, t) in enumerate(got[w])]
    vx.prove(f"C04/ctx/concurrent/draws_from_own_seed/{lab}", vx.all_of(own))
    vx.prove(f"C04/ctx/concurrent/state_restored/{lab}", _eq(final, rngmodel.STATE0))


# -- H2 -----------------------------------------------------------------------------------------------
def _detector(kind, step=0):
    """Detector in the state a model finds it in at readout step `step` of a three-step exposure (step 0: single-readout default)."""
    from .c08_keys import _make_det

    if kind == "ccd8":
        d = _make_det("ccd")
        d.characteristics._adc_bit_resolution = 8
    else:
        d = _make_det(kind)
    shape = (1, 1) if kind == "mkid" else (3, 3)
    d.geometry._row, d.geometry._col = shape
    d._initialize()
    if step == 0:
        d.set_readout(times=[1.0], start_time=0.0)
    else:
        d.set_readout(times=[1.0, 2.0, 3.0], start_time=0.0)
        d.pipeline_count = step
        d.time = float(step + 1)
    d.readout_properties.time_step = 1.0
    d.photon.array = np.full(shape, 100.0)
    d.charge.add_charge_array(np.full(shape, 50.0))
    d.pixel.array = np.full(shape, 50.0)
    d.signal.array = np.full(shape, 0.5)
    if kind == "mkid":
        d.phase.array = np.full(shape, 5.0)
    return d


def _cheap_physics(p):
    """pulse_processing spends ~170 s per pixel in deterministic superconductor theory (no randomness): stubbed."""
    import importlib

    pp = importlib.import_module("pyxel.models.phasing.pulse_processing")
    p.attr(pp, "convert_to_phase", lambda array_2d, **kw: np.full(np.asarray(array_2d).shape, 5.0), "deterministic physics, no RNG use")


def _kw(kw):
    """Keyword arguments with '@data/<file>' resolved to the data files shipped with the charge-generation models."""
    import pyxel

    base = os.path.join(os.path.dirname(pyxel.__file__), "models", "charge_generation", "data")
    return {k: (os.path.join(base, v[6:]) if isinstance(v, str) and v.startswith("@data/") else v) for k, v in kw.items()}


def model(i, step=0):
    import importlib

    label, modname, fname, kind, kw, seedarg = MODELS[i]
    if step:
        label = f"{label}@step{step}"
    kw = _kw(kw)
    f = getattr(importlib.import_module(modname), fname)
    fail = vx.boolean("late_failure") if seedarg else None
    for variant in (("seeded", "unseeded") if seedarg else ("unseeded",)):
        with Patch() as p:
            rng = rngmodel.RngModel().install(p)
            _cheap_physics(p)
            d = _detector(kind, step)
            kwargs = dict(kw)
            if seedarg and variant == "seeded":
                kwargs[seedarg] = 1234
            raised = None
            try:
                if variant == "seeded" and fail is not None and bool(fail):
                    # an error after the draws, inside the model: the buckets refuse the result
                    d.charge._array = None
                    d.pixel._array = None
                    d.signal._array = None
                    d.photon._array = None
                f(d, **kwargs)
            except Exception as e:  # noqa: BLE001
                raised = e
            final, dr, seeds = rng.state, list(rng.draws), list(rng.seeds)
            entropy = list(rng.entropy)
        if variant == "seeded":
            # a seeded model draws from nothing but its seed: no generator created from operating-system entropy
            vx.prove(f"C04/model/{label}/no_entropy_when_seeded", not entropy, generators=str(entropy[:3]))
            vx.prove(f"C04/model/{label}/restore", _eq(final, rngmodel.STATE0), raised=repr(raised)[:80] if raised else None)
            vx.prove(f"C04/model/{label}/draws_independent", all(not rng.depends_on_initial_state(t) for _, t in dr))
            if raised is None:
                vx.prove(f"C04/model/{label}/draws_happen", len(dr) >= 1)
        else:
            # without a seed the model only consumes the stream: never re-seeds, never rewinds
            # (an exception inside a draw may or may not have consumed the stream: any prefix length is fine)
            vx.prove(f"C04/model/{label}/no_reseed", vx.any_of([_eq(final, rngmodel.RngModel.after(rngmodel.STATE0, [n for n, _ in dr[:k]])) for k in range(len(dr) + 1)]), n_draws=len(dr), seeds=str(seeds),
                     raised=repr(raised)[:80] if raised else None)
            vx.prove(f"C04/model/{label}/unseeded_draws_follow_stream", vx.all_of([_eq(t, rngmodel.RngModel.after(rngmodel.STATE0, [n for n, _ in dr[:k]])) for k, (_, t) in enumerate(dr)]) if raised is None else True)


def _buckets(d):
    out = {}
    for b in ("photon", "pixel", "signal", "image", "phase"):
        c = getattr(d, "_" + b, None)
        a = getattr(c, "_array", None) if c is not None else None
        out[b] = None if a is None else np.array(a, dtype=float)
    try:
        out["charge"] = np.array(d.charge.array, dtype=float)
    except Exception as e:  # noqa: BLE001  (a frame the real binning cannot type: compare the raw table instead)
        out["charge"] = np.array(d.charge._frame.to_numpy(dtype=float, na_value=np.nan), dtype=float) if len(d.charge._frame) else np.zeros(0)
        out["charge_error"] = np.array([float(len(type(e).__name__))])
    return out


def _same_buckets(x, y):
    return all((x[k] is None and y[k] is None) or (x[k] is not None and y[k] is not None and np.array_equal(x[k], y[k], equal_nan=True)) for k in x)


def model_twice(i):
    """What a stochastic model does depends on its inputs and on the generator state only, not on earlier calls in the
    process: called a second time on an identical detector from the same generator state it consumes the same draws
    and leaves the same bucket contents (otherwise a seeded run is not reproducible 'whatever ran earlier')."""
    import importlib

    label, modname, fname, kind, kw, seedarg = MODELS[i]
    kw = _kw(kw)
    f = getattr(importlib.import_module(modname), fname)
    runs = []
    with Patch() as p:
        rng = rngmodel.RngModel().install(p)
        _cheap_physics(p)
        for _ in range(2):
            rng.B, rng.G = rngmodel.B0, rngmodel.G0
            rng.draws.clear()
            d = _detector(kind)
            raised = None
            try:
                f(d, **dict(kw))
            except Exception as e:  # noqa: BLE001
                raised = type(e).__name__
            runs.append(([(n, z3.simplify(t).sexpr()) for n, t in rng.draws] + [("raised", raised)], _buckets(d)))
    vx.prove(f"C04/model/{label}/history_independent/draws", runs[0][0] == runs[1][0], first=len(runs[0][0]), second=len(runs[1][0]))
    vx.prove(f"C04/model/{label}/history_independent/result", _same_buckets(runs[0][1], runs[1][1]))


# -- H3 -----------------------------------------------------------------------------------------------
def _pipe():
    from pyxel.pipelines import DetectionPipeline, ModelFunction

    return DetectionPipeline(scene_generation=[ModelFunction(name="init", func="vxprobes.init_buckets")],
                             photon_collection=[ModelFunction(name="p", func="vxprobes.probe", arguments={"a": 0})])


def _problem(det, pipe, seed):
    """The fitting problem through its real constructor (only the loading of the target file is replaced, by a 2x2 frame of zeros)."""
    import importlib

    import xarray as xr

    from pyxel.calibration.util import FitRange2D, FitRange3D
    from pyxel.exposure import Readout
    from pyxel.observation import ParameterValues
    from pyxel.pipelines import Processor

    fd = importlib.import_module("pyxel.calibration.fitting_datatree")
    with Patch() as q:
        q.attr(fd, "create_processor_data_array", lambda filenames: xr.DataArray(np.zeros((1, 2, 2)), dims=("processor", "y", "x")), "target file: zeros")
        return fd.ModelFittingDataTree(
            processor=Processor(detector=det, pipeline=pipe), variables=[ParameterValues(key="pipeline.photon_collection.p.arguments.a", values="_", boundaries=(0.0, 1.0))],
            readout=Readout(), simulation_output="pixel", generations=1, population_size=2, fitness_func=lambda simulated, target, weighting: 0.0, file_path=None,
            target_fit_range=FitRange2D(row=slice(0, 2), col=slice(0, 2)), out_fit_range=FitRange3D(time=slice(None, None), row=slice(0, 2), col=slice(0, 2)),
            target_filenames=["target.npy"], pipeline_seed=seed, with_inherited_coords=True)


def plumb(mode):
    import pyxel
    from pyxel.exposure import Exposure, Readout
    from pyxel.observation import Observation, ParameterValues
    from pyxel.pipelines import Processor

    s = vx.integer("pipeline_seed")
    seen = []

    def hook(d, tag, kwargs, rec):
        np.random.random()
        if d.pixel._array is None:
            d.pixel.array = np.zeros((2, 2))

    with Patch() as p:
        rng = rngmodel.RngModel().install(p)
        vxprobes.reset(hook)
        try:
            det, pipe = make_ccd(2, 2), _pipe()
            if mode == "exposure":
                pyxel.run_mode(mode=Exposure(readout=Readout(times=[1.0, 2.0]), pipeline_seed=s), detector=det, pipeline=pipe)
                runs = 1
            elif mode == "exposure_deprecated":
                from pyxel.exposure.exposure import _run_exposure_pipeline_deprecated

                with warnings.catch_warnings():
                    warnings.simplefilter("ignore")
                    _run_exposure_pipeline_deprecated(processor=Processor(detector=det, pipeline=pipe), readout=Readout(times=[1.0, 2.0]), pipeline_seed=s)
                runs = 1
            elif mode == "observation_seq":
                obs = Observation(parameters=[ParameterValues(key="pipeline.photon_collection.p.arguments.a", values=[1, 2, 3])], readout=Readout(times=[1.0]), pipeline_seed=s)
                pyxel.run_mode(mode=obs, detector=det, pipeline=pipe)
                runs = 3
            elif mode == "observation_dask_fn":
                from pyxel.observation.observation_dask import _run_pipelines_array_to_datatree

                for v in (1, 2):
                    _run_pipelines_array_to_datatree(params_tuple=(v,), output_filename_suffix=None, dimension_names={"pipeline.photon_collection.p.arguments.a": "a"},
                                                     processor=Processor(detector=det, pipeline=pipe), readout=Readout(times=[1.0]), outputs=None, pipeline_seed=s, progressbar=False)
                runs = 2
            elif mode == "observation_dask":
                # the whole parallel path (graph built by run_pipelines_with_dask), executed by dask's synchronous scheduler in this thread
                import dask

                obs = Observation(parameters=[ParameterValues(key="pipeline.photon_collection.p.arguments.a", values=[1, 2, 3])], readout=Readout(times=[1.0]), pipeline_seed=s, with_dask=True)
                n_before = len(vxprobes.TRACE)
                with dask.config.set(scheduler="synchronous"):
                    res = pyxel.run_mode(mode=obs, detector=det, pipeline=pipe)
                    res.load()
                runs = len(vxprobes.TRACE) - n_before  # every execution of the pipeline (the run that fixes the result layout included)
            elif mode in ("fitness", "apply_parameters"):
                from pyxel.calibration.fitting_datatree import ModelFittingDataTree

                prob = _problem(det, pipe, s)
                if mode == "fitness":
                    prob.fitness(np.array([0.5]))
                else:
                    prob._apply_parameters(processor=prob.param_processor_list[0], parameter=np.array([0.5]))
                runs = 1
            else:
                runs = _calibration_plumbing(s, p, det, pipe)
            final, dr, seeds = rng.state, list(rng.draws), list(rng.seeds)
        finally:
            vxprobes.reset(None)
    if mode == "calibration":
        return
    vx.prove(f"C04/plumb/{mode}", vx.all_of([len(seeds) == runs] + [SymBool(t == s.t) if t is not None else False for t in seeds]), seeds=str(seeds))
    vx.prove(f"C04/plumb/{mode}/restored", _eq(final, rngmodel.STATE0))
    vx.prove(f"C04/plumb/{mode}/draws_independent", len(dr) >= runs and all(not rng.depends_on_initial_state(t) for _, t in dr))


def _run_concrete(mode, seed):
    """The same entry points as plumb(), real generator, concrete seed."""
    import pyxel
    from pyxel.exposure import Exposure, Readout
    from pyxel.observation import Observation, ParameterValues
    from pyxel.pipelines import Processor

    det, pipe = make_ccd(2, 2), _pipe()
    key = "pipeline.photon_collection.p.arguments.a"
    with warnings.catch_warnings():
        warnings.simplefilter("ignore")
        if mode == "exposure":
            pyxel.run_mode(mode=Exposure(readout=Readout(times=[1.0, 2.0]), pipeline_seed=seed), detector=det, pipeline=pipe)
        elif mode == "exposure_deprecated":
            from pyxel.exposure.exposure import _run_exposure_pipeline_deprecated

            _run_exposure_pipeline_deprecated(processor=Processor(detector=det, pipeline=pipe), readout=Readout(times=[1.0, 2.0]), pipeline_seed=seed)
        elif mode == "observation_seq":
            pyxel.run_mode(mode=Observation(parameters=[ParameterValues(key=key, values=[1, 2, 3])], readout=Readout(times=[1.0]), pipeline_seed=seed), detector=det, pipeline=pipe)
        elif mode == "observation_dask":
            import dask

            with dask.config.set(scheduler="synchronous"):
                pyxel.run_mode(mode=Observation(parameters=[ParameterValues(key=key, values=[1, 2, 3])], readout=Readout(times=[1.0]), pipeline_seed=seed, with_dask=True),
                               detector=det, pipeline=pipe).load()
        elif mode == "observation_dask_fn":
            from pyxel.observation.observation_dask import _run_pipelines_array_to_datatree

            for v in (1, 2):
                _run_pipelines_array_to_datatree(params_tuple=(v,), output_filename_suffix=None, dimension_names={key: "a"}, processor=Processor(detector=det, pipeline=pipe),
                                                 readout=Readout(times=[1.0]), outputs=None, pipeline_seed=seed, progressbar=False)
        else:
            from pyxel.calibration.fitting_datatree import ModelFittingDataTree

            prob = _problem(det, pipe, seed)
            if mode == "fitness":
                prob.fitness(np.array([0.5]))
            else:
                prob._apply_parameters(processor=prob.param_processor_list[0], parameter=np.array([0.5]))


def _calibration_plumbing(s, p, det, pipe):
    """Calibration.run_calibration must hand its pipeline seed to the fitting problem."""
    import pyxel.calibration.calibration as cal
    from pyxel.calibration import Algorithm, Calibration
    from pyxel.exposure import Readout
    from pyxel.observation import ParameterValues
    from pyxel.pipelines import FitnessFunction, Processor

    got = {}

    class FakeProblem:
        def __init__(self, **kw):
            got.update(kw)
            self.sim_output = kw.get("simulation_output")

    class FakeArchi:
        def __init__(self, **kw):
            got["archi"] = kw

        def run_evolve(self, **kw):
            import xarray as xr

            return xr.DataTree()

    import pygmo as pg

    p.attr(pg, "set_global_rng_seed", lambda seed: got.setdefault("global_seeds", []).append(seed), "recorder")
    # the optimiser seed the user configured: every documented boundary and two ordinary values (the constructor checks membership
    # in range(100001), which would enumerate on a symbolic integer: the solver picks among stated values instead)
    gsel = vx.integer("pygmo_seed_choice")
    vx.assume((gsel >= 0) & (gsel <= 3), "choice among the stated optimiser seeds")
    pygmo_seed = (0, 1, 7, 100000)[vx.concretize_int(gsel)]
    p.attr(cal, "ModelFittingDataTree", FakeProblem, "records its keyword arguments")
    p.attr(cal, "ArchipelagoDataTree", FakeArchi, "recording stub")
    tmp = tempfile.mkdtemp(prefix="vx_c04_")
    tfile = os.path.join(tmp, "t.npy")
    np.save(tfile, np.zeros((2, 2)))
    p._undo.append((_Cleanup(tfile, tmp), "x", None))
    c = Calibration(target_data_path=[tfile], fitness_function=FitnessFunction(func="pyxel.calibration.fitness.sum_of_abs_residuals"),
                    algorithm=Algorithm(type="sade", generations=1, population_size=5), parameters=[ParameterValues(key="pipeline.photon_collection.p.arguments.a", values="_", boundaries=(0.0, 1.0))],
                    readout=Readout(times=[1.0]), pygmo_seed=pygmo_seed, pipeline_seed=None)
    c._pipeline_seed = s
    c.run_calibration(processor=Processor(detector=det, pipeline=pipe), output_dir=None, with_inherited_coords=True, with_progress_bar=False)
    ps = got.get("pipeline_seed", "missing")
    vx.prove("C04/plumb/calibration", ps is s or (vx.is_sym(ps) and bool(ps == s)), passed=repr(ps)[:60])
    vx.prove("C04/plumb/calibration/pygmo_seed", got.get("archi", {}).get("pygmo_seed") == pygmo_seed and type(got.get("archi", {}).get("pygmo_seed")) is int
             and got.get("global_seeds") == [pygmo_seed] and c.pygmo_seed == pygmo_seed, configured=pygmo_seed, archipelago=repr(got.get("archi", {}).get("pygmo_seed")), pygmo_global=repr(got.get("global_seeds")))
    return 0


class _Cleanup:
    """Removes the scratch target file when the Patch is undone."""

    def __init__(self, f, d):
        self.f, self.d = f, d

    def __setattr__(self, k, v):
        if k in ("f", "d"):
            object.__setattr__(self, k, v)
            return
        try:
            os.remove(self.f)
            os.rmdir(self.d)
        except OSError:
            pass


def replay(oid, kwargs, model, data):
    """Concrete confirmation on the real generator: state before / after, repeated outputs."""
    import importlib

    if data["fn"] == "ctx_concurrent":
        schedule = oid.rsplit("/", 1)[-1]
        sa, sb = int(model.get("seed_a", 1)) % 2**32, int(model.get("seed_b", 2)) % 2**32
        r = _threads_by_schedule(schedule, sa, sb)
        if r is None:
            return False, {"note": "a step blocked: the seeded sections are mutually exclusive"}
        draws, restored = r
        alone = {}
        for w, sd in (("a", sa), ("b", sb)):
            np.random.seed(sd)
            alone[w] = np.random.normal(size=2).tolist()
        det = {"schedule": schedule, "seeds": [sa, sb], "draws_interleaved": draws, "draws_alone": alone, "generator_restored": restored}
        if "/state_restored/" in oid:
            return (not restored), det
        return draws != alone, det
    if data["fn"] == "model":
        label, modname, fname, kind, kw, seedarg = MODELS[kwargs["i"]]
        kw = _kw(kw)
        f = getattr(importlib.import_module(modname), fname)
        _p = Patch()
        _cheap_physics(_p)  # stays in place for this replay process
        if "no_entropy_when_seeded" in oid:
            # the same seeded call from two different prior states of the process-wide generator must leave the same buckets
            outs = []
            for prior in (1, 2):
                np.random.seed(3000 + prior)
                d = _detector(kind, kwargs.get("step", 0))
                f(d, **{**kw, seedarg: 1234})
                outs.append(_buckets(d))
            same = _same_buckets(outs[0], outs[1])
            return (not same), {"seeded_model_gives_the_same_buckets_twice": same}
        res = {}
        for prior in (1, 2):
            np.random.seed(1000 + prior)
            if prior == 2:
                np.random.normal()  # leaves a cached Gaussian in the legacy generator
            d = _detector(kind, kwargs.get("step", 0))
            before = np.random.get_state()
            kk = dict(kw)
            if seedarg:
                kk[seedarg] = 1234
            try:
                f(d, **kk)
            except Exception as e:  # noqa: BLE001
                res["raised"] = repr(e)[:100]
            after = np.random.get_state()
            res[f"state_changed_{prior}"] = not (before[0] == after[0] and np.array_equal(before[1], after[1]) and before[2:] == after[2:])
            if not seedarg:
                ref = np.random.RandomState(1000 + prior)
                res[f"reseeded_{prior}"] = np.array_equal(np.random.get_state()[1], np.random.RandomState(42).get_state()[1]) or False
        if "/restore" in oid or "draws_independent" in oid:
            return bool(res.get("state_changed_1") or res.get("state_changed_2")), res
        if "no_reseed" in oid or "unseeded" in oid:
            out = {}
            for prior in (1, 2):
                np.random.seed(1000 + prior)
                if prior == 2:
                    np.random.normal()  # cached Gaussian present
                d = _detector(kind)
                before = np.random.get_state()
                try:
                    f(d, **dict(kw))
                except Exception:  # noqa: BLE001
                    pass
                after = np.random.get_state()
                bits_same = np.array_equal(before[1], after[1]) and before[2] == after[2]
                gauss_same = tuple(before[3:]) == tuple(after[3:])
                reseeded = any(np.array_equal(after[1], np.random.RandomState(c).get_state()[1]) for c in (0, 1, 42, 1234))
                # an unseeded model may consume the stream (bits advance); it may not rewind / re-seed it, nor touch only the Gaussian cache
                out[f"prior{prior}"] = {"bits_same": bool(bits_same), "gauss_same": bool(gauss_same), "reseeded": bool(reseeded)}
            bad = any(v["reseeded"] or (v["bits_same"] and not v["gauss_same"]) for v in out.values())
            return bad, out
        return False, res
    if data["fn"] == "ctx_nested":
        from pyxel.util import set_random_seed

        so, si = int(model.get("outer_seed", 3)) % 2**31, int(model.get("inner_seed", 4)) % 2**31
        given, boom = bool(model.get("inner_seed_given", True)), bool(model.get("inner_raises", False))

        def run(inner_draws):
            np.random.seed(999)
            np.random.normal()
            st0 = np.random.get_state()
            inner_vals = []
            with set_random_seed(so):
                for _ in range(kwargs["outer_draws"]):
                    np.random.normal(size=2)
                try:
                    with set_random_seed(si if given else None):
                        for _ in range(inner_draws):
                            inner_vals.append(float(np.random.random()))
                        if boom:
                            raise RuntimeError("inner failed")
                except RuntimeError:
                    pass
                last = np.random.normal(size=2).tolist()
            st1 = np.random.get_state()
            same = st0[0] == st1[0] and np.array_equal(st0[1], st1[1]) and tuple(st0[2:]) == tuple(st1[2:])
            return last, same, inner_vals

        a, b = run(kwargs["inner_draws"]), run(kwargs["inner_draws"] + 3)
        ref = np.random.RandomState(si)
        want_inner = [float(ref.random_sample()) for _ in range(kwargs["inner_draws"])]
        bad = (not a[1]) or (given and a[0] != b[0]) or (given and a[2] != want_inner)
        return bad, {"prior_state_restored": a[1], "outer_draw_after_inner_block": a[0], "same_with_three_more_inner_draws": b[0], "inner_draws": a[2], "inner_draws_of_its_seed": want_inner}
    if data["fn"] == "model_twice":
        import importlib

        label, modname, fname, kind, kw, seedarg = MODELS[kwargs["i"]]
        kw = _kw(kw)
        f = getattr(importlib.import_module(modname), fname)
        outs, states = [], []
        with Patch() as p:
            _cheap_physics(p)
            for _ in range(2):
                np.random.seed(777)
                d = _detector(kind)
                try:
                    f(d, **dict(kw))
                except Exception:  # noqa: BLE001
                    pass
                outs.append(_buckets(d))
                states.append(np.random.get_state())
        same_state = bool(np.array_equal(states[0][1], states[1][1]) and states[0][2:] == states[1][2:])
        same_out = _same_buckets(outs[0], outs[1])
        return (not same_state) or (not same_out), {"second_call_from_same_state_consumed_the_same_stream": same_state, "same_buckets": same_out}
    if data["fn"] in ("ctx", "plumb") and not (data["fn"] == "plumb" and kwargs["mode"] == "calibration"):
        from pyxel.util import set_random_seed

        res = {}
        drawn = []
        raw = model.get("seed", model.get("pipeline_seed", 5))
        seed = int(raw if raw is not None else 5) % (2**31)
        for prior in (1, 2):
            np.random.seed(2000 + prior)
            if prior == 2:
                np.random.normal()
            before = np.random.get_state()
            if data["fn"] == "ctx":
                given = bool(model.get("seed_given", True))
                try:
                    with set_random_seed(seed if given else None):
                        for _ in range(kwargs["draws"]):
                            np.random.normal(size=2)
                        if bool(model.get("body_raises", False)):
                            raise RuntimeError("body failed")
                except RuntimeError:
                    pass
                if not given:
                    return False, {"note": "unseeded: state legitimately advances"}
            else:
                vals = []

                def hook(d, tag, kw_, rec, vals=vals):
                    vals.append(float(np.random.random()))
                    if d.pixel._array is None:
                        d.pixel.array = np.zeros((2, 2))

                vxprobes.reset(hook)
                try:
                    _run_concrete(kwargs["mode"], seed)
                finally:
                    vxprobes.reset(None)
                drawn.append(vals)
            after = np.random.get_state()
            res[f"state_changed_prior{prior}"] = not (before[0] == after[0] and np.array_equal(before[1], after[1]) and tuple(before[2:]) == tuple(after[2:]))
        if drawn:
            res["seeded_runs_identical"] = drawn[0] == drawn[1]
            res["pipeline_seed"] = seed
        return bool(res.get("state_changed_prior1") or res.get("state_changed_prior2") or res.get("seeded_runs_identical") is False), res
    if data["fn"] == "plumb" and kwargs["mode"] == "calibration" and "pygmo_seed" in oid:
        from pyxel.calibration import Algorithm, Calibration
        from pyxel.exposure import Readout
        from pyxel.observation import ParameterValues
        from pyxel.pipelines import FitnessFunction

        want = (0, 1, 7, 100000)[int(model.get("pygmo_seed_choice", 0)) % 4]
        tmp = tempfile.mkdtemp(prefix="vx_c04_")
        tfile = os.path.join(tmp, "t.npy")
        np.save(tfile, np.zeros((2, 2)))
        try:
            seen = []
            for _ in range(3):
                c = Calibration(target_data_path=[tfile], fitness_function=FitnessFunction(func="pyxel.calibration.fitness.sum_of_abs_residuals"),
                                algorithm=Algorithm(type="sade", generations=1, population_size=5),
                                parameters=[ParameterValues(key="pipeline.photon_collection.p.arguments.a", values="_", boundaries=(0.0, 1.0))],
                                readout=Readout(times=[1.0]), pygmo_seed=want, pipeline_seed=3)
                seen.append(int(c.pygmo_seed))
        finally:
            os.remove(tfile)
            os.rmdir(tmp)
        return seen != [want] * 3, {"configured_pygmo_seed": want, "optimiser_seed_of_three_identical_configurations": seen}
    if data["fn"] == "plumb" and kwargs["mode"] == "calibration":
        import inspect

        from pyxel.calibration import Calibration

        src = inspect.getsource(Calibration.run_calibration)
        call = src[src.index("ModelFittingDataTree("):]
        call = call[: call.index("# Create an archipelago")] if "# Create an archipelago" in call else call[:1500]
        return "pipeline_seed" not in call, {"ModelFittingDataTree_call_mentions_pipeline_seed": "pipeline_seed" in call}
    return False, {}
