"""C12 — a configuration means what it says, and nonsense is refused.

H1 validated fields: constructor accepts v <=> setter accepts v <=> sweep (Processor.set) accepts v
<=> documented range, for a symbolic v (reals / integers; NaN and infinities through IEEE terms).
H2 _build_configuration and the to_* builders on a configuration mapping with symbolic numeric
leaves: every attribute of the built objects equals its leaf; exactly one running mode and exactly
one detector (presence flags enumerated as paths).
"""

from __future__ import annotations

import copy
import os

import vx
from vx import core, symnp
from vx.core import unjson
from vx.patching import Patch

from .common import make_ccd

PROPERTY = "C12"
LEVEL = "model_checking"
FUNCTIONS = [
    "pyxel.detectors.geometry:Geometry.__init__",
    "pyxel.detectors.characteristics:Characteristics.__init__",
    "pyxel.detectors.environment:Environment.__init__",
    "pyxel.detectors.environment:WavelengthHandling.__post_init__",
    "pyxel.detectors.apd.apd_characteristics:APDCharacteristics.__init__",
    "pyxel.configuration.configuration:_build_configuration",
    "pyxel.configuration.configuration:to_pipeline",
    "pyxel.configuration.configuration:to_ccd",
    "pyxel.configuration.configuration:to_exposure",
    "pyxel.configuration.configuration:to_observation",
    "pyxel.configuration.configuration:to_readout",
    "pyxel.configuration.configuration:to_exposure_outputs", "pyxel.configuration.configuration:to_observation_outputs",
    "pyxel.evaluator:eval_range", "pyxel.observation.parameter_values:ParameterValues.__init__", "pyxel.exposure.readout:Readout.__init__",
    "pyxel.configuration.configuration:Configuration.__post_init__",
    "pyxel.pipelines.processor:Processor.set",
]
STUBS = [
    "np -> vx.symnp in detectors.characteristics / apd_characteristics / exposure.readout; isinstance/int/float shadowed in detectors.environment",
]
OUTSIDE = [
    "YAML text -> mapping (PyYAML) and textual numpy.* range expressions (concrete eval)",
    "'running the file gives the same results as building the objects in Python' (end-to-end equality is a replay, not a solver obligation)",
    "calibration-mode builder (pygmo objects)",
    "APDCharacteristics.avalanche_gain / voltages: the constructor derives bias and capacitance through float()/interpolation tables",
]
ASSUMPTIONS = ["documented ranges are those written in the class docstrings / error messages (table DOC in this module)"]
EXPLANATION = "validators are pure Python comparisons: every branch is a path; the documented range is an independent table"

INF = None
# (class key, field, kind, lower, lower_strict, upper, upper_strict) — from the docstrings / error messages
DOC = [
    ("geometry", "row", "int", 0, True, INF, False),
    ("geometry", "col", "int", 0, True, INF, False),
    ("geometry", "total_thickness", "real", 0.0, False, 10000.0, False),
    ("geometry", "pixel_vert_size", "real", 0.0, False, 1000.0, False),
    ("geometry", "pixel_horz_size", "real", 0.0, False, 1000.0, False),
    ("geometry", "pixel_scale", "real", 0.0, False, 1000.0, False),
    ("characteristics", "quantum_efficiency", "real", 0.0, False, 1.0, False),
    ("characteristics", "charge_to_volt_conversion", "real", 0.0, False, 100.0, False),
    ("characteristics", "pre_amplification", "real", 0.0, False, 10000.0, False),
    ("characteristics", "full_well_capacity", "real", 0.0, False, 1.0e7, False),
    ("characteristics", "adc_bit_resolution", "int", 4, False, 64, False),
    ("environment", "temperature", "real", 0.0, True, 1000.0, False),
    ("environment", "wavelength", "real", 0.0, True, INF, False),
    ("apd_characteristics", "quantum_efficiency", "real", 0.0, False, 1.0, False),
    ("apd_characteristics", "full_well_capacity", "real", 0.0, False, 1.0e7, False),
    ("apd_characteristics", "adc_bit_resolution", "int", 4, False, 64, False),
]
SWEEP_KEY = {"geometry": "detector.geometry.", "characteristics": "detector.characteristics.", "environment": "detector.environment."}


def bounds(tier):
    return {"fields": [f"{c}.{f}" for c, f, *_ in DOC], "value_kinds": "z3 Real / Int, and Float64 (NaN, +-inf, -0.0) for real-valued fields",
            "build": "4 detector types x {exposure, observation}, 3+4 presence flags (128 patterns)"}


def tasks(tier, seed):
    out = []
    for i, (cls, field, kind, *_r) in enumerate(DOC):
        out.append({"fn": "field", "kwargs": {"i": i, "fp": False}, "label": f"field/{cls}.{field}"})
        if kind == "real":
            out.append({"fn": "field", "kwargs": {"i": i, "fp": True}, "label": f"field/{cls}.{field}/ieee",
                        "caps": {"solver_timeout_ms": 30000}})
    out.append({"fn": "voltage_range", "kwargs": {}, "label": "field/characteristics.adc_voltage_range"})
    out.append({"fn": "wavelength_handling", "kwargs": {}, "label": "field/environment.WavelengthHandling"})
    for det in ("ccd", "cmos", "mkid", "apd"):
        for mode in ("exposure", "observation"):
            out.append({"fn": "build", "kwargs": {"det": det, "mode": mode}, "label": f"build/{det},{mode}"})
    out.append({"fn": "presence", "kwargs": {}, "label": "build/presence"})
    for kind in EXPR_KINDS:
        out.append({"fn": "expressions", "kwargs": {"kind": kind, "deep": tier == "thorough"}, "label": f"expressions/{kind}", "caps": {"max_paths": 400}})
    return out


EXPR_KINDS = ("linspace", "arange", "geomspace", "logspace", "arange_int")


def _expression(kind, e, n):
    """(text as written in a configuration file, the numbers it denotes computed independently with numpy)."""
    import numpy as _np

    a = 10.0 ** e
    if kind == "linspace":
        return f"numpy.linspace({a!r}, {2 * a!r}, {n + 2})", [float(v) for v in _np.linspace(a, 2 * a, n + 2)]
    if kind == "arange":
        return f"numpy.arange({a!r}, {(n + 1) * a!r}, {a / 3!r})", [float(v) for v in _np.arange(a, (n + 1) * a, a / 3)]
    if kind == "geomspace":
        return f"numpy.geomspace({a!r}, {a * 1000!r}, {n + 2})", [float(v) for v in _np.geomspace(a, a * 1000, n + 2)]
    if kind == "logspace":
        return f"numpy.logspace({e}, {e + 1}, {n + 2})", [float(v) for v in _np.logspace(e, e + 1, n + 2)]
    return f"numpy.arange({n}, {n + 4})", [int(v) for v in _np.arange(n, n + 4)]


def _expression_case(kind, e, n):
    from pyxel.evaluator import eval_range
    from pyxel.exposure import Readout
    from pyxel.observation import ParameterValues

    text, want = _expression(kind, e, n)
    bad = {}
    got = list(eval_range(text))
    if len(got) != len(want) or any(type(g) is not type(w) or g != w for g, w in zip(got, want)):
        bad["eval_range"] = {"text": text, "evaluated": got[:6], "denotes": want[:6]}
    pv = list(ParameterValues(key="detector.characteristics.charge_to_volt_conversion", values=text))
    if len(pv) != len(want) or any(g != w for g, w in zip(pv, want)):
        bad["parameter_values"] = {"text": text, "evaluated": [float(x) for x in pv[:6]], "denotes": want[:6]}
    if want[0] > 0 and all(b > a_ for a_, b in zip(want, want[1:])):
        try:
            times = [float(t) for t in Readout(times=text).times]
        except Exception as ex:  # noqa: BLE001
            times = f"{type(ex).__name__}: {ex}"
        if times != [float(w) for w in want]:
            bad["readout_times"] = {"text": text, "evaluated": times if isinstance(times, str) else times[:6], "denotes": want[:6]}
    return bad


def expressions(kind, deep=False):
    """Value-range and readout-time expressions (numpy.* text as written in configuration files) evaluate to exactly the numbers they
    denote, for magnitudes from 1e-15 to 1e3 (solver-chosen decade and length; the evaluation itself is numpy's, i.e. concrete)."""
    e, n = vx.integer("decade"), vx.integer("length")
    if deep:
        vx.assume((e >= -18) & (e <= 6) & (n >= 1) & (n <= 6), "decades 1e-18 .. 1e6, six lengths")
    else:
        vx.assume((e >= -15) & (e <= 3) & (n >= 1) & (n <= 3), "decades 1e-15 .. 1e3, three lengths")
    ee, nn = vx.concretize_int(e), vx.concretize_int(n)
    bad = _expression_case(kind, ee, nn)
    vx.prove(f"C12/expressions/denoted_numbers/{kind}/1e{ee},n={nn}", not bad, detail=str(bad)[:300])


def REQUIRED_REACH(tier):
    return ["C12/field/*/ctor_eq_documented", "C12/field/*/setter_eq_documented", "C12/sweep/same_limits/*", "C12/build/leaf_equality/*",
            "C12/build/exactly_one_mode", "C12/build/exactly_one_detector"]


# ------------------------------------------------------------------------------------------------
def _documented(v, lo, lo_strict, hi, hi_strict):
    conds = []
    if lo is not None:
        conds.append(v > lo if lo_strict else v >= lo)
    if hi is not None:
        conds.append(v < hi if hi_strict else v <= hi)
    return vx.all_of(conds)


def _construct(cls, field, v):
    from pyxel.detectors import APDCharacteristics, Characteristics, Environment, Geometry

    if cls == "geometry":
        kw = {"row": 3, "col": 4}
        kw[field] = v
        return Geometry(**kw)
    if cls == "characteristics":
        return Characteristics(**{field: v})
    if cls == "environment":
        return Environment(**{field: v})
    if cls == "apd_characteristics":
        kw = {"roic_gain": 0.8, "avalanche_gain": 10.0, "pixel_reset_voltage": 5.0}
        kw[field] = v
        return APDCharacteristics(**kw)
    raise AssertionError(cls)


def _valid_instance(cls):
    from pyxel.detectors import APDCharacteristics, Characteristics, Environment, Geometry

    if cls == "geometry":
        return Geometry(row=3, col=4, total_thickness=10.0, pixel_vert_size=5.0, pixel_horz_size=5.0, pixel_scale=1.0)
    if cls == "characteristics":
        return Characteristics(quantum_efficiency=0.5, charge_to_volt_conversion=1e-6, pre_amplification=10.0, full_well_capacity=1000.0,
                               adc_bit_resolution=16, adc_voltage_range=(0.0, 5.0))
    if cls == "environment":
        return Environment(temperature=100.0, wavelength=600.0)
    return APDCharacteristics(roic_gain=0.8, avalanche_gain=10.0, pixel_reset_voltage=5.0, quantum_efficiency=0.5, full_well_capacity=1000.0,
                              adc_bit_resolution=16, adc_voltage_range=(0.0, 5.0))


MODS_NP = ("pyxel.detectors.characteristics", "pyxel.detectors.apd.apd_characteristics")


def _patch(p):
    p.numpy(*MODS_NP)
    p.builtins("pyxel.detectors.environment", "isinstance", "float", "int")


SWEEP_ROUTES = ("sweep", "replace", "create_new_processor")


def _sweep(route, key, v):
    """The ways an observation applies a swept value: Processor.set, Processor.replace (parallel path), create_new_processor
    (sequential path).  Returns (accepted, value the resulting processor holds)."""
    from pyxel.observation.misc import create_new_processor
    from pyxel.pipelines import DetectionPipeline, Processor

    proc = Processor(detector=make_ccd(2, 2), pipeline=DetectionPipeline())
    try:
        if route == "sweep":
            proc.set(key, v)
            new = proc
        elif route == "replace":
            new = proc.replace({key: v})
        else:
            new = create_new_processor(processor=proc, parameter_dict={key: v})
    except ValueError:
        return False, None
    obj = new
    parts = key.split(".")
    for a in parts[:-1]:
        obj = getattr(obj, a)
    return True, getattr(obj, "_" + parts[-1])


def field(i, fp):
    cls, fld, kind, lo, los, hi, his = DOC[i]
    if fp:
        v = vx.fp("v")
    elif kind == "int":
        v = vx.integer("v")
    else:
        v = vx.real("v")
    lab = f"{cls}.{fld}" + ("/ieee" if fp else "")
    doc = _documented(v, lo, los, hi, his)
    with Patch() as p:
        _patch(p)
        try:
            obj = _construct(cls, fld, v)
            ok_c = True
        except ValueError:
            ok_c = False
        vx.prove(f"C12/field/{lab}/ctor_eq_documented", doc == ok_c, route="constructor")
        if ok_c:
            got = getattr(obj, "_" + fld)
            vx.prove(f"C12/field/{lab}/ctor_stores_value", True if got is v else got == v)
        inst = _valid_instance(cls)
        held_before = getattr(inst, "_" + fld)
        try:
            setattr(inst, fld, v)
            ok_s = True
        except ValueError:
            ok_s = False
        vx.prove(f"C12/field/{lab}/setter_eq_documented", doc == ok_s, route="attribute")
        if not ok_s:
            # a refused value is not kept: the object still holds what it held before
            held_after = getattr(inst, "_" + fld)
            vx.prove(f"C12/field/{lab}/refused_value_not_stored", held_after is held_before or held_after == held_before, route="attribute:refused")
        if ok_s:
            vx.prove(f"C12/field/{lab}/setter_stores_value", True if getattr(inst, "_" + fld) is v else getattr(inst, "_" + fld) == v)
        if cls in SWEEP_KEY and not fp:
            from pyxel.pipelines import DetectionPipeline, Processor

            for route in SWEEP_ROUTES:
                ok_w, held = _sweep(route, SWEEP_KEY[cls] + fld, v)
                vx.prove(f"C12/sweep/same_limits/{cls}.{fld}" + ("" if route == "sweep" else f"/{route}"), doc == ok_w, route=route)
                if ok_w:
                    # an accepted sweep value is the value the run uses
                    vx.prove(f"C12/sweep/applies_value/{cls}.{fld}/{route}", True if held is v else held == v, route=route + ":applied")
    vx.observe("ctor", ok_c)
    vx.observe("setter", ok_s)


def fidelity_field(kwargs, w):
    cls, fld, kind, *_r = DOC[kwargs["i"]]
    inp = unjson(w["inputs"])
    v = inp["v"]
    v = int(v) if kind == "int" else float(v)
    try:
        _construct(cls, fld, v)
        ok_c = True
    except ValueError:
        ok_c = False
    inst = _valid_instance(cls)
    try:
        setattr(inst, fld, v)
        ok_s = True
    except ValueError:
        ok_s = False
    obs = unjson(w["observed"])
    return (ok_c == obs["ctor"] and ok_s == obs["setter"]), {"concrete": [ok_c, ok_s], "symbolic": [obs["ctor"], obs["setter"]], "v": v}


def voltage_range():
    """adc_voltage_range must be a pair; constructor and setter agree."""
    from pyxel.detectors import Characteristics

    a, b = vx.real("a"), vx.real("b")
    for n, val in (("pair", (a, b)), ("triple", (a, b, a)), ("single", (a,))):
        try:
            Characteristics(adc_voltage_range=val)
            ok_c = True
        except (ValueError, TypeError):
            ok_c = False
        inst = _valid_instance("characteristics")
        try:
            inst.adc_voltage_range = val
            ok_s = True
        except (ValueError, TypeError):
            ok_s = False
        vx.prove(f"C12/field/characteristics.adc_voltage_range/ctor_eq_documented/{n}", ok_c == (n == "pair"))
        vx.prove(f"C12/field/characteristics.adc_voltage_range/setter_eq_documented/{n}", ok_s == (n == "pair"))


def wavelength_handling():
    from pyxel.detectors import WavelengthHandling

    on, off, res = vx.real("cut_on"), vx.real("cut_off"), vx.integer("resolution")
    try:
        WavelengthHandling(cut_on=on, cut_off=off, resolution=res)
        ok = True
    except ValueError:
        ok = False
    vx.prove("C12/field/environment.WavelengthHandling/ctor_eq_documented", vx.all_of([on > 0, on <= off, res > 0]) == ok)


# -- H2 --------------------------------------------------------------------------------------------
GEO_EXTRA = {"ccd": {}, "cmos": {}, "mkid": {}, "apd": {}}


def _document(det, mode, sym):
    """A configuration mapping as the YAML loader would deliver it, numeric leaves from `sym`."""
    s = sym
    doc = {
        "pipeline": {
            "charge_generation": [{"name": "g", "func": "vxprobes.probe", "enabled": True, "arguments": {"a": s("arg_a"), "b": [s("arg_b0"), s("arg_b1")]}}],
            "photon_collection": [{"name": "p", "func": "vxprobes.probe_a", "enabled": False, "arguments": {"level": s("arg_level")}},
                                  {"name": "q", "func": "vxprobes.probe_b", "enabled": True}],
            "charge_transfer": None,
        },
        f"{det}_detector": {
            "geometry": {"row": 3, "col": 4, "total_thickness": s("thick"), "pixel_vert_size": s("pvs"), "pixel_horz_size": s("phs"), "pixel_scale": s("pscale")},
            "environment": {"temperature": s("temp")},
            "characteristics": ({"quantum_efficiency": s("qe"), "charge_to_volt_conversion": s("c2v"), "pre_amplification": s("pre"),
                                 "full_well_capacity": s("fwc"), "adc_bit_resolution": 16, "adc_voltage_range": [s("v0"), s("v1")]}
                                if det != "apd" else
                                {"quantum_efficiency": s("qe"), "full_well_capacity": s("fwc"), "adc_bit_resolution": 16, "adc_voltage_range": [s("v0"), s("v1")],
                                 "roic_gain": s("roic"), "avalanche_gain": s("gain"), "pixel_reset_voltage": s("prv")}),
        },
    }
    readout = {"times": [s("t0"), s("t1")], "start_time": s("start"), "non_destructive": True}
    # rarely written settings of the running mode: every one of them must arrive as written
    outputs = {"output_folder": f"out_{mode}", "custom_dir_name": f"{mode}_sweep_", "save_data_to_file": [{"detector.image.array": ["npy"]}, {"detector.pixel.array": ["fits", "npy"]}]}
    if mode == "exposure":
        doc["exposure"] = {"readout": readout, "outputs": outputs, "pipeline_seed": 1234}
    else:
        doc["observation"] = {"readout": readout, "mode": "product", "outputs": outputs, "pipeline_seed": 4321, "with_dask": True,
                              "parameters": [{"key": "pipeline.charge_generation.g.arguments.a", "values": [s("p0"), s("p1"), s("p2")]},
                                             {"key": "detector.environment.temperature", "values": [s("q0"), s("q1")], "enabled": False}]}
    return doc


RANGES = {"thick": (0, 10000), "pvs": (0, 1000), "phs": (0, 1000), "pscale": (0, 1000), "temp": (0, 1000), "qe": (0, 1), "c2v": (0, 100), "pre": (0, 10000),
          "fwc": (0, 1e7), "gain": (1, 1000)}


def build(det, mode):
    import pyxel.configuration.configuration as cfg

    made = {}

    def s(name):
        if name not in made:
            if name in ("roic", "gain", "prv"):
                # the APD constructor derives bias / capacitance through interpolation tables (C code): concrete leaves
                made[name] = {"roic": 0.8, "gain": 10.0, "prv": 5.0}[name]
                return made[name]
            v = vx.real(name)
            if name in RANGES:
                lo, hi = RANGES[name]
                vx.assume((v > lo) & (v <= hi), "generated document: validated quantities inside their documented ranges")
            made[name] = v
        return made[name]

    doc = _document(det, mode, s)
    vx.assume((made["t0"] != 0) & (made["start"] < made["t0"]) & (made["t0"] < made["t1"]), "generated document: valid readout schedule")
    with Patch() as p:
        _patch(p)
        p.numpy("pyxel.exposure.readout", "pyxel.observation.parameter_values")
        conf = cfg._build_configuration(copy.deepcopy(doc))
    lab = f"{det},{mode}"
    d = conf.detector
    g = doc[f"{det}_detector"]
    ok = [d.geometry.row == 3, d.geometry.col == 4, d.geometry.total_thickness == made["thick"], d.geometry.pixel_vert_size == made["pvs"],
          d.geometry.pixel_horz_size == made["phs"], d.geometry.pixel_scale == made["pscale"], d.environment.temperature == made["temp"],
          d.characteristics.quantum_efficiency == made["qe"], d.characteristics.full_well_capacity == made["fwc"],
          d.characteristics.adc_bit_resolution == 16, d.characteristics.adc_voltage_range[0] == made["v0"], d.characteristics.adc_voltage_range[1] == made["v1"]]
    if det != "apd":
        ok += [d.characteristics.charge_to_volt_conversion == made["c2v"], d.characteristics.pre_amplification == made["pre"]]
    else:
        ok += [d.characteristics.avalanche_gain == made["gain"], d.characteristics.pixel_reset_voltage == made["prv"], d.characteristics.roic_gain == made["roic"]]
    ok.append(type(d).__name__.lower() == det)
    vx.prove(f"C12/build/leaf_equality/{lab}/detector", vx.all_of(ok))
    rm = conf.running_mode
    ro = rm.readout
    vx.prove(f"C12/build/leaf_equality/{lab}/readout", vx.all_of([ro.times.elems()[0] == made["t0"], ro.times.elems()[1] == made["t1"], len(ro.times) == 2,
                                                                  ro.start_time == made["start"], ro.non_destructive is True]))
    out = rm.outputs
    vx.prove(f"C12/build/leaf_equality/{lab}/mode_settings", vx.all_of([
        out is not None, str(getattr(out, "_output_folder", "")).endswith(f"out_{mode}"), getattr(out, "_custom_dir_name", None) == f"{mode}_sweep_",
        [dict(x) for x in (out.save_data_to_file or [])] == [{"detector.image.array": ["npy"]}, {"detector.pixel.array": ["fits", "npy"]}],
        rm.pipeline_seed == (1234 if mode == "exposure" else 4321), (mode == "exposure") or rm.with_dask is True]),
        outputs=repr(out)[:120], custom_dir_name=repr(getattr(out, "_custom_dir_name", None)))
    pl = conf.pipeline
    cg, pc = pl.charge_generation.models, pl.photon_collection.models
    vx.prove(f"C12/build/leaf_equality/{lab}/pipeline", vx.all_of([
        len(cg) == 1, cg[0].name == "g", cg[0].enabled is True, cg[0].arguments["a"] == made["arg_a"],
        cg[0].arguments["b"][0] == made["arg_b0"], cg[0].arguments["b"][1] == made["arg_b1"], len(cg[0].arguments) == 2,
        len(pc) == 2, pc[0].name == "p", pc[0].enabled is False, pc[0].arguments["level"] == made["arg_level"], pc[1].name == "q", pc[1].enabled is True,
        len(pc[1].arguments) == 0, pl.charge_transfer is None, pl.scene_generation is None, cg[0]._func_name == "vxprobes.probe"]))
    if mode == "observation":
        ps = rm.parameter_mode.parameters
        vals0 = list(ps[0])
        vx.prove(f"C12/build/leaf_equality/{lab}/parameters", vx.all_of([
            len(ps) == 2, ps[0].key == "pipeline.charge_generation.g.arguments.a", len(vals0) == 3, vals0[0] == made["p0"], vals0[1] == made["p1"],
            vals0[2] == made["p2"], ps[0].enabled is True, ps[1].enabled is False, list(ps[1])[1] == made["q1"], type(rm.parameter_mode).__name__ == "ProductMode"]))


def presence():
    """Exactly one running mode and exactly one detector: presence of the 3 + 4 keys is symbolic."""
    import pyxel.configuration.configuration as cfg

    made = {}

    def s(name):
        made.setdefault(name, {"t0": 1.0, "t1": 2.0, "start": 0.0, "gain": 10.0, "prv": 5.0, "roic": 0.8}.get(name, 0.5))
        return made[name]

    modes = ["exposure", "observation", "calibration"]
    dets = ["ccd_detector", "cmos_detector", "mkid_detector", "apd_detector"]
    flags = {k: vx.boolean("has_" + k) for k in modes + dets}
    base_e = _document("ccd", "exposure", s)
    base_o = _document("ccd", "observation", s)
    doc = {"pipeline": base_e["pipeline"]}
    present = {k: bool(f) for k, f in flags.items()}  # forks: 128 patterns
    if present["exposure"]:
        doc["exposure"] = base_e["exposure"]
    if present["observation"]:
        doc["observation"] = base_o["observation"]
    if present["calibration"]:
        doc["calibration"] = None  # never built when the count is wrong; with count == 1 it is the only mode
    for k in dets:
        if present[k]:
            doc[k] = _document(k.split("_")[0], "exposure", s)[k]
    n_modes = sum(present[k] for k in modes)
    n_dets = sum(present[k] for k in dets)
    if present["calibration"] and n_modes == 1:
        return  # calibration builder is outside this harness
    try:
        conf = cfg._build_configuration(copy.deepcopy(doc))
        ok = True
    except ValueError:
        ok = False
    vx.prove("C12/build/exactly_one_mode", (ok is False) if n_modes != 1 else True)
    vx.prove("C12/build/exactly_one_detector", (ok is False) if n_dets != 1 else True)
    vx.prove("C12/build/accept_well_formed", ok == (n_modes == 1 and n_dets == 1))
    if ok:
        want = [k for k in dets if present[k]][0].split("_")[0]
        vx.prove("C12/build/right_detector_type", type(conf.detector).__name__.lower() == want)


# ------------------------------------------------------------------------------------------------
def replay(oid, kwargs, model, data):
    fn = data["fn"]
    if fn == "field":
        cls, fld, kind, lo, los, hi, his = DOC[kwargs["i"]]
        v = model.get("v", 0)
        v = int(v) if kind == "int" else float(v)
        doc = (v > lo if los else v >= lo) if lo is not None else True
        if hi is not None:
            doc = doc and (v < hi if his else v <= hi)
        if v != v:
            doc = False
        route = data.get("info", {}).get("route")
        res = {}
        try:
            _construct(cls, fld, v)
            res["constructor"] = True
        except ValueError:
            res["constructor"] = False
        inst = _valid_instance(cls)
        held_before = getattr(inst, "_" + fld)
        try:
            setattr(inst, fld, v)
            res["attribute"] = True
        except ValueError:
            res["attribute"] = False
            held_after = getattr(inst, "_" + fld)
            res["attribute:refused"] = bool(held_after is held_before or held_after == held_before)
            res["attribute:holds_after_refusal"] = repr(held_after)
        if cls in SWEEP_KEY:
            from pyxel.pipelines import DetectionPipeline, Processor

            for r_ in SWEEP_ROUTES:
                ok_w, held = _sweep(r_, SWEEP_KEY[cls] + fld, v)
                res[r_] = ok_w
                if ok_w:
                    res[r_ + ":applied"] = (held == v) == doc or bool(held == v)
                    res[r_ + ":holds"] = held
        det = {"value": v, "documented_accepts": doc, **res}
        if route == "attribute:refused":
            return res.get("attribute:refused") is False, det
        if route is not None and route.endswith(":applied"):
            return res.get(route) is False or res.get(route.split(":")[0] + ":holds") != v, det
        if route in res:
            return res[route] != doc, det
        return any(r != doc for k_, r in res.items() if ":" not in k_), det
    if fn == "voltage_range":
        from pyxel.detectors import Characteristics

        n = oid.rsplit("/", 1)[-1]
        val = {"pair": (0.0, 1.0), "triple": (0.0, 1.0, 2.0), "single": (0.0,)}[n]
        if "ctor" in oid:
            try:
                Characteristics(adc_voltage_range=val)
                ok = True
            except (ValueError, TypeError):
                ok = False
        else:
            inst = _valid_instance("characteristics")
            try:
                inst.adc_voltage_range = val
                ok = True
            except (ValueError, TypeError):
                ok = False
        return ok != (n == "pair"), {"value": list(val), "accepted": ok}
    if fn == "expressions":
        bad = _expression_case(kwargs["kind"], int(model.get("decade", 0)), int(model.get("length", 1)))
        return bool(bad), bad
    if fn == "build":
        import tempfile

        import pyxel
        import yaml

        det, mode = kwargs["det"], kwargs["mode"]
        made = {}

        def s(name):
            if name not in made:
                dflt = {"roic": 0.8, "gain": 10.0, "prv": 5.0, "t0": 1.0, "t1": 2.0, "start": 0.0, "v0": 0.0, "v1": 5.0}.get(name, 0.5)
                made[name] = float(model.get(name, dflt))
            return made[name]

        doc = _document(det, mode, s)
        # through the real front door: the document written as a YAML file and loaded with pyxel.load
        tmp = tempfile.mkdtemp(prefix="vx_c12_")
        path = os.path.join(tmp, "config.yaml")
        try:
            with open(path, "w") as fh:
                yaml.safe_dump(doc, fh)
            conf = pyxel.load(path)
        finally:
            try:
                os.remove(path)
                os.rmdir(tmp)
            except OSError:
                pass
        rm, d = conf.running_mode, conf.detector
        out = rm.outputs
        diffs = {}
        want = {"output_folder": f"out_{mode}", "custom_dir_name": f"{mode}_sweep_", "pipeline_seed": 1234 if mode == "exposure" else 4321}
        got = {"output_folder": os.path.basename(str(getattr(out, "_output_folder", ""))), "custom_dir_name": getattr(out, "_custom_dir_name", None), "pipeline_seed": rm.pipeline_seed}
        for k in want:
            if got[k] != want[k]:
                diffs[k] = {"file_says": want[k], "loaded": got[k]}
        if mode == "observation" and rm.with_dask is not True:
            diffs["with_dask"] = {"file_says": True, "loaded": rm.with_dask}
        for name, val in (("temperature", d.environment.temperature), ("total_thickness", d.geometry.total_thickness), ("quantum_efficiency", d.characteristics.quantum_efficiency)):
            key = {"temperature": "temp", "total_thickness": "thick", "quantum_efficiency": "qe"}[name]
            if abs(float(val) - made[key]) > 1e-12:
                diffs[name] = {"file_says": made[key], "loaded": float(val)}
        return bool(diffs), {"differences": diffs}
    if fn == "presence":
        import pyxel.configuration.configuration as cfg

        made = {}

        def s(name):
            made.setdefault(name, {"t0": 1.0, "t1": 2.0, "start": 0.0, "gain": 10.0, "prv": 5.0, "roic": 0.8}.get(name, 0.5))
            return made[name]

        modes = ["exposure", "observation", "calibration"]
        dets = ["ccd_detector", "cmos_detector", "mkid_detector", "apd_detector"]
        present = {k: bool(model.get("has_" + k, False)) for k in modes + dets}
        doc = {"pipeline": _document("ccd", "exposure", s)["pipeline"]}
        if present["exposure"]:
            doc["exposure"] = _document("ccd", "exposure", s)["exposure"]
        if present["observation"]:
            doc["observation"] = _document("ccd", "observation", s)["observation"]
        if present["calibration"]:
            doc["calibration"] = None
        for k in dets:
            if present[k]:
                doc[k] = _document(k.split("_")[0], "exposure", s)[k]
        n_modes, n_dets = sum(present[k] for k in modes), sum(present[k] for k in dets)
        try:
            cfg._build_configuration(copy.deepcopy(doc))
            ok = True
        except ValueError as e:
            ok = False
            err = repr(e)
        return ok != (n_modes == 1 and n_dets == 1), {"present": [k for k, v in present.items() if v], "accepted": ok, "error": None if ok else err}
    return False, {"note": "no concrete oracle"}
