"""C02 — readout clock and per-step bucket lifecycle.

Real code executed symbolically: Readout / ReadoutProperties / calculate_steps / Detector.set_readout
/ Detector.empty / Pixel.empty / Charge.empty / Photon.empty / ArrayBase.empty and the loop of
exposure.run_pipeline, with symbolic readout times, start time, destructive flag, prior bucket
contents and per-step written values.
"""

from __future__ import annotations

import vx
import vxprobes
from vx import symnp
from vx.core import Fraction, unjson
from vx.patching import Patch

from .common import DATA_MODULES, arr_eq, close, make_ccd, nums, sym_array

PROPERTY = "C02"
LEVEL = "model_checking"
SHAPE = (2, 2)

FUNCTIONS = [
    "pyxel.exposure.readout:Readout.__init__",
    "pyxel.exposure.readout:Readout._set_steps",
    "pyxel.exposure.readout:Readout.times",
    "pyxel.exposure.readout:Readout.start_time",
    "pyxel.exposure.readout:Readout.replace",
    "pyxel.exposure.readout:calculate_steps",
    "pyxel.detectors.readout_properties:ReadoutProperties.__init__",
    "pyxel.detectors.readout_properties:ReadoutProperties.absolute_time",
    "pyxel.detectors.readout_properties:ReadoutProperties.is_first_readout",
    "pyxel.detectors.detector:Detector.set_readout",
    "pyxel.detectors.detector:Detector.empty",
    "pyxel.detectors.detector:Detector.is_last_readout",
    "pyxel.data_structure.pixel:Pixel.empty",
    "pyxel.data_structure.charge:Charge.empty",
    "pyxel.data_structure.photon:Photon.empty",
    "pyxel.data_structure.array:ArrayBase.empty",
    "pyxel.exposure.exposure:run_pipeline",
    "pyxel.pipelines.processor:Processor.run_pipeline",
    "pyxel.pipelines.model_group:ModelGroup.run",
    "pyxel.evaluator:eval_range",
]
STUBS = [
    "numba.njit -> identity (the cluster binning of Charge.array runs un-jitted); charge is written alternately as an array and as a positioned cluster",
    "pyxel.exposure.exposure._extract_datatree_2d returns an empty DataTree during symbolic runs "
    "(symbolic arrays cannot enter xarray); fidelity replays use the real function whenever the write pattern "
    "initialises the image bucket (real pyxel cannot merge >= 2 steps without it)",
    "np in pyxel.exposure.readout, pyxel.detectors.readout_properties, pyxel.data_structure.* -> vx.symnp",
]
OUTSIDE = [
    "IEEE rounding of time differences, NaN and infinite times (real arithmetic; inputs assumed finite); bucket resets have an IEEE layer of their own",
    "textual numpy.* expressions and time files are exercised on every accepted path witness (concrete), not symbolically",
]
ASSUMPTIONS = ["readout times, start time and bucket values are finite reals"]
EXPLANATION = (
    "Every feasible path of the real Readout/ReadoutProperties validation and of the exposure loop "
    "is executed with symbolic times/start/flag; per path the clock values seen by probe models and "
    "the bucket states at step start are compared with the statement's definition by z3 (LRA)."
)


def bounds(tier):
    return {
        "readouts_n": "1..6" if tier == "quick" else "1..12",
        "frame": "2x2",
        "write_pattern_symbolic_for_n": "<=2",
        "theory": "linear real arithmetic",
    }


def tasks(tier, seed):
    out = _tasks(tier, seed)
    if tier == "quick":
        for t in out:
            # concrete re-runs of the real exposure loop validate the encoding; 40 per task plus every 25th path is plenty for the quick tier
            t.setdefault("caps", {}).update({"max_fidelity": 40, "fidelity_stride": 25})
    return out


def _tasks(tier, seed):
    ns = range(1, 7) if tier == "quick" else range(1, 13)
    out = []
    for n in ns:
        for via in ("Readout", "ReadoutProperties"):
            out.append({"fn": "ctor", "kwargs": {"n": n, "via": via}, "label": f"ctor/{via}/n={n}"})
    for n in ns:
        out.append({"fn": "loop", "kwargs": {"n": n, "via": "ctor", "flags": "all"}, "label": f"loop/ctor/n={n}"})
        if n <= 4:
            out.append({"fn": "loop", "kwargs": {"n": n, "via": "ctor", "flags": "all", "cluster_parity": 0}, "label": f"loop/ctor/n={n}/clusters_first"})
    for n in (1, 2, 3) if tier == "quick" else (1, 2, 3, 4, 6):
        for via in ("setter_times", "setter_start", "replace", "scalar"):
            if via == "scalar" and n > 1:
                continue
            out.append({"fn": "loop", "kwargs": {"n": n, "via": via, "flags": "all"}, "label": f"loop/{via}/n={n}"})
    for n in (1, 2):
        out.append({"fn": "loop", "kwargs": {"n": n, "via": "ctor", "flags": "sym"}, "label": f"loop/writes=symbolic/n={n}", "caps": {"max_seconds": 300}})
    out.append({"fn": "loop", "kwargs": {"n": 1, "via": "ctor", "flags": "sym", "cluster_parity": 0}, "label": "loop/writes=symbolic/n=1/clusters_first"})
    for kind in ("cmos", "mkid", "apd"):
        for n in ((2,) if tier == "quick" else (1, 2, 3)):
            out.append({"fn": "loop", "kwargs": {"n": n, "via": "ctor", "flags": "all", "kind": kind}, "label": f"loop/ctor/n={n}/{kind}"})
    for kind in ("ccd", "cmos", "mkid", "apd"):
        out.append({"fn": "reset_ieee", "kwargs": {"kind": kind}, "label": f"reset_ieee/{kind}", "solver": "cvc5", "cross_check": False})
    if tier == "thorough":
        out.append({"fn": "loop", "kwargs": {"n": 2, "via": "ctor", "flags": "sym", "cluster_parity": 0}, "label": "loop/writes=symbolic/n=2/clusters_first"})
    return out


def REQUIRED_REACH(tier):
    return ["C02/ctor/accept_iff_valid*", "C02/ctor/steps_values*", "C02/loop/clock*", "C02/buckets/pixel_nondestructive*",
            "C02/buckets/pixel_destructive*", "C02/invalid/no_model_called*", "C02/buckets/no_leak_step0*"]


# ------------------------------------------------------------------------------------------
def _valid(ts, s):
    conds = [ts[0] != 0, s < ts[0]] + [ts[i] < ts[i + 1] for i in range(len(ts) - 1)]
    return vx.all_of(conds)


def ctor(n, via):
    from pyxel.detectors import readout_properties as rp
    from pyxel.exposure import readout as ro

    ts = [vx.real(f"t{i}") for i in range(n)]
    s = vx.real("s")
    with Patch() as p:
        p.numpy("pyxel.exposure.readout", "pyxel.detectors.readout_properties")
        try:
            if via == "Readout":
                r = ro.Readout(times=ts, start_time=s)
            else:
                r = rp.ReadoutProperties(times=ts, start_time=s)
            ok = True
        except ValueError:
            ok = False
        tag = f"{via}/n={n}"
        vx.prove(f"C02/ctor/accept_iff_valid/{tag}", _valid(ts, s) == ok)
        if ok:
            exp = [ts[0] - s] + [ts[i + 1] - ts[i] for i in range(n - 1)]
            st = r.steps
            vx.prove(f"C02/ctor/steps_values/{tag}", vx.all_of([len(st) == n] + [a == b for a, b in zip(st.elems(), exp)]))
            vx.prove(f"C02/ctor/times_kept/{tag}", vx.all_of([a == b for a, b in zip(r.times.elems(), ts)]))
            vx.prove(f"C02/ctor/steps_sum/{tag}", vx.sym_abs(symnp.np_sum(st) - (ts[-1] - s)) == 0)
            vx.observe("steps", st.elems())


def fidelity_ctor(kwargs, w):
    import numpy as np

    from pyxel.detectors import ReadoutProperties
    from pyxel.exposure import Readout

    inp = unjson(w["inputs"])
    n = kwargs["n"]
    ts = [inp[f"t{i}"] for i in range(n)]
    s = inp["s"]
    exact = all(Fraction(float(x)) == x for x in ts + [s])
    cls = Readout if kwargs["via"] == "Readout" else ReadoutProperties
    try:
        r = cls(times=[float(t) for t in ts], start_time=float(s))
        ok = True
    except ValueError:
        ok = False
    sym_ok = "steps" in w["observed"]
    if ok != sym_ok:
        return (not exact), {"concrete_accepts": ok, "symbolic_accepts": sym_ok, "exact": exact}
    if ok:
        return close(list(np.asarray(r.steps)), nums(unjson(w["observed"]["steps"]))), {"steps": list(map(float, r.steps))}
    return True, {}


# ------------------------------------------------------------------------------------------
BUCKETS = ("photon", "signal", "image", "charge")


DETECTOR = {"kind": "ccd"}


def _processor():
    from pyxel.pipelines import DetectionPipeline, ModelFunction, Processor

    if DETECTOR["kind"] == "ccd":
        det = make_ccd(*SHAPE)
    else:
        from .c08_keys import _make_det

        det = _make_det(DETECTOR["kind"])
        det.geometry._row, det.geometry._col = SHAPE
        det.geometry._pixel_vert_size = det.geometry._pixel_horz_size = 10.0
        det._initialize()
    pipe = DetectionPipeline(
        photon_collection=[ModelFunction(func="vxprobes.probe", name="first", arguments={"tag": "first"})],
        charge_collection=[ModelFunction(func="vxprobes.probe_a", name="write", arguments={"tag": "write"})],
        data_processing=[ModelFunction(func="vxprobes.probe_b", name="last", arguments={"tag": "last"})],
    )
    return Processor(detector=det, pipeline=pipe)


def _scene_source(k=0):
    """A valid one-star scene source (concrete: the scene's content is not part of the property, its emptiness is)."""
    import numpy as _np
    import xarray as xr

    return xr.Dataset({"x": xr.DataArray([1.0 + k], dims="ref"), "y": xr.DataArray([2.0], dims="ref"), "weight": xr.DataArray([3.0], dims="ref"),
                       "flux": xr.DataArray(_np.ones((1, 2)), dims=["ref", "wavelength"])}, coords={"ref": [0], "wavelength": [500.0, 600.0]})


def _scene_sources(d):
    """Number of sources the scene holds (counted over the whole tree, not only the root node)."""
    return sum(1 for node in d.scene.data.subtree if node.has_data or len(node.data_vars)) 


def _cluster(d, xp, number):
    """One charge cluster (particle interface) in the middle of pixel (0, 0)."""
    import numpy as np

    z = xp.zeros(1)
    mk = (lambda v: xp.asarray([v])) if xp is symnp else (lambda v: np.array([v], dtype=float))
    d.charge.add_charge(particle_type="e", particles_per_cluster=mk(number), init_energy=z, init_ver_position=mk(5.0), init_hor_position=mk(5.0),
                        init_z_position=z, init_ver_velocity=z, init_hor_velocity=z, init_z_velocity=z)


def _drive(n, via, ts, s, nd, prior, writes, flags, symbolic, cluster_parity=1):
    """Shared by the symbolic run and the concrete fidelity replay.  Returns (accepted, records)."""
    import numpy as np

    from pyxel.exposure import Readout
    from pyxel.exposure import exposure as ex

    proc = _processor()
    det = proc.detector
    xp = symnp if symbolic else np
    # contents left behind by "an earlier run"
    det.photon._array = prior["photon"]
    det.pixel._array = prior["pixel"]
    det.signal._array = prior["signal"]
    det.image._array = prior["image"]
    det.charge._array = prior["charge"]
    if prior.get("scene"):
        det.scene.add_source(_scene_source(7))

    def hook(d, tag, kwargs, rec):
        if tag == "first":
            rec["clock"] = [d.time, d.time_step, d.absolute_time, d.pipeline_count]
            rec["flags"] = [d.is_first_readout, d.is_last_readout, d.readout_properties.is_last_readout]
            rec["empty"] = {
                "photon": d.photon._array is None,
                "signal": d.signal._array is None,
                "image": d.image._array is None,
                "scene": _scene_sources(d) == 0,
                "charge_frame": d.charge.frame_empty(),
            }
            rec["charge_array"] = d.charge.array.copy()  # public read, as the models and the result extraction do
            rec["pixel"] = d.pixel.array.copy()
        elif tag == "write":
            i = sum(1 for r in vxprobes.TRACE if r["tag"] == "write") - 1
            wv, fl = writes[i], flags[i]
            d.pixel.array = d.pixel.array + wv["pixel"]
            if fl["photon"]:
                d.photon.array = xp.abs(wv["photon"]) if symbolic else np.abs(wv["photon"])
            if fl["signal"]:
                d.signal.array = wv["signal"]
            if fl["image"]:
                d.image.array = wv["image"]
            if fl.get("scene", True):
                d.scene.add_source(_scene_source(i))
            if fl["charge"]:
                if i % 2 == cluster_parity:
                    _cluster(d, xp, wv["charge"][0, 0])  # through the particle (data-frame) interface
                else:
                    d.charge.add_charge_array(wv["charge"])
        elif tag == "last":
            rec["pixel_final"] = d.pixel.array.copy()
            rec["charge_final"] = d.charge.array.copy()  # the real result extraction reads the charge bucket at the end of every step

    vxprobes.reset(hook)
    accepted = True
    import numba

    real_njit = numba.njit
    if not symbolic:
        # pyxel re-compiles its local jitted binning function at every read of a charge frame (~2 s each): the concrete
        # replays run it un-jitted (same Python code); the jitted path itself is exercised by the C14 replays
        numba.njit = lambda f=None, **kw: f if f is not None else (lambda g: g)
    try:
        if via == "ctor":
            ro = Readout(times=ts, start_time=s, non_destructive=nd)
        elif via == "scalar":
            ro = Readout(times=ts[0], start_time=s, non_destructive=nd)
        elif via == "setter_times":
            # the start time stays at the concrete 0.0 (caller passes s = 0)
            ro = Readout(times=[1.0, 2.0][: max(1, min(2, n))], start_time=0.0, non_destructive=nd)
            ro.times = ts
        elif via == "setter_start":
            ro = Readout(times=ts, start_time=ts[0] - 1, non_destructive=nd)
            ro.start_time = s
        elif via == "replace":
            ro0 = Readout(times=[1.0], start_time=0.0, non_destructive=False)
            ro = ro0.replace(times=ts, start_time=s, non_destructive=nd)
        else:
            raise AssertionError(via)
        stub = symbolic or not all(f["image"] for f in flags)
        # (real pyxel needs the image bucket initialised to merge >= 2 steps; when a write pattern
        #  leaves it empty the concrete replay stubs the extraction exactly like the symbolic run)
        old = ex._extract_datatree_2d
        if stub and not symbolic:
            import xarray as xr

            ex._extract_datatree_2d = lambda detector: xr.DataTree()
        try:
            ex.run_pipeline(
                processor=proc, readout=ro, outputs=None, debug=False, with_inherited_coords=False
            )
        finally:
            if stub and not symbolic:
                ex._extract_datatree_2d = old
    except ValueError:
        accepted = False
    finally:
        numba.njit = real_njit
    recs = list(vxprobes.TRACE)
    vxprobes.reset(None)
    return accepted, recs


def loop(n, via, flags, cluster_parity=1, kind="ccd"):
    DETECTOR["kind"] = kind
    ts = [vx.real(f"t{i}") for i in range(n)]
    s = vx.real("s")
    if via == "setter_times":
        vx.assume(s == 0, "setter_times variant: start time is the concrete 0.0 of the base readout")
    nd = vx.boolean("non_destructive")
    prior = {
        "photon": sym_array("prior_photon", SHAPE),
        "pixel": sym_array("prior_pixel", SHAPE),
        "signal": sym_array("prior_signal", SHAPE),
        "image": sym_array("prior_image", SHAPE, kind="int", dtype="uint16"),
        "charge": sym_array("prior_charge", SHAPE),
        # the earlier run may or may not have left a scene behind (symbolic for short schedules, present otherwise)
        "scene": bool(vx.boolean("prior_scene")) if n <= 2 and flags != "sym" else True,
    }
    writes = [
        {
            "pixel": sym_array(f"w{i}_pixel", SHAPE),
            "photon": sym_array(f"w{i}_photon", SHAPE),
            "signal": sym_array(f"w{i}_signal", SHAPE),
            "image": sym_array(f"w{i}_image", SHAPE, kind="int", dtype="uint16"),
            "charge": sym_array(f"w{i}_charge", SHAPE),
        }
        for i in range(n)
    ]
    for i in range(n):
        for e in writes[i]["charge"].elems():
            vx.assume(e >= 0, "charge added by the writer probe is non-negative")
    if flags == "sym":
        fl = [{b: vx.boolean(f"f{i}_{b}") for b in BUCKETS + ("scene",)} for i in range(n)]
    else:
        fl = [{b: True for b in BUCKETS + ("scene",)} for i in range(n)]
    tag = f"{via}/n={n}" + ("" if kind == "ccd" else f"/{kind}")
    with Patch() as p:
        p.numpy("pyxel.exposure.readout", "pyxel.detectors.readout_properties", *DATA_MODULES)
        import xarray as xr

        p.attr("pyxel.exposure.exposure", "_extract_datatree_2d", lambda detector: xr.DataTree(), "empty DataTree")
        p.attr("numba", "njit", lambda f=None, **kw: f if f is not None else (lambda g: g), "identity (cluster binning)")
        p.numpy("pyxel.detectors.geometry")
        accepted, recs = _drive(n, via, ts, s, nd, prior, writes, fl, True, cluster_parity)

    valid = _valid(ts, s)
    vx.prove(f"C02/loop/accept_iff_valid/{tag}", valid == accepted)
    if not accepted:
        vx.prove(f"C02/invalid/no_model_called/{tag}", len(recs) == 0)
        vx.observe("accepted", False)
        return
    vx.observe("accepted", True)
    tags = [r["tag"] for r in recs]
    vx.prove(f"C02/loop/n_steps/{tag}", tags == ["first", "write", "last"] * n)
    firsts = [r for r in recs if r["tag"] == "first"]
    lasts = [r for r in recs if r["tag"] == "last"]
    clock_ok, flags_ok, empty_ok, charge_ok = [], [], [], []
    for i, r in enumerate(firsts):
        prev = s if i == 0 else ts[i - 1]
        t, st, ab, cnt = r["clock"]
        clock_ok += [t == ts[i], st == ts[i] - prev, ab == s + ts[i], cnt == i]
        flags_ok += [r["flags"][0] == (i == 0), r["flags"][1] == (i == n - 1), r["flags"][2] == (i == n - 1)]
        empty_ok += [bool(v) for v in r["empty"].values()]
        charge_ok += [e == 0 for e in symnp.asarray(r["charge_array"]).elems()]
    vx.prove(f"C02/loop/clock/{tag}", vx.all_of(clock_ok))
    vx.prove(f"C02/loop/count_flags/{tag}", vx.all_of(flags_ok))
    vx.prove(f"C02/buckets/empty_at_start/{tag}", vx.all_of(empty_ok + charge_ok))
    # pixel lifecycle
    zero = [e == 0 for e in symnp.asarray(firsts[0]["pixel"]).elems()]
    vx.prove(f"C02/buckets/no_leak_step0/{tag}", vx.all_of(zero))
    nd_on_path = vx.current().implied(nd.t)
    pix = []
    for i in range(1, n):
        if nd_on_path:
            pix.append(arr_eq(firsts[i]["pixel"], lasts[i - 1]["pixel_final"]))
        else:
            pix += [e == 0 for e in symnp.asarray(firsts[i]["pixel"]).elems()]
    if not pix:
        pass  # a single readout: there is no later step whose pixel bucket could be compared (nothing is posted)
    elif nd_on_path:
        vx.prove(f"C02/buckets/pixel_nondestructive/{tag}", vx.all_of(pix))
    else:
        # the path fixed the flag to False (n >= 2) or never looked at it
        vx.prove(f"C02/buckets/pixel_destructive/{tag}", vx.all_of(pix))
    vx.observe("clock", [r["clock"] for r in firsts])
    vx.observe("pixel_first", [symnp.asarray(r["pixel"]).elems() for r in firsts])
    vx.observe("pixel_final", [symnp.asarray(r["pixel_final"]).elems() for r in lasts])


def reset_ieee(kind):
    """IEEE-754 layer of the reset: whatever the pixel and charge buffers hold when a step or a run ends - NaN and infinities
    included (a division by a dead pixel's response, an overflow) - they read as exactly zero after the reset."""
    import numpy as np

    from .c08_keys import _make_det

    det = _make_det(kind)
    det.geometry._row, det.geometry._col = SHAPE
    det._initialize()
    n = SHAPE[0] * SHAPE[1]
    pv = [vx.fp(f"pixel_{i}") for i in range(n)]
    cv = [vx.fp(f"charge_{i}") for i in range(n)]
    with Patch() as p:
        p.numpy(*DATA_MODULES)
        det.pixel._array = symnp.SymArray.from_elems(pv, SHAPE, np.float64)
        det.charge._array = symnp.SymArray.from_elems(cv, SHAPE, np.float64)
        det.empty(True)
        pix = symnp.asarray(det.pixel.array).elems()
        chg = symnp.asarray(det.charge.array).elems()
    vx.prove(f"C02/buckets/reset_ieee/pixel/{kind}", vx.all_of([e == 0 for e in pix]))
    vx.prove(f"C02/buckets/reset_ieee/charge/{kind}", vx.all_of([e == 0 for e in chg]))


def fidelity_loop(kwargs, w):
    import numpy as np

    inp = unjson(w["inputs"])
    n, via, flags = kwargs["n"], kwargs["via"], kwargs["flags"]
    DETECTOR["kind"] = kwargs.get("kind", "ccd")

    def arr(name, dtype=float):
        return np.array([float(inp[f"{name}_{i}"]) if dtype is float else int(inp[f"{name}_{i}"]) % 65536 for i in range(4)], dtype=dtype).reshape(SHAPE)

    raw = [inp[f"t{i}"] for i in range(n)] + [inp["s"]]
    exact = all(Fraction(float(x)) == x for x in raw)
    ts = [float(inp[f"t{i}"]) for i in range(n)]
    s = float(inp["s"])
    nd = bool(inp["non_destructive"])
    prior = {k: arr(f"prior_{k}", np.uint16 if k == "image" else float) for k in ("photon", "pixel", "signal", "image", "charge")}
    prior["scene"] = bool(inp.get("prior_scene", False))
    writes = [{k: arr(f"w{i}_{k}", np.uint16 if k == "image" else float) for k in ("pixel", "photon", "signal", "image", "charge")} for i in range(n)]
    if flags == "sym":
        fl = [{b: bool(inp.get(f"f{i}_{b}", True)) for b in BUCKETS + ("scene",)} for i in range(n)]
    else:
        fl = [{b: True for b in BUCKETS + ("scene",)} for i in range(n)]
    accepted, recs = _drive(n, via, ts, s, nd, prior, writes, fl, False, kwargs.get("cluster_parity", 1))
    obs = unjson(w["observed"])
    if accepted != obs["accepted"]:
        return (not exact), {"concrete_accepts": accepted, "symbolic_accepts": obs["accepted"], "exact_inputs": exact}
    if not accepted:
        return len(recs) == 0, {"probe_calls_on_reject": len(recs)}
    firsts = [r for r in recs if r["tag"] == "first"]
    lasts = [r for r in recs if r["tag"] == "last"]
    c_clock = [[float(x) for x in r["clock"]] for r in firsts]
    c_pf = [r["pixel"].ravel().tolist() for r in firsts]
    c_pl = [r["pixel_final"].ravel().tolist() for r in lasts]
    ok = close(c_clock, nums(obs["clock"]), 1e-6) and close(c_pf, nums(obs["pixel_first"]), 1e-6) and close(c_pl, nums(obs["pixel_final"]), 1e-6)
    detail = {"concrete_clock": c_clock, "symbolic_clock": nums(obs["clock"])}
    if ok and via == "ctor" and flags == "all":
        # the same schedule given as a textual numpy expression and as a times file must give the same clock
        alt = _alternative_sources(n, ts, s, nd, prior, writes, fl)
        for name, clk in alt.items():
            if not close(clk, c_clock, 1e-9):
                ok = False
                detail["source_" + name] = clk
    return ok, detail


def _alternative_sources(n, ts, s, nd, prior, writes, fl):
    import os
    import tempfile

    import numpy as np

    from pyxel.exposure import Readout
    from pyxel.exposure import exposure as ex

    out = {}
    tmp = tempfile.mkdtemp(prefix="vx_c02_")
    path = os.path.join(tmp, "times.npy")
    np.save(path, np.array(ts, dtype=float))
    try:
        for name, kw in (("numpy_expression", {"times": "numpy.array(" + repr([float(t) for t in ts]) + ")"}), ("file", {"times_from_file": path})):
            proc = _processor()
            det = proc.detector
            recs = []

            def hook(d, tag, kwargs, rec):
                if tag == "first":
                    recs.append([float(d.time), float(d.time_step), float(d.absolute_time), d.pipeline_count])
                elif tag == "write":
                    d.image.array = np.zeros(SHAPE, dtype=np.uint16)

            vxprobes.reset(hook)
            try:
                ex.run_pipeline(processor=proc, readout=Readout(start_time=s, non_destructive=nd, **kw), outputs=None, debug=False, with_inherited_coords=False)
            finally:
                vxprobes.reset(None)
            out[name] = recs
    finally:
        os.remove(path)
        os.rmdir(tmp)
    return out


# ------------------------------------------------------------------------------------------
def replay(oid, kwargs, model, data):
    """Re-run the obligation concretely on the unpatched code.  True = violation reproduced."""
    import numpy as np

    if data["fn"] == "ctor":
        from pyxel.detectors import ReadoutProperties
        from pyxel.exposure import Readout

        n = kwargs["n"]
        ts = [float(model[f"t{i}"]) for i in range(n)]
        s = float(model["s"])
        cls = Readout if kwargs["via"] == "Readout" else ReadoutProperties
        valid = ts[0] != 0 and s < ts[0] and all(a < b for a, b in zip(ts, ts[1:]))
        try:
            r = cls(times=ts, start_time=s)
            ok = True
        except ValueError:
            ok = False
        if ok != valid:
            return True, {"valid": valid, "accepted": ok, "times": ts, "start": s}
        if ok:
            exp = np.diff(np.array([s] + ts))
            if not np.allclose(np.asarray(r.steps), exp, rtol=1e-12, atol=0) or not np.allclose(np.asarray(r.times), ts):
                return True, {"steps": list(map(float, r.steps)), "expected": exp.tolist()}
        return False, {}
    if data["fn"] == "reset_ieee":
        from .c08_keys import _make_det

        det = _make_det(kwargs["kind"])
        det.geometry._row, det.geometry._col = SHAPE
        det._initialize()
        n = SHAPE[0] * SHAPE[1]

        def fv(name):
            v = model.get(name, 0.0)
            return float("nan") if v is None else float(v)

        det.pixel._array = np.array([fv(f"pixel_{i}") for i in range(n)]).reshape(SHAPE)
        det.charge._array = np.array([fv(f"charge_{i}") for i in range(n)]).reshape(SHAPE)
        before = [det.pixel._array.tolist(), det.charge._array.tolist()]
        with np.errstate(all="ignore"):
            det.empty(True)
        pix, chg = np.asarray(det.pixel.array), np.asarray(det.charge.array)
        return bool(not np.all(pix == 0) or not np.all(chg == 0)), {"before_reset": before, "pixel_after_reset": pix.tolist(), "charge_after_reset": chg.tolist()}
    # loop
    n, via, flags = kwargs["n"], kwargs["via"], kwargs["flags"]
    DETECTOR["kind"] = kwargs.get("kind", "ccd")

    def arr(name, dtype=float):
        return np.array([float(model.get(f"{name}_{i}", 0)) if dtype is float else int(model.get(f"{name}_{i}", 0)) % 65536 for i in range(4)], dtype=dtype).reshape(SHAPE)

    ts = [float(model[f"t{i}"]) for i in range(n)]
    s = float(model["s"])
    nd = bool(model.get("non_destructive", False))
    prior = {k: arr(f"prior_{k}", np.uint16 if k == "image" else float) for k in ("photon", "pixel", "signal", "image", "charge")}
    prior["scene"] = bool(model.get("prior_scene", True))
    writes = [{k: arr(f"w{i}_{k}", np.uint16 if k == "image" else float) for k in ("pixel", "photon", "signal", "image", "charge")} for i in range(n)]
    fl = [{b: bool(model.get(f"f{i}_{b}", True)) for b in BUCKETS + ("scene",)} for i in range(n)]
    valid = ts[0] != 0 and s < ts[0] and all(a < b for a, b in zip(ts, ts[1:]))
    accepted, recs = _drive(n, via, ts, s, nd, prior, writes, fl, False, kwargs.get("cluster_parity", 1))
    if accepted != valid:
        return True, {"valid": valid, "accepted": accepted, "times": ts, "start": s, "probe_calls": len(recs)}
    if not accepted:
        return len(recs) != 0, {"probe_calls_on_reject": len(recs)}
    firsts = [r for r in recs if r["tag"] == "first"]
    lasts = [r for r in recs if r["tag"] == "last"]
    bad = {}
    if [r["tag"] for r in recs] != ["first", "write", "last"] * n:
        bad["tags"] = [r["tag"] for r in recs]
    for i, r in enumerate(firsts):
        prev = s if i == 0 else ts[i - 1]
        t, st, ab, cnt = r["clock"]
        if not (close(t, ts[i]) and close(st, ts[i] - prev) and close(ab, s + ts[i]) and cnt == i):
            bad[f"clock{i}"] = [float(t), float(st), float(ab), cnt]
        if [bool(x) for x in r["flags"]] != [i == 0, i == n - 1, i == n - 1]:
            bad[f"flags{i}"] = [bool(x) for x in r["flags"]]
        if not all(r["empty"].values()) or np.any(r["charge_array"] != 0):
            bad[f"empty{i}"] = r["empty"]
        if i == 0 and np.any(r["pixel"] != 0):
            bad["leak"] = r["pixel"].tolist()
        if i > 0:
            want = lasts[i - 1]["pixel_final"] if nd else np.zeros(SHAPE)
            if not np.allclose(r["pixel"], want):
                bad[f"pixel{i}"] = r["pixel"].tolist()
    return bool(bad), bad
