"""C17 — splitting an exposure into more readouts does not change collected charge.

The real exposure loop (calculate_steps, per-step empty, models) is run twice on symbolic schedules of
the same interval — one readout at `end`, and n readouts with symbolic interior points — through the
real flux-integrating models; the final pixel frames must be identical as an identity in all symbols.
Destructive mode: frame i is rate * (t_i - t_(i-1)) and scaling every interval by lambda scales it by lambda.
"""

from __future__ import annotations

import itertools

import numpy as np

import vx
import vxprobes
from vx import symnp
from vx.core import unjson
from vx.patching import Patch

from .common import DATA_MODULES, arr_eq, close, make_ccd, nums, sym_array

PROPERTY = "C17"
LEVEL = "model_checking"
FUNCTIONS = [
    "pyxel.exposure.exposure:run_pipeline",
    "pyxel.exposure.readout:calculate_steps",
    "pyxel.models.photon_collection.illumination:illumination",
    "pyxel.models.photon_collection.illumination:calculate_illumination",
    "pyxel.models.photon_collection.illumination:rectangular",
    "pyxel.models.photon_collection.illumination:elliptic",
    "pyxel.models.photon_collection.load_image:load_image",
    "pyxel.models.photon_collection.stripe_pattern:stripe_pattern",
    "pyxel.models.photon_collection.stripe_pattern:compute_pattern",
    "pyxel.models.charge_generation.load_charge:load_charge",
    "pyxel.models.charge_generation.photoelectrons:simple_conversion",
    "pyxel.models.charge_collection.collection:simple_collection",
    "pyxel.data_structure.photon:Photon.__iadd__",
    "pyxel.data_structure.charge:Charge.add_charge_array",
]
STUBS = ["_extract_datatree_2d -> empty DataTree (symbolic arrays cannot enter xarray)",
         "load_cropped_and_aligned_image -> arbitrary symbolic image (file content arbitrary); np -> vx.symnp in the model modules, exposure.readout, detectors.readout_properties, data_structure.*"]
OUTSIDE = ["IEEE rounding: the equality holds exactly in real arithmetic only, in floating point up to rounding",
           "noise-free dark_current: its rate is computed through astropy Quantity objects (cannot hold symbolic values); checked by concrete replay only",
           "stripe_pattern with angle != 0 (skimage rotation is C code): concrete level only"]
ASSUMPTIONS = ["valid schedule: start < t_1 < ... < t_n, times non-zero", "levels, file contents, time scales and quantum efficiency are finite; time_scale > 0; 0 <= qe <= 1"]
EXPLANATION = "two runs of the real loop on symbolic schedules of one interval; NRA identities (level x time)"
SHAPE = (2, 2)

MODEL_SETS = {
    "uniform": ["illum_uniform", "conv", "coll"],
    "shaped": ["illum_rect", "illum_ellip", "conv", "coll"],
    "image": ["load_image", "conv", "coll"],
    "image_adu": ["load_image_adu", "conv", "coll"],
    "charge": ["load_charge", "coll"],
    "stripes": ["stripe", "conv", "coll"],
    "all": ["illum_uniform", "illum_rect", "load_image", "stripe", "conv", "load_charge", "coll"],
}


def bounds(tier):
    return {"readouts_n": "2..4 quick, 2..12 thorough", "geometry": "2x2 (3x2 thorough)", "model_sets": MODEL_SETS}


def tasks(tier, seed):
    out = []
    ns = (2, 3, 4) if tier == "quick" else (2, 3, 4, 6, 8, 12)
    for ms in MODEL_SETS:
        for n in ns:
            if tier == "quick" and n == 4 and ms not in ("uniform", "all"):
                continue
            out.append({"fn": "nondestructive", "kwargs": {"models": ms, "n": n, "tier": tier}, "label": f"nondestructive/{ms},n={n}", "logic": "QF_NRA", "caps": {"max_seconds": 300, "solver_timeout_ms": 30000}})
        for n in ((2, 3) if tier == "quick" else (2, 3, 4, 6)):
            out.append({"fn": "destructive", "kwargs": {"models": ms, "n": n, "tier": tier}, "label": f"destructive/{ms},n={n}", "logic": "QF_NRA", "caps": {"max_seconds": 300, "solver_timeout_ms": 30000}})
    # every detector type (the reset between steps is type-specific)
    for det in ("cmos", "mkid", "apd"):
        for n in ((2,) if tier == "quick" else (2, 3, 4)):
            out.append({"fn": "nondestructive", "kwargs": {"models": "uniform", "n": n, "tier": tier, "detector": det}, "label": f"nondestructive/uniform,n={n}/{det}", "logic": "QF_NRA", "caps": {"max_seconds": 300, "solver_timeout_ms": 30000}})
        out.append({"fn": "destructive", "kwargs": {"models": "uniform", "n": 2, "tier": tier, "detector": det}, "label": f"destructive/uniform,n=2/{det}", "logic": "QF_NRA",
                    "caps": {"max_seconds": 90, "solver_timeout_ms": 10000} if tier == "quick" else {"max_seconds": 600, "solver_timeout_ms": 60000}})
    if tier == "thorough":
        # symbolic time scales also for the image / charge loaders (division by a symbolic scale: slow, may be inconclusive)
        for ms in ("charge", "image"):
            for n in (2, 3):
                out.append({"fn": "nondestructive", "kwargs": {"models": ms, "n": n, "tier": "thorough_symbolic"}, "label": f"nondestructive/{ms},n={n}/symbolic_scales", "logic": "QF_NRA",
                            "caps": {"max_seconds": 200, "solver_timeout_ms": 60000}})
    out.append({"fn": "dark_current_replay", "kwargs": {"n": 4 if tier == "quick" else 12}, "label": "witness/dark_current", "kind": "direct"})
    return out


def REQUIRED_REACH(tier):
    return ["C17/nondestructive/partition_invariant/*", "C17/destructive/proportional/*", "C17/destructive/scaling/*"]


MODS = ("pyxel.exposure.readout", "pyxel.detectors.readout_properties", "pyxel.models.photon_collection.illumination", "pyxel.models.photon_collection.load_image",
        "pyxel.models.photon_collection.stripe_pattern", "pyxel.models.charge_generation.load_charge", "pyxel.models.charge_generation.photoelectrons",
        "pyxel.models.charge_collection.collection") + DATA_MODULES


CONCRETE_SCALES = {"quick": ("all", "charge", "image", "image_adu"), "thorough": ("all", "charge", "image", "image_adu"), "thorough_symbolic": ("all",)}
TIER = {"v": "quick"}


CHAR = {"quantum_efficiency": 0.5, "charge_to_volt_conversion": 2.0**-14, "pre_amplification": 4.0, "adc_bit_resolution": 16, "adc_voltage_range": (0.0, 8.0)}


DETECTOR = {"kind": "ccd"}  # detector type of the exposures of the current task


def _det():
    """The harness detector: a CCD by default; CMOS / MKID / APD for the per-type tasks (the models used here are type-agnostic)."""
    kind = DETECTOR["kind"]
    if kind == "ccd":
        return make_ccd(*SHAPE, **CHAR)
    from .c08_keys import _make_det

    d = _make_det(kind)
    d.geometry._row, d.geometry._col = SHAPE
    d.geometry._pixel_vert_size = d.geometry._pixel_horz_size = 10.0
    d.geometry._total_thickness = 40.0
    d._initialize()
    return d


def _adu_factor():
    """(adc multiplier, system gain) of the harness detector, as the loader computes them."""
    cht = make_ccd(*SHAPE, **CHAR).characteristics
    return (2**cht.adc_bit_resolution / 2**16, cht.system_gain)


def _params(models=None):
    """Symbolic model parameters shared by the schedules of one obligation."""
    P = _params_sym()
    P["adu_factor"] = _adu_factor()
    if models in CONCRETE_SCALES[TIER["v"]]:
        # the full pipeline multiplies many symbolic factors: time scales and the multiplier are concrete here
        # (they are symbolic in the per-model sets), levels / file contents / qe / schedule stay symbolic
        P.update({"ts_u": 2.0, "ts_i": 0.5, "ts_c": 4.0, "mult": 3.0})
    return P


def _params_sym():
    P = {"level_u": vx.real("level_uniform"), "level_r": vx.real("level_rect"), "level_e": vx.real("level_ellip"), "level_s": vx.real("level_stripe"),
         "ts_u": vx.real("time_scale_uniform"), "ts_i": vx.real("time_scale_image"), "ts_c": vx.real("time_scale_charge"), "mult": vx.real("multiplier"), "qe": vx.real("qe"),
         "image": sym_array("image_file", SHAPE), "charge": sym_array("charge_file", SHAPE)}
    for k in ("ts_u", "ts_i", "ts_c"):
        vx.assume(P[k] > 0, "time_scale > 0")
    vx.assume((P["qe"] >= 0) & (P["qe"] <= 1), "0 <= qe <= 1")
    for k in ("level_u", "level_r", "level_e", "level_s", "mult"):
        vx.assume(P[k] >= 0, "levels are non-negative")
    for e in P["image"].elems() + P["charge"].elems():
        vx.assume(e >= 0, "file contents are non-negative")
    return P


def _pipeline(models, P):
    from pyxel.pipelines import DetectionPipeline, ModelFunction

    lib = {
        "illum_uniform": ("photon_collection", "pyxel.models.photon_collection.illumination", {"level": P["level_u"], "option": "uniform", "time_scale": P["ts_u"]}),
        "illum_rect": ("photon_collection", "pyxel.models.photon_collection.illumination", {"level": P["level_r"], "option": "rectangular", "object_size": [1, 2], "object_center": [1, 1], "time_scale": 1.0}),
        "illum_ellip": ("photon_collection", "pyxel.models.photon_collection.illumination", {"level": P["level_e"], "option": "elliptic", "object_size": [2, 2], "object_center": [1, 1], "time_scale": 2.0}),
        "load_image": ("photon_collection", "pyxel.models.photon_collection.load_image", {"image_file": "img.npy", "multiplier": P["mult"], "time_scale": P["ts_i"]}),
        # the same loader reading the file as ADU of a 16-bit camera (photon-transfer conversion before the time scaling)
        "load_image_adu": ("photon_collection", "pyxel.models.photon_collection.load_image", {"image_file": "img.npy", "multiplier": P["mult"], "time_scale": P["ts_i"], "convert_to_photons": True, "bit_resolution": 16}),
        "stripe": ("photon_collection", "pyxel.models.photon_collection.stripe_pattern", {"period": 2, "level": P["level_s"], "angle": 0, "startwith": 0, "time_scale": 1.0}),
        "conv": ("charge_generation", "pyxel.models.charge_generation.simple_conversion", {"quantum_efficiency": P["qe"], "binomial_sampling": False}),
        "load_charge": ("charge_generation", "pyxel.models.charge_generation.load_charge", {"filename": "chg.npy", "time_scale": P["ts_c"]}),
        "coll": ("charge_collection", "pyxel.models.charge_collection.simple_collection", {}),
    }
    groups: dict = {}
    if not vx.core.active():
        # concrete replays go through the real result extraction, which needs an initialised image bucket
        groups["scene_generation"] = [ModelFunction(func="vxprobes.init_buckets", name="init")]
    for i, m in enumerate(MODEL_SETS[models]):
        g, f, a = lib[m]
        groups.setdefault(g, []).append(ModelFunction(func=f, name=f"{m}_{i}", arguments=a))
    return DetectionPipeline(**groups)


def _rate(models, P, xp_one=None):
    """Statement-level expected charge per unit time and pixel (list over the 2x2 pixels)."""
    rect = [0, 0, 1, 1]  # object_size [1,2] centred at (1,1): row 1, columns 0..1
    ellip = [0, 0, 0, 1]  # dist < 1 with radii 1: only the centre pixel (1,1)
    # spatial mask of the stripe pattern: the real compute_pattern at unit level (the time behaviour is what is checked)
    from pyxel.models.photon_collection.stripe_pattern import compute_pattern

    stripe = [float(v) for v in np.asarray(compute_pattern(SHAPE, period=2, level=1.0, angle=0, start_with=0)).ravel()]
    out = []
    for i in range(4):
        ph = 0
        ms = MODEL_SETS[models]
        if "illum_uniform" in ms:
            ph = ph + P["level_u"] / P["ts_u"]
        if "illum_rect" in ms:
            ph = ph + P["level_r"] * rect[i]
        if "illum_ellip" in ms:
            ph = ph + P["level_e"] * ellip[i] / 2.0
        if "load_image" in ms:
            ph = ph + P["image"].elems()[i] * P["mult"] / P["ts_i"]
        if "load_image_adu" in ms:
            ph = ph + P["image"].elems()[i] * P["adu_factor"][0] / P["adu_factor"][1] * P["mult"] / P["ts_i"]
        if "stripe" in ms:
            ph = ph + P["level_s"] * stripe[i]
        c = ph * P["qe"] if "conv" in ms else 0
        if "load_charge" in ms:
            c = c + P["charge"].elems()[i] / P["ts_c"]
        out.append(c)
    return out


def _run(models, P, times, start, non_destructive, earlier_start=None):
    """One exposure through the real loop; returns the pixel frame at the end of every step.  With `earlier_start` the same detector
    object was exposed once before with the same readout times and mode but that other start time (a user re-running a configuration)."""
    import xarray as xr

    from pyxel.exposure import Readout
    from pyxel.exposure import exposure as ex
    from pyxel.pipelines import Processor

    frames = []

    def loader(shape, filename, position_x=0, position_y=0, align=None, allow_smaller_array=True):
        return (P["image"] if "img" in str(filename) else P["charge"]).copy()

    with Patch() as p:
        p.numpy(*MODS)
        p.attr("pyxel.exposure.exposure", "_extract_datatree_2d", lambda detector: (frames.append(detector.pixel.array.copy()), xr.DataTree())[1], "records the pixel frame, returns an empty DataTree")
        p.attr("pyxel.models.photon_collection.load_image", "load_cropped_and_aligned_image", loader, "arbitrary file content")
        p.attr("pyxel.models.charge_generation.load_charge", "load_cropped_and_aligned_image", loader, "arbitrary file content")
        det = _det()
        proc = Processor(detector=det, pipeline=_pipeline(models, P))
        if earlier_start is not None:
            ex.run_pipeline(processor=proc, readout=Readout(times=times, start_time=earlier_start, non_destructive=non_destructive), outputs=None, debug=False, with_inherited_coords=False)
            frames.clear()
        ro = Readout(times=times, start_time=start, non_destructive=non_destructive)
        ex.run_pipeline(processor=proc, readout=ro, outputs=None, debug=False, with_inherited_coords=False)
    return frames


def _schedule(n):
    s = vx.real("start")
    ts = [vx.real(f"t{i}") for i in range(n)]
    vx.assume(ts[0] != 0, "valid schedule")
    vx.assume(s < ts[0], "valid schedule")
    for a, b in zip(ts, ts[1:]):
        vx.assume(a < b, "valid schedule")
    vx.assume(ts[-1] != 0, "valid schedule (the one-readout schedule ends at t_n)")
    return s, ts


def nondestructive(models, n, tier="quick", detector="ccd"):
    TIER["v"] = tier
    DETECTOR["kind"] = detector
    P = _params(models)
    s, ts = _schedule(n)
    fa = _run(models, P, [ts[-1]], s, True)
    fb = _run(models, P, ts, s, True)
    lab = f"{models},n={n}" + ("" if detector == "ccd" else f",{detector}")
    vx.prove(f"C17/nondestructive/n_frames/{lab}", len(fa) == 1 and len(fb) == n)
    vx.prove(f"C17/nondestructive/partition_invariant/{lab}", arr_eq(fa[-1], fb[-1]))
    rate = _rate(models, P)
    vx.prove(f"C17/nondestructive/depends_only_on_interval/{lab}", vx.all_of([e == r * (ts[-1] - s) for e, r in zip(symnp.asarray(fb[-1]).elems(), rate)]))
    vx.observe("final_split", symnp.asarray(fb[-1]).elems())
    if n == 2 and models in ("uniform", "charge"):
        # the detector object is re-used: an earlier exposure with the same readout times and another start time must not matter
        s0 = vx.real("earlier_start")
        vx.assume(s0 < ts[0], "valid earlier schedule")
        fc = _run(models, P, ts, s, True, earlier_start=s0)
        vx.prove(f"C17/nondestructive/reused_detector/{lab}", vx.all_of([len(fc) == n] + [e == r * (ts[-1] - s) for e, r in zip(symnp.asarray(fc[-1]).elems(), rate)]))


def destructive(models, n, tier="quick", detector="ccd"):
    TIER["v"] = tier
    DETECTOR["kind"] = detector
    P = _params(models)
    s, ts = _schedule(n)
    lam = vx.real("lambda")
    vx.assume(lam > 0, "scaling factor > 0")
    f1 = _run(models, P, ts, s, False)
    ts2 = [s + lam * (t - s) for t in ts]
    vx.assume(ts2[0] != 0, "valid schedule")
    f2 = _run(models, P, ts2, s, False)
    rate = _rate(models, P)
    lab = f"{models},n={n}" + ("" if detector == "ccd" else f",{detector}")
    prev = [s] + ts[:-1]
    vx.prove(f"C17/destructive/proportional/{lab}", vx.all_of([e == r * (t - q) for fr, t, q in zip(f1, ts, prev) for e, r in zip(symnp.asarray(fr).elems(), rate)]))
    vx.prove(f"C17/destructive/scaling/{lab}", vx.all_of([e2 == lam * e1 for fr1, fr2 in zip(f1, f2) for e1, e2 in zip(symnp.asarray(fr1).elems(), symnp.asarray(fr2).elems())]))
    if n == 2 and models in ("uniform", "charge"):
        s0 = vx.real("earlier_start")
        vx.assume(s0 < ts[0], "valid earlier schedule")
        f3 = _run(models, P, ts, s, False, earlier_start=s0)
        vx.prove(f"C17/destructive/reused_detector/{lab}", vx.all_of([len(f3) == n] + [e == r * (t - q) for fr, t, q in zip(f3, ts, prev) for e, r in zip(symnp.asarray(fr).elems(), rate)]))


def _concrete_final(models, vals, times, start, non_destructive, earlier_start=None, frame=-1):
    """Real numpy, real models, real files."""
    import os
    import tempfile

    import pyxel
    from pyxel.exposure import Exposure, Readout
    from pyxel.util import image as im

    tmp = tempfile.mkdtemp(prefix="vx_c17_")
    try:
        np.save(os.path.join(tmp, "img.npy"), np.array(vals["image"], dtype=float).reshape(SHAPE))
        np.save(os.path.join(tmp, "chg.npy"), np.array(vals["charge"], dtype=float).reshape(SHAPE))
        P = dict(vals)
        P["image"], P["charge"] = None, None
        pipe = _pipeline(models, vals)
        for grp in ("photon_collection", "charge_generation"):
            g = getattr(pipe, grp)
            for m in (g.models if g else []):
                for k in ("image_file", "filename"):
                    if k in m.arguments:
                        m.arguments[k] = os.path.join(tmp, m.arguments[k])
        det = _det()
        if earlier_start is not None:
            pyxel.run_mode(mode=Exposure(readout=Readout(times=times, start_time=earlier_start, non_destructive=non_destructive)), detector=det, pipeline=pipe)
        dt = pyxel.run_mode(mode=Exposure(readout=Readout(times=times, start_time=start, non_destructive=non_destructive)), detector=det, pipeline=pipe)
        return np.asarray(dt["pixel"])[frame].ravel().tolist()
    finally:
        for f in os.listdir(tmp):
            os.remove(os.path.join(tmp, f))
        os.rmdir(tmp)


def _concrete_vals(inp, models=None):
    g = lambda k, d=1.0: float(inp.get(k, d))  # noqa: E731
    v = _concrete_vals0(g)
    v["adu_factor"] = _adu_factor()
    if models in CONCRETE_SCALES[TIER["v"]]:
        v.update({"ts_u": 2.0, "ts_i": 0.5, "ts_c": 4.0, "mult": 3.0})
    return v


def _concrete_vals0(g):
    return {"level_u": g("level_uniform"), "level_r": g("level_rect"), "level_e": g("level_ellip"), "level_s": g("level_stripe"), "ts_u": g("time_scale_uniform"),
            "ts_i": g("time_scale_image"), "ts_c": g("time_scale_charge"), "mult": g("multiplier"), "qe": g("qe", 0.5),
            "image": [g(f"image_file_{i}") for i in range(4)], "charge": [g(f"charge_file_{i}") for i in range(4)]}


def fidelity_nondestructive(kwargs, w):
    """The split schedule of the witness through the real run_mode (real numpy, real files, real xarray)."""
    inp = unjson(w["inputs"])
    n = kwargs["n"]
    TIER["v"] = kwargs.get("tier", "quick")
    DETECTOR["kind"] = kwargs.get("detector", "ccd")
    vals = _concrete_vals(inp, kwargs["models"])
    times = [float(inp[f"t{i}"]) for i in range(n)]
    start = float(inp["start"])
    if not (start < times[0] and times[0] != 0 and all(a < b for a, b in zip(times, times[1:]))):
        return True, {"skipped": "rounded witness schedule not strictly increasing"}
    got = _concrete_final(kwargs["models"], vals, times, start, True)
    want = nums(unjson(w["observed"]["final_split"]))
    return close(got, want, 1e-6), {"concrete": got, "symbolic": want}


def _dark_current_case(start, times):
    """Noise-free dark current (astropy Quantity inside): final pixel frame of one readout at times[-1] vs the split schedule."""
    import pyxel
    from pyxel.exposure import Exposure, Readout
    from pyxel.pipelines import DetectionPipeline, ModelFunction

    def run(ts):
        pipe = DetectionPipeline(scene_generation=[ModelFunction(func="vxprobes.init_buckets", name="init")],
                                 charge_generation=[ModelFunction(func="pyxel.models.charge_generation.dark_current", name="dc",
                                                                  arguments={"figure_of_merit": 1.0, "temporal_noise": False})],
                                 charge_collection=[ModelFunction(func="pyxel.models.charge_collection.simple_collection", name="coll")])
        det = make_ccd(*SHAPE, **CHAR)
        det.environment._temperature = 250.0
        dt = pyxel.run_mode(mode=Exposure(readout=Readout(times=ts, start_time=start, non_destructive=True)), detector=det, pipeline=pipe)
        return np.asarray(dt["pixel"])[-1]

    a, b = run([times[-1]]), run(list(times))
    return bool(np.allclose(a, b, rtol=1e-9)), a, b


def dark_current_replay(tier, seed, n):
    """Concrete comparison of two schedules of one interval (three random schedules per task)."""
    rng = np.random.RandomState(seed)
    obligations = []
    for trial in range(3):
        start = float(rng.uniform(-2, 2))
        cuts = np.sort(rng.uniform(0.05, 5.0, size=n))
        times = (start + np.cumsum(cuts)).tolist()
        if any(abs(t) < 1e-9 for t in times):
            continue
        ok, a, b = _dark_current_case(start, times)
        obligations.append({"id": f"C17/witness/dark_current/n={n},trial={trial}", "verdict": "unsat" if ok else "sat", "info": {"one_readout": a.ravel().tolist(), "split": b.ravel().tolist()},
                            "model": {"start": start, "times": times}, "observed": {}})
    return {"obligations": obligations, "paths": len(obligations), "reached": {o["id"]: 1 for o in obligations}}


def replay(oid, kwargs, model, data):
    fn = data["fn"]
    if fn == "dark_current_replay":
        ok, a, b = _dark_current_case(float(model["start"]), [float(t) for t in model["times"]])
        return (not ok), {"one_readout": a.ravel().tolist(), "split": b.ravel().tolist()}
    n, models = kwargs["n"], kwargs["models"]
    TIER["v"] = kwargs.get("tier", "quick")
    DETECTOR["kind"] = kwargs.get("detector", "ccd")
    vals = _concrete_vals(model, models)
    start = float(model.get("start", 0.0))
    times = [float(model.get(f"t{i}", i + 1)) for i in range(n)]
    if not (start < times[0] and times[0] != 0 and all(a < b for a, b in zip(times, times[1:]))):
        times = [start + 1.0 + i for i in range(n)]
    if "reused_detector" in oid:
        s0 = float(model.get("earlier_start", start - 1.0))
        if not s0 < times[0] or s0 == start:
            s0 = min(start, times[0]) - 1.5
        nd = fn == "nondestructive"
        frame = -1 if nd else 0
        fresh = _concrete_final(models, vals, times, start, nd, frame=frame)
        reused = _concrete_final(models, vals, times, start, nd, earlier_start=s0, frame=frame)
        return (not close(fresh, reused, 1e-9)), {"fresh_detector": fresh, "detector_exposed_before_with_start": s0, "reused_detector": reused, "times": times, "start": start}
    if fn == "nondestructive":
        a = _concrete_final(models, vals, [times[-1]], start, True)
        b = _concrete_final(models, vals, times, start, True)
        return (not close(a, b, 1e-9)), {"one_readout": a, "split": b, "times": times, "start": start}
    lam = float(model.get("lambda", 2.0))
    t2 = [start + lam * (t - start) for t in times]
    a = _concrete_final(models, vals, times, start, False)
    b = _concrete_final(models, vals, t2, start, False)
    return (not close([lam * x for x in a], b, 1e-9)), {"last_frame": a, "last_frame_scaled_schedule": b, "lambda": lam}
