"""C09 — a failing model always fails the run, with its identity attached.

The fault point (run r, step i, model position j) is three symbolic integers: every probe raises iff
its own (run, step, position) equals it, so the solver enumerates the feasible crash points as paths
(plus the no-fault path).  Driven through the real pyxel.run_mode (exposure, sequential observation)
and ModelFittingDataTree.fitness; crash points found by the solver are replayed concretely in the
parallel (dask) path.
"""

from __future__ import annotations

import os

import numpy as np

import vx
import vxprobes
from vx.core import unjson

from .common import make_ccd

PROPERTY = "C09"
LEVEL = "model_checking"
FUNCTIONS = [
    "pyxel.pipelines.model_group:ModelGroup.run",
    "pyxel.pipelines.processor:Processor.run_pipeline",
    "pyxel.exposure.exposure:run_pipeline",
    "pyxel.observation.observation:Observation._run_single_pipeline",
    "pyxel.observation.observation:Observation.run_pipelines",
    "pyxel.calibration.fitting_datatree:ModelFittingDataTree.fitness",
    "pyxel.run:run_mode",
]
STUBS = ["none in exposure / observation (real run_mode); fitness(): problem instance built with __new__ + the attributes fitness() reads"]
OUTSIDE = ["dask graph execution and calibration (pygmo: initial population and evolution) are concrete witness runs of crash points, not symbolic",
           "pyxel.run is driven with generated YAML files without an outputs section and with default logging"]
ASSUMPTIONS = []
EXPLANATION = "symbolic crash point; oracle: same exception object reaches the caller, notes name group+model (+ parameters), nothing runs after the fault"

EXC = {"ValueError": ValueError, "KeyError": KeyError, "RuntimeError": RuntimeError, "ZeroDivisionError": ZeroDivisionError, "OSError": OSError,
       # exception classes the interpreter itself gives a control-flow meaning to: they must propagate like any other
       "StopIteration": StopIteration, "StopAsyncIteration": StopAsyncIteration, "AssertionError": AssertionError, "LookupError": LookupError,
       "AttributeError": AttributeError, "TypeError": TypeError, "NotImplementedError": NotImplementedError, "MemoryError": MemoryError,
       "ImportError": ImportError, "EOFError": EOFError, "TimeoutError": TimeoutError, "ModuleNotFoundError": ModuleNotFoundError, "FileNotFoundError": FileNotFoundError}


class UserFault(Exception):
    pass


EXC["UserFault"] = UserFault
# values a swept parameter takes in the three runs, by kind (numbers, text, sequences, None, numpy scalars / arrays)
PVALS = {"int": [10, 20, 30], "float": [0.5, 1.5, 2.5], "str": ["aa", "bb", "cc"], "list": [[1, 2], [3, 4], [5, 6]], "bool": [True, False, True],
         "npfloat": "numpy.float64"}


def _pvals(kind):
    import numpy as _np

    if kind == "npfloat":
        return list(_np.linspace(0.0, 1.0, 3))
    if kind == "nparray":
        return [_np.array([1.0, 2.0]), _np.array([3.0, 4.0]), _np.array([5.0, 6.0])]
    return PVALS[kind]


GROUPS = ["photon_collection", "charge_generation", "charge_collection", "readout_electronics"]


def bounds(tier):
    return {"runs": 3, "steps": "1..3", "models": "2..4 over 2..4 groups", "exception_classes": list(EXC) + ["UserFault (a user subclass of Exception)"]}


def tasks(tier, seed):
    out = []
    names = list(EXC)
    n = 0
    for steps in (1, 2, 3):
        for models in (2, 4):
            for mode in ("exposure", "observation"):
                if tier == "quick" and steps == 3 and models == 4 and mode == "observation":
                    continue
                exc = names[n % len(names)]
                n += 1
                out.append({"fn": "crash", "kwargs": {"steps": steps, "models": models, "mode": mode, "exc": exc},
                            "label": f"{mode}/steps={steps},models={models},{exc}"})
    # every exception class in every mode (one shape each), so that a class-specific leak cannot hide
    for exc in names:
        for mode in ("exposure", "observation"):
            out.append({"fn": "crash", "kwargs": {"steps": 2, "models": 2 if tier == "quick" else 3, "mode": mode, "exc": exc}, "label": f"{mode}/all_exc/{exc}"})
    for k, mode in enumerate(("run_yaml_exposure", "run_yaml_observation")):
        for steps in (1, 2):
            out.append({"fn": "crash", "kwargs": {"steps": steps, "models": 2, "mode": mode, "exc": names[(3 * k + steps) % len(names)]}, "label": f"{mode}/steps={steps}"})
    # every kind of swept value (the notes render it, whatever it is)
    for k, pkind in enumerate(PVALS):
        if pkind != "int":
            out.append({"fn": "crash", "kwargs": {"steps": 1 + k % 2, "models": 2, "mode": "observation", "exc": names[k % len(names)], "pkind": pkind}, "label": f"observation/values/{pkind}"})
    for exc in (names[:3] + ["StopIteration"]) if tier == "quick" else names:
        out.append({"fn": "fitness_crash", "kwargs": {"exc": exc}, "label": f"fitness/{exc}"})
    cal_cases = [[e, c] for e in ("ValueError", "ModuleNotFoundError", "ImportError", "StopIteration", "KeyError", "UserFault") for c in (1, 8)] + [["RuntimeError", 4], ["ValueError", 10], ["UserFault", 12]]
    if tier == "thorough":
        cal_cases = [[e, c] for e in names + ["UserFault"] for c in (1, 3, 8, 9, 13)]
    for i in range(0, len(cal_cases), 3):
        out.append({"fn": "calibration_replay", "kwargs": {"cases": cal_cases[i:i + 3]}, "label": f"witness/calibration/{i // 3}", "kind": "direct"})
    out.append({"fn": "dask_replay", "kwargs": {"n": 3 if tier == "quick" else 8}, "label": "witness/dask", "kind": "direct"})
    return out


def REQUIRED_REACH(tier):
    return ["C09/exposure/propagates/*", "C09/exposure/notes/*", "C09/exposure/no_later_model/*", "C09/observation/propagates/*",
            "C09/observation/notes_params/*", "C09/observation/later_runs_not_started/*", "C09/fitness/propagates/*"]


def _pipeline(models):
    from pyxel.pipelines import DetectionPipeline, ModelFunction

    kw = {"scene_generation": [ModelFunction(name="init", func="vxprobes.init_buckets")]}
    layout = []
    for j in range(models):
        g = GROUPS[j * len(GROUPS) // models] if models <= len(GROUPS) else GROUPS[j % len(GROUPS)]
        g = GROUPS[min(j // max(1, models // len(GROUPS) or 1), len(GROUPS) - 1)] if models > len(GROUPS) else GROUPS[j]
        # a switched-off model next to every probe - in front of it for even j (positions among the listed models and among the
        # executed ones differ), behind it for odd j (the probe is the first listed model of its group)
        off = ModelFunction(name=f"off{j}", func="vxprobes.probe_b", arguments={"tag": -1 - j}, enabled=False)
        probe = ModelFunction(name=f"m{j}", func=("vxprobes.probe", "vxprobes.probe_a")[j % 2], arguments={"tag": j, "p": 0})
        kw.setdefault(g, []).extend([off, probe] if j % 2 == 0 else [probe, off])
        layout.append((g, f"m{j}"))
    return DetectionPipeline(**kw), layout


def _drive(steps, models, mode, exc_cls, fault, log, pkind="int"):
    """fault = (run, step, pos) — symbolic or concrete.  Returns (exception or None, result)."""
    import pyxel
    from pyxel.exposure import Exposure, Readout
    from pyxel.observation import Observation, ParameterValues

    pipe, layout = _pipeline(models)
    state = {"run": -1}
    marker = exc_cls("injected fault 0xC09")

    def hook(d, tag, kwargs, rec):
        if tag == 0 and d.pipeline_count == 0:
            state["run"] += 1
        here = (state["run"], d.pipeline_count, tag)
        log.append(here + (kwargs.get("p"),))
        if vx.all_of([here[0] == fault[0], here[1] == fault[1], here[2] == fault[2]]) if any(vx.is_sym(f) for f in fault) else here == tuple(fault):
            raise marker

    vxprobes.reset(hook)
    times = [float(i + 1) for i in range(steps)]
    if mode.startswith("run_yaml"):
        # the command-line / notebook entry point pyxel.run(<file>): same pipeline written as a YAML file without an outputs section
        return _drive_yaml(mode, layout, times, pkind, marker)
    if mode == "exposure":
        m = Exposure(readout=Readout(times=times))
    else:
        m = Observation(parameters=[ParameterValues(key="pipeline.photon_collection.m0.arguments.p", values=_pvals(pkind))], readout=Readout(times=times))
    caught, result = None, None
    try:
        result = pyxel.run_mode(mode=m, detector=make_ccd(2, 2), pipeline=pipe)
    except Exception as e:  # noqa: BLE001
        caught = e
    finally:
        vxprobes.reset(None)
    return caught, result, marker, layout


def _drive_yaml(mode, layout, times, pkind, marker):
    import tempfile

    import pyxel
    import yaml

    groups: dict = {"scene_generation": [{"name": "init", "func": "vxprobes.init_buckets", "enabled": True}]}
    for j, (g, nm) in enumerate(layout):
        groups.setdefault(g, []).append({"name": f"off{j}", "func": "vxprobes.probe_b", "enabled": False, "arguments": {"tag": -1 - j}})
        groups.setdefault(g, []).append({"name": nm, "func": ("vxprobes.probe", "vxprobes.probe_a")[j % 2], "enabled": True, "arguments": {"tag": j, "p": 0}})
    cfg = {"ccd_detector": {"geometry": {"row": 2, "col": 2, "total_thickness": 40.0, "pixel_vert_size": 10.0, "pixel_horz_size": 10.0},
                            "environment": {"temperature": 200.0}, "characteristics": {}},
           "pipeline": groups}
    if mode == "run_yaml_exposure":
        cfg["exposure"] = {"readout": {"times": times}}
    else:
        cfg["observation"] = {"mode": "product", "readout": {"times": times}, "parameters": [{"key": "pipeline.photon_collection.m0.arguments.p", "values": list(_pvals(pkind))}]}
    tmp = tempfile.mkdtemp(prefix="vx_c09_")
    path = os.path.join(tmp, "config.yaml")
    with open(path, "w") as fh:
        yaml.safe_dump(cfg, fh)
    caught, result = None, None
    cwd = os.getcwd()
    os.chdir(tmp)
    try:
        result = pyxel.run(path)
        result = "completed"  # pyxel.run returns None when no outputs are configured: completion is the result
    except Exception as e:  # noqa: BLE001
        caught = e
    finally:
        os.chdir(cwd)
        vxprobes.reset(None)
        import shutil

        shutil.rmtree(tmp, ignore_errors=True)
    return caught, result, marker, layout


def _same_value(a, b):
    try:
        import numpy as _np

        return bool(_np.array_equal(_np.asarray(a), _np.asarray(b)))
    except Exception:  # noqa: BLE001
        return a == b


def crash(steps, models, mode, exc, pkind="int"):
    r, i, j = vx.integer("fault_run"), vx.integer("fault_step"), vx.integer("fault_pos")
    log: list = []
    caught, result, marker, layout = _drive(steps, models, mode, EXC[exc], (r, i, j), log, pkind)
    lab = f"steps={steps},models={models},{exc}" + ("" if pkind == "int" else f",{pkind}")
    nruns = 1 if mode in ("exposure", "run_yaml_exposure") else 3
    total = nruns * steps * models
    if caught is None:
        # no probe matched the fault point: it lies outside the run
        inside = vx.all_of([r >= 0, r < nruns, i >= 0, i < steps, j >= 0, j < models])
        vx.prove(f"C09/{mode}/completes_without_fault/{lab}", vx.all_of([~inside if vx.is_sym(inside) else not inside, len(log) == total, result is not None]))
        vx.observe("fault", None)
        return
    fr, fi, fj = (vx.concretize_int(x) for x in (r, i, j))
    vx.observe("propagated", caught is marker and result is None)
    vx.prove(f"C09/{mode}/propagates/{lab}", caught is marker and type(caught) is EXC[exc] and "injected fault 0xC09" in str(caught.args[0]) and result is None)
    notes = "\n".join(getattr(caught, "__notes__", []))
    g, nm = layout[fj]
    vx.prove(f"C09/{mode}/notes/{lab}", (f"'{g}'" in notes) and (f"'{nm}'" in notes))
    # nothing runs after the fault: the log ends with the faulting call and is a prefix of the full order
    full = [(rr, ss, mm) for rr in range(nruns) for ss in range(steps) for mm in range(models)]
    k = full.index((fr, fi, fj))
    vx.prove(f"C09/{mode}/no_later_model/{lab}", [t[:3] for t in log] == full[: k + 1])
    if mode in ("observation", "run_yaml_observation"):
        val = _pvals(pkind)[fr]
        shown = [str(v) for v in val] if pkind == "list" else [str(val)]
        vx.prove(f"C09/observation/notes_params/{lab}", ("pipeline.photon_collection.m0.arguments.p" in notes) and all(x in notes for x in shown))
        vx.prove(f"C09/observation/later_runs_not_started/{lab}", all(t[0] <= fr for t in log))
        # the failing run used its own parameter value
        vx.prove(f"C09/observation/run_saw_own_value/{lab}", all(_same_value(t[3], _pvals(pkind)[t[0]]) for t in log if t[2] == 0))
    vx.observe("fault", [fr, fi, fj])


def fidelity_crash(kwargs, w):
    f = w["observed"].get("fault")
    log: list = []
    fault = tuple(f) if f is not None else (-1, -1, -1)
    caught, result, marker, layout = _drive(kwargs["steps"], kwargs["models"], kwargs["mode"], EXC[kwargs["exc"]], fault, log, kwargs.get("pkind", "int"))
    if f is None:
        return caught is None and result is not None, {}
    # the concrete run must behave like the symbolic one did on this path (whether or not that is what the property wants)
    return (caught is marker and result is None) == bool(w["observed"].get("propagated", True)), {"caught": repr(caught)}


def fitness_crash(exc):
    """ModelFittingDataTree.fitness: a model failure propagates with its type, message and the decision vector in the notes."""
    from pyxel.calibration.fitting_datatree import ModelFittingDataTree
    from pyxel.exposure import Readout
    from pyxel.observation import ParameterValues
    from pyxel.pipelines import Processor

    fp, fs = vx.integer("fault_proc"), vx.integer("fault_step")
    pipe, layout = _pipeline(2)
    marker = EXC[exc]("injected fault 0xC09")
    log = []

    def hook(d, tag, kwargs, rec):
        pid = kwargs.get("p")
        here = (pid, d.pipeline_count, tag)
        log.append(here)
        if tag == 1 and bool(vx.all_of([pid == fp, d.pipeline_count == fs])):
            raise marker

    proc = Processor(detector=make_ccd(2, 2), pipeline=pipe)
    prob = ModelFittingDataTree.__new__(ModelFittingDataTree)
    prob._variables = [ParameterValues(key="pipeline.charge_generation.m1.arguments.p", values="_", boundaries=(0.0, 1.0))]
    prob.pop = 2
    prob.readout = Readout(times=[1.0, 2.0])
    prob.pipeline_seed = None
    prob._with_inherited_coords = True
    prob.sim_output = "pixel"
    prob.sim_fit_range = None
    prob.weighting = None
    prob.weighting_from_file = None
    prob.fitness_func = lambda simulated, target, weighting: 0.0
    import copy

    p0, p1 = copy.deepcopy(proc), copy.deepcopy(proc)
    p0.set("pipeline.photon_collection.m0.arguments.p", 0)
    p1.set("pipeline.photon_collection.m0.arguments.p", 1)
    prob.param_processor_list = [p0, p1]
    prob.all_target_data = [np.zeros((2, 2)), np.zeros((2, 2))]

    # the probe at position 1 receives the calibrated parameter; position 0 carries the processor id
    def hook2(d, tag, kwargs, rec):
        if tag == 0:
            d._memory["pid"] = kwargs.get("p")
            if d.pixel._array is None or True:
                d.pixel.array = np.zeros((2, 2))
        here = (d._memory.get("pid"), d.pipeline_count, tag)
        log.append(here)
        if tag == 1 and bool(vx.all_of([here[0] == fp, here[1] == fs])):
            raise marker

    vxprobes.reset(hook2)
    caught, res = None, None
    try:
        res = prob.fitness(np.array([0.5]))
    except Exception as e:  # noqa: BLE001
        caught = e
    finally:
        vxprobes.reset(None)
    if caught is None:
        inside = vx.all_of([fp >= 0, fp < 2, fs >= 0, fs < 2])
        vx.prove(f"C09/fitness/completes_without_fault/{exc}", vx.all_of([~inside if vx.is_sym(inside) else not inside, res is not None]))
        return
    notes = "\n".join(getattr(caught, "__notes__", []))
    vx.prove(f"C09/fitness/propagates/{exc}", caught is marker and res is None and "decision_vector_1d" in notes)
    pid = vx.concretize_int(fp)
    vx.prove(f"C09/fitness/later_pairs_not_run/{exc}", all(t[0] <= pid for t in log))


def _dask_case(r, s, m):
    """One crash point (run r, step s, model position m) in the parallel path, real dask (synchronous scheduler): returns
    (the injected fault surfaced, what happened instead)."""
    import warnings

    import pyxel
    from pyxel.exposure import Readout
    from pyxel.observation import Observation, ParameterValues

    warnings.filterwarnings("ignore")
    pipe, layout = _pipeline(2)
    marker_msg = "injected fault 0xC09"

    def hook(d, tag, kwargs, rec):
        if tag == 0:
            d._memory["p"] = kwargs.get("p")
        if d._memory.get("p") == [10, 20, 30][r] and d.pipeline_count == s and tag == m:
            raise RuntimeError(marker_msg)

    vxprobes.reset(hook)
    obs = Observation(parameters=[ParameterValues(key="pipeline.photon_collection.m0.arguments.p", values=[10, 20, 30])],
                      readout=Readout(times=[1.0, 2.0]), with_dask=True)
    surfaced, silent = False, None
    try:
        import dask

        with dask.config.set(scheduler="synchronous"):
            dt = pyxel.run_mode(mode=obs, detector=make_ccd(2, 2), pipeline=pipe, with_inherited_coords=True)
            dt.load()
        silent = "result computed without error"
    except Exception as e:  # noqa: BLE001
        surfaced = marker_msg in (str(e) + repr(getattr(e, "__cause__", "")) + "".join(getattr(e, "__notes__", [])))
        if not surfaced:
            silent = "different error: " + repr(e)[:200]
    finally:
        vxprobes.reset(None)
    return surfaced, silent


def dask_replay(tier, seed, n):
    """Concrete replay of crash points in the parallel path: the failure surfaces at the latest at .compute()/.load()."""
    obligations = []
    points = [(r, s, m) for r in range(3) for s in range(2) for m in range(2)]
    pts = [points[(seed + 5 * k) % len(points)] for k in range(n)]
    for (r, s, m) in pts:
        surfaced, silent = _dask_case(r, s, m)
        obligations.append({"id": f"C09/witness/dask/{r},{s},{m}", "verdict": "unsat" if surfaced else "sat", "info": {"silent": silent},
                            "model": {"run": r, "step": s, "pos": m}, "observed": {}})
    return {"obligations": obligations, "paths": len(pts), "reached": {o["id"]: 1 for o in obligations}}


def _calibration_case(exc_name, fault_call):
    """Real pyxel.run_mode(Calibration) with real pygmo (1 island, sade, 8 individuals, 1 generation): the probe fails at its
    `fault_call`-th execution.  Calls 1..8 evaluate the initial population in the caller's thread, later calls happen during evolution."""
    import tempfile
    import warnings

    import pyxel
    from pyxel.calibration import Algorithm, Calibration
    from pyxel.exposure import Readout
    from pyxel.observation import ParameterValues
    from pyxel.pipelines import FitnessFunction

    warnings.filterwarnings("ignore")
    pipe, layout = _pipeline(2)
    msg = "injected fault 0xC09"
    calls = [0]

    def hook(d, tag, kwargs, rec):
        if d.pixel._array is None:
            d.pixel.array = np.zeros((2, 2))
        if tag == 1:
            calls[0] += 1
            if calls[0] == fault_call:
                raise EXC[exc_name](msg)

    tmp = tempfile.mkdtemp(prefix="vx_c09_")
    tfile = os.path.join(tmp, "t.npy")
    np.save(tfile, np.zeros((2, 2)))
    vxprobes.reset(hook)
    caught, result = None, None
    import pyxel.calibration.archipelago_datatree as _ad

    real_tqdm = _ad.tqdm
    _ad.tqdm = lambda *a, **k: real_tqdm(*a, **{**k, "disable": True})  # progress bars off
    try:
        cal = Calibration(target_data_path=[tfile], fitness_function=FitnessFunction(func="pyxel.calibration.fitness.sum_of_abs_residuals"),
                          algorithm=Algorithm(type="sade", generations=1, population_size=8), num_islands=1, num_evolutions=1,
                          parameters=[ParameterValues(key="pipeline.photon_collection.m0.arguments.p", values="_", boundaries=(0.0, 1.0))],
                          readout=Readout(), pygmo_seed=11, pipeline_seed=3, result_type="pixel")
        result = pyxel.run_mode(mode=cal, detector=make_ccd(2, 2), pipeline=pipe)
        if hasattr(result, "load"):
            result.load()
    except Exception as e:  # noqa: BLE001
        caught = e
    finally:
        _ad.tqdm = real_tqdm
        vxprobes.reset(None)
        try:
            os.remove(tfile)
            os.rmdir(tmp)
        except OSError:
            pass
    g, nm = layout[1]
    text = ""
    e = caught
    while e is not None and len(text) < 20000:
        text += str(e) + "\n".join(getattr(e, "__notes__", []) or []) + "\n"
        e = e.__cause__ or e.__context__
    initial = fault_call <= 8
    bad = []
    if calls[0] == 0:
        raise RuntimeError(f"calibration harness never executed the pipeline: {caught!r}")
    if calls[0] < fault_call and caught is not None:
        raise RuntimeError(f"calibration harness failed before the fault point: {caught!r}")
    if calls[0] < fault_call:
        return None, {"note": f"the run needed only {calls[0]} pipeline executions: fault point outside the run"}
    if caught is None:
        bad.append("no exception reached the caller")
    else:
        if msg not in text:
            bad.append("original message lost")
        if f"'{g}'" not in text or f"'{nm}'" not in text:
            bad.append("group / model name lost")
        if initial and type(caught) is not EXC[exc_name]:
            bad.append(f"type changed to {type(caught).__name__} (initial population runs in the caller's thread)")
        if initial and msg not in str(caught):
            bad.append("the exception that reaches the caller does not carry the original message itself")
    return bool(bad), {"problems": bad, "caught": repr(caught)[:300], "pipeline_executions": calls[0]}


def calibration_replay(tier, seed, cases):
    """Calibration mode (initial population and evolution): pygmo's C++ archipelago cannot be explored symbolically, so the crash
    points are concrete witness runs of the real code."""
    obligations = []
    for exc_name, call in cases:
        bad, info = _calibration_case(exc_name, call)
        if bad is None:
            continue
        phase = "initial" if call <= 8 else "evolution"
        obligations.append({"id": f"C09/witness/calibration/{phase}/{exc_name},call={call}", "verdict": "sat" if bad else "unsat", "info": info,
                            "model": {"exc": exc_name, "fault_call": call}, "observed": {}})
    return {"obligations": obligations, "paths": len(cases), "reached": {o["id"]: 1 for o in obligations}}


def replay(oid, kwargs, model, data):
    if data["fn"] == "calibration_replay":
        bad, info = _calibration_case(model["exc"], int(model["fault_call"]))
        return bool(bad), info
    if data["fn"] == "crash":
        f = (int(model.get("fault_run", -1)), int(model.get("fault_step", -1)), int(model.get("fault_pos", -1)))
        log: list = []
        steps, models, mode, exc = kwargs["steps"], kwargs["models"], kwargs["mode"], kwargs["exc"]
        pkind = kwargs.get("pkind", "int")
        caught, result, marker, layout = _drive(steps, models, mode, EXC[exc], f, log, pkind)
        nruns = 1 if mode in ("exposure", "run_yaml_exposure") else 3
        inside = 0 <= f[0] < nruns and 0 <= f[1] < steps and 0 <= f[2] < models
        det = {"fault": list(f), "caught": repr(caught), "notes": getattr(caught, "__notes__", None), "calls": len(log)}
        if not inside:
            return (caught is not None or result is None), det
        bad = caught is not marker or result is not None
        notes = "\n".join(getattr(caught, "__notes__", []) or [])
        g, nm = layout[f[2]]
        bad = bad or (f"'{g}'" not in notes) or (f"'{nm}'" not in notes)
        full = [(rr, ss, mm) for rr in range(nruns) for ss in range(steps) for mm in range(models)]
        bad = bad or [t[:3] for t in log] != full[: full.index(f) + 1]
        if mode in ("observation", "run_yaml_observation"):
            val = _pvals(pkind)[f[0]]
            shown = [str(v) for v in val] if pkind == "list" else [str(val)]
            bad = bad or any(x not in notes for x in shown)
        return bad, det
    if data["fn"] == "dask_replay":
        surfaced, silent = _dask_case(int(model["run"]), int(model["step"]), int(model["pos"]))
        return (not surfaced), {"injected_fault_surfaced": surfaced, "instead": silent}
    return False, {}
