"""C18 — a detector saved to a file and loaded back is the same detector.

to_dict / from_dict of the four detector types and the ASDF backend are executed with symbolic
property fields and symbolic bucket contents, which containers are initialised being symbolic flags.
The ASDF library itself is replaced by a stand-in store that returns the tree of basic types it was
given (its contract); every path witness is replayed through the real ASDF library on disk.
The load-detector model is run directly and inside a pipeline.
"""

from __future__ import annotations

import copy
import os
import tempfile
import types

import numpy as np

import vx
import vxprobes
from vx import symnp
from vx.core import unjson
from vx.patching import Patch

from .c08_keys import GEO, INTS, RANGE, _make_det
from .common import DATA_MODULES, close, nums, sym_array

PROPERTY = "C18"
LEVEL = "model_checking"
FUNCTIONS = [
    "pyxel.detectors.ccd.ccd:CCD.to_dict", "pyxel.detectors.ccd.ccd:CCD.from_dict",
    "pyxel.detectors.cmos.cmos:CMOS.to_dict", "pyxel.detectors.cmos.cmos:CMOS.from_dict",
    "pyxel.detectors.mkid.mkid:MKID.to_dict", "pyxel.detectors.mkid.mkid:MKID.from_dict",
    "pyxel.detectors.apd.apd:APD.to_dict", "pyxel.detectors.apd.apd:APD.from_dict",
    "pyxel.detectors.geometry:Geometry.to_dict", "pyxel.detectors.environment:Environment.to_dict", "pyxel.detectors.environment:Environment.from_dict",
    "pyxel.detectors.characteristics:Characteristics.to_dict", "pyxel.detectors.characteristics:Characteristics.from_dict",
    "pyxel.data_structure.photon:Photon.to_dict", "pyxel.data_structure.photon:Photon.from_dict",
    "pyxel.detectors.detector:Detector.save", "pyxel.detectors.detector:Detector.load", "pyxel.detectors.detector:Detector.from_dict",
    "pyxel.backends.asdf:to_asdf", "pyxel.backends.asdf:from_asdf",
    "pyxel.models.util:load_detector", "pyxel.models.util:save_detector",
    "pyxel.exposure.exposure:run_pipeline (result after the load model; concrete witness with real ASDF)",
]
STUBS = ["the asdf module (late import in pyxel.backends.asdf) -> stand-in store returning the tree it was given; symbolic runs only",
         "np -> vx.symnp in pyxel.data_structure.* and detectors.characteristics; isinstance/float/int shadowed in detectors.environment",
         "scene and processed-data containers hold concrete xarray content (xarray cannot hold symbolic values)"]
OUTSIDE = ["HDF5: h5py is not installed in this sandbox, the HDF5 half cannot even be replayed", "multi-wavelength (3-D) photon contents are concrete in the replays only",
           "bit-level fidelity of the real ASDF library is exercised by the per-path witness replays (concrete), not symbolically"]
ASSUMPTIONS = ["the ASDF library returns the tree of basic types it was given (contract of the stand-in)", "property fields hold valid values"]
EXPLANATION = "field-by-field structural equality written in the harness (not the library's ==)"
DETS = ("ccd", "cmos", "mkid", "apd")
SHAPE = (2, 2)
FLAGS = ("photon", "pixel", "signal", "image", "frame", "scene_data")


def bounds(tier):
    return {"detectors": list(DETS), "containers": ("3 of the 6 container flags symbolic per task (8 patterns), rotating over tasks" if tier == "quick" else "every subset of " + str(FLAGS) + " initialised (symbolic flags, 64 patterns)"), "frame": "2x2", "routes": ["dict", "asdf stand-in", "real asdf (witness replay)"]}


def tasks(tier, seed):
    out = []
    for det in DETS:
        for route in ("dict", "asdf"):
            if tier == "quick":
                # three of the six container flags symbolic per task (rotating), the others initialised
                k = (DETS.index(det) * 2 + (route == "asdf")) % len(FLAGS)
                sf = [FLAGS[(k + j) % len(FLAGS)] for j in range(3)]
                out.append({"fn": "roundtrip", "kwargs": {"det": det, "route": route, "symflags": sf}, "label": f"roundtrip/{det}/{route}/flags={'+'.join(sf)}"})
            else:
                out.append({"fn": "roundtrip", "kwargs": {"det": det, "route": route}, "label": f"roundtrip/{det}/{route}", "caps": {"max_seconds": 900}})
    for det in (("ccd", "cmos") if tier == "quick" else DETS):
        out.append({"fn": "load_model", "kwargs": {"det": det, "how": "direct"}, "label": f"load_model/{det}/direct"})
        out.append({"fn": "load_model", "kwargs": {"det": det, "how": "pipeline"}, "label": f"load_model/{det}/pipeline"})
        out.append({"fn": "load_model", "kwargs": {"det": det, "how": "twice"}, "label": f"load_model/{det}/twice"})
        out.append({"fn": "result_after_load", "kwargs": {"det": det}, "label": f"load_model/{det}/result"})
    return out


def REQUIRED_REACH(tier):
    return ["C18/dict/roundtrip/*", "C18/asdf_standin/roundtrip/*", "C18/load_model/replaces_state/*", "C18/load_model/result_holds_loaded_state/*"]


# -- the ASDF stand-in -------------------------------------------------------------------------------
class _Store:
    def __init__(self):
        self.files = {}


def _asdf_shim(store):
    m = types.ModuleType("vx_fake_asdf")

    class AsdfFile:
        def __init__(self, tree=None):
            self.tree = tree

        def __enter__(self):
            return self

        def __exit__(self, *a):
            return False

        def write_to(self, filename):
            store.files[str(filename)] = _clone(self.tree)
            with open(filename, "wb") as fh:
                fh.write(b"#ASDF stand-in\n")

    class _Opened(dict):
        def __enter__(self):
            return self

        def __exit__(self, *a):
            return False

    def open_(filename, *a, **k):
        return _Opened(_clone(store.files[str(filename)]))

    m.AsdfFile = AsdfFile
    m.open = open_
    return m


def _clone(x):
    """The store keeps basic types: dicts / lists are copied, arrays copied, leaves kept."""
    if isinstance(x, dict):
        return {k: _clone(v) for k, v in x.items()}
    if isinstance(x, (list, tuple)):
        return type(x)(_clone(v) for v in x)
    if isinstance(x, (symnp.SymArray, np.ndarray)):
        return x.copy()
    return x


# -- detector construction ----------------------------------------------------------------------------
def _build(det, prefix, flags, symbolic=True, values=None):
    """Detector whose properties / buckets hold symbolic (or the given concrete) values."""
    import xarray as xr

    from pyxel.data_structure import Scene

    d = _make_det(det)
    d.geometry._row, d.geometry._col = SHAPE
    d._initialize()
    vals = {}

    def v(name, kind="real", lo=None, hi=None, strict=True):
        nm = f"{prefix}{name}"
        if not symbolic:
            x = values[nm]
            return int(x) if kind == "int" else float(x)
        x = vx.integer(nm) if kind == "int" else vx.real(nm)
        if lo is not None:
            vx.assume((x > lo if strict else x >= lo) & (x <= hi), "property fields hold valid values")
        vals[nm] = x
        return x

    for f in GEO[2:]:
        setattr(d.geometry, "_" + f, v("geo_" + f, lo=RANGE[f][0], hi=RANGE[f][1]))
    d.environment._temperature = v("temperature", lo=0, hi=1000)
    chars = ("quantum_efficiency", "full_well_capacity") if det == "apd" else ("quantum_efficiency", "charge_to_volt_conversion", "pre_amplification", "full_well_capacity")
    for f in chars:
        setattr(d.characteristics, "_" + f, v("char_" + f, lo=RANGE[f][0], hi=RANGE[f][1], strict=False))
    d.characteristics._adc_voltage_range = (v("vmin"), v("vmax"))

    def arr(name, kind="real", dtype=None):
        if symbolic:
            a = sym_array(prefix + name, SHAPE, kind=kind, dtype=dtype)
            if name in ("photon", "image"):
                for e in a.elems():
                    vx.assume(e >= 0, "photon / image values are non-negative")
            return a
        raw = [values[f"{prefix}{name}_{i}"] for i in range(4)]
        return np.array([int(x) % 65536 if kind == "int" else float(x) for x in raw], dtype=dtype or float).reshape(SHAPE)

    if flags["photon"]:
        d.photon._array = arr("photon")
    if flags["pixel"]:
        d.pixel._array = arr("pixel")
    else:
        d.pixel._array = None
    if flags["signal"]:
        d.signal._array = arr("signal")
    if flags["image"]:
        d.image._array = arr("image", "int", "uint16")
    d.charge._array = arr("charge")
    if det == "mkid":
        d.phase._array = arr("phase")
    if flags["frame"]:
        import pandas as pd

        row = {c: (v(f"frame_{c}") if c in ("number", "position_ver", "position_hor", "energy") else 0.0) for c in d.charge.columns}
        d.charge._frame = pd.DataFrame([row], columns=list(d.charge.columns))
    if flags["scene_data"]:
        ds = xr.Dataset({"flux": (("ref", "wavelength"), np.arange(6.0).reshape(2, 3))}, coords={"ref": [0, 1], "wavelength": [500.0, 600.0, 700.0]},
                        attrs={"right_ascension": "56.75 deg", "declination": "24.1167 deg", "fov_radius": "0.5 deg"})
        sc = Scene()
        try:
            sc.add_source(ds.assign(x=("ref", [1.0, 2.0]), y=("ref", [3.0, 4.0]), weight=("ref", [1.0, 1.0])))
        except Exception:  # noqa: BLE001
            sc = Scene()
        d._scene = sc
        # processed data as models leave it: a group with variables, a parent holding only shared coordinates with the variables
        # on its child, and a still-empty leaf group
        d._data = xr.DataTree.from_dict({"/stats": xr.Dataset({"mean": ("t", [1.0, 2.0])}),
                                         "/statistics": xr.Dataset(coords={"time": [0.5, 1.5]}),
                                         "/statistics/pixel": xr.Dataset({"var": ("time", [3.0, 4.0])}),
                                         "/pending": xr.Dataset()})
    return d, vals


def _arr_elems(a):
    if a is None:
        return None
    return list(symnp.asarray(a).elems())


def _same_arr(a, b):
    ea, eb = _arr_elems(a), _arr_elems(b)
    if ea is None or eb is None:
        return ea is None and eb is None
    if tuple(np.shape(a) if not isinstance(a, symnp.SymArray) else a.shape) != tuple(np.shape(b) if not isinstance(b, symnp.SymArray) else b.shape):
        return False
    return vx.all_of([x == y for x, y in zip(ea, eb)])


def _compare(d, d2, det):
    """Field-by-field structural comparison.  Returns a dict clause -> claim."""
    out = {}
    out["type"] = type(d2) is type(d)
    out["geometry"] = vx.all_of([getattr(d2.geometry, "_" + f) == getattr(d.geometry, "_" + f) for f in GEO])
    out["environment"] = d2.environment._temperature == d.environment._temperature
    cf = ("quantum_efficiency", "full_well_capacity", "adc_bit_resolution") if det == "apd" else ("quantum_efficiency", "charge_to_volt_conversion", "pre_amplification", "full_well_capacity", "adc_bit_resolution")
    vr, vr2 = d.characteristics._adc_voltage_range, d2.characteristics._adc_voltage_range
    out["characteristics"] = vx.all_of([getattr(d2.characteristics, "_" + f) == getattr(d.characteristics, "_" + f) for f in cf] + [len(vr2) == 2, vr2[0] == vr[0], vr2[1] == vr[1]])
    for b in ("photon", "pixel", "signal", "image") + (("phase",) if det == "mkid" else ()):
        a, a2 = getattr(d, "_" + b)._array, getattr(d2, "_" + b)._array
        out[b] = _same_arr(a, a2)
        if a is not None and a2 is not None:
            out[b + "_dtype"] = a.dtype == a2.dtype
    out["charge_array"] = _same_arr(d.charge._array, d2.charge._array)
    f1, f2 = d.charge._frame, d2.charge._frame
    ok = [list(f1.columns) == list(f2.columns), len(f1) == len(f2)]
    if len(f1) == len(f2):
        for c in f1.columns:
            for x, y in zip(f1[c].tolist(), f2[c].tolist()):
                ok.append(x is y or x == y)
    out["charge_frame"] = vx.all_of(ok)
    out["scene"] = bool(d._scene.data.equals(d2._scene.data)) if (d._scene is not None and d2._scene is not None) else (d._scene is None) == (d2._scene is None)
    out["data"] = bool(d._data.equals(d2._data)) if (d._data is not None and d2._data is not None) else (d._data is None) == (d2._data is None)
    return out


def _patch(p):
    p.numpy(*DATA_MODULES, "pyxel.detectors.characteristics", "pyxel.detectors.apd.apd_characteristics", "pyxel.detectors.geometry")
    p.attr("numba", "njit", lambda f=None, **kw: f if f is not None else (lambda g: g), "identity (cluster binning inside Charge.array)")
    p.builtins("pyxel.detectors.environment", "isinstance", "float", "int")
    for mod in ("pyxel.detectors.characteristics", "pyxel.detectors.apd.apd_characteristics", "pyxel.detectors.geometry"):
        p.builtins(mod, "float", "int")  # conversions of loaded values (float(x) of a symbolic number is the number)


def roundtrip(det, route, symflags=None):
    from pyxel.detectors import Detector

    symflags = list(FLAGS) if symflags is None else symflags
    flags = {k: (bool(vx.boolean("has_" + k)) if k in symflags else True) for k in FLAGS}
    if route == "dict" and flags["scene_data"]:
        return  # Dataset <-> dict conversion of processed data belongs to the file backends: covered by the asdf routes
    mask = "".join("1" if flags[k] else "0" for k in FLAGS)
    tmp = tempfile.mkdtemp(prefix="vx_c18_")
    path = os.path.join(tmp, "det.asdf")
    try:
        with Patch() as p:
            _patch(p)
            d, vals = _build(det, "", flags)
            if route == "dict":
                d2 = type(d).from_dict(copy.copy(d.to_dict()))
            else:
                store = _Store()
                p.sysmodule("asdf", _asdf_shim(store), "stand-in store")
                d.save(path)
                d2 = Detector.load(path)
            cmp = _compare(d, d2, det)
    finally:
        try:
            if os.path.exists(path):
                os.remove(path)
            os.rmdir(tmp)
        except OSError:
            pass
    head = "C18/dict/roundtrip" if route == "dict" else "C18/asdf_standin/roundtrip"
    for clause, claim in cmp.items():
        vx.prove(f"{head}/{det}/{clause}", claim, containers=mask)
    vx.prove(f"{head}/{det}/containers={mask}", vx.all_of(list(cmp.values())))
    vx.observe("mask", mask)


def fidelity_roundtrip(kwargs, w):
    """The same detector, concrete, through the real ASDF library on disk."""
    from pyxel.detectors import Detector

    inp = unjson(w["inputs"])
    det = kwargs["det"]
    flags = {k: bool(inp.get("has_" + k, True)) for k in FLAGS}
    d, _ = _build(det, "", flags, symbolic=False, values=_defaults(inp))
    tmp = tempfile.mkdtemp(prefix="vx_c18_")
    path = os.path.join(tmp, "det.asdf")
    try:
        d.save(path)
        d2 = Detector.load(path)
    finally:
        try:
            os.remove(path)
            os.rmdir(tmp)
        except OSError:
            pass
    bad = _compare_concrete(d, d2, det)
    return not bad, bad


class _Default(dict):
    def __missing__(self, k):
        return 1


def _defaults(inp):
    d = _Default()
    d.update(inp)
    return d


def _compare_concrete(d, d2, det):
    bad = {}
    if type(d) is not type(d2):
        bad["type"] = str(type(d2))
    for f in GEO:
        if not close(getattr(d.geometry, "_" + f), getattr(d2.geometry, "_" + f)):
            bad["geometry." + f] = [getattr(d.geometry, "_" + f), getattr(d2.geometry, "_" + f)]
    if not close(d.environment._temperature, d2.environment._temperature):
        bad["temperature"] = [d.environment._temperature, d2.environment._temperature]
    for f in ("quantum_efficiency", "full_well_capacity", "adc_bit_resolution", "adc_voltage_range"):
        a, b = getattr(d.characteristics, "_" + f), getattr(d2.characteristics, "_" + f)
        if not close(list(a) if isinstance(a, tuple) else a, list(b) if isinstance(b, (tuple, list)) else b):
            bad["characteristics." + f] = [a, b]
    for b_ in ("photon", "pixel", "signal", "image") + (("phase",) if det == "mkid" else ()):
        a, a2 = getattr(d, "_" + b_)._array, getattr(d2, "_" + b_)._array
        if (a is None) != (a2 is None) or (a is not None and (a.shape != a2.shape or a.dtype != a2.dtype or not np.array_equal(a, a2))):
            bad[b_] = [None if a is None else a.tolist(), None if a2 is None else np.asarray(a2).tolist()]
    if not np.array_equal(d.charge._array, d2.charge._array):
        bad["charge_array"] = [d.charge._array.tolist(), np.asarray(d2.charge._array).tolist()]
    f1, f2 = d.charge._frame, d2.charge._frame
    if list(f1.columns) != list(f2.columns) or len(f1) != len(f2) or not np.allclose(f1.to_numpy(dtype=float), f2.to_numpy(dtype=float)):
        bad["charge_frame"] = [f1.to_dict("list"), f2.to_dict("list")]
    if (d._scene is None) != (d2._scene is None) or (d._scene is not None and not d._scene.data.equals(d2._scene.data)):
        bad["scene"] = "differs"
    if (d._data is None) != (d2._data is None) or (d._data is not None and not d._data.equals(d2._data)):
        bad["data"] = "differs"
    return bad


# -- the load-detector model ---------------------------------------------------------------------------
def load_model(det, how):
    from pyxel.models import load_detector, save_detector
    from pyxel.pipelines import DetectionPipeline, ModelFunction, Processor

    flags = {k: True for k in FLAGS}
    flags["scene_data"] = False
    tmp = tempfile.mkdtemp(prefix="vx_c18_")
    path = os.path.join(tmp, "stored.asdf")
    seen = {}
    try:
        with Patch() as p:
            _patch(p)
            store = _Store()
            p.sysmodule("asdf", _asdf_shim(store), "stand-in store")
            stored, _ = _build(det, "file_", flags)
            save_detector(stored, filename=path)
            running, _ = _build(det, "run_", flags)
            if how == "direct":
                load_detector(running, filename=path)
                after = running
            elif how == "twice":
                # the same unmodified file loaded again after the running detector was changed in place
                load_detector(running, filename=path)
                running.empty()
                running.pixel.array = running.pixel.array + 1.0
                load_detector(running, filename=path)
                after = running
            else:
                def hook(d, tag, kwargs, rec):
                    seen["pixel"] = _arr_elems(d.pixel._array)
                    seen["signal"] = _arr_elems(d.signal._array)

                vxprobes.reset(hook)
                pipe = DetectionPipeline(charge_collection=[ModelFunction(name="load", func="pyxel.models.load_detector", arguments={"filename": path}),
                                                            ModelFunction(name="after", func="vxprobes.probe")])
                proc = Processor(detector=running, pipeline=pipe)
                proc.run_pipeline(debug=False)
                vxprobes.reset(None)
                after = proc.detector
            ok = []
            for b in ("photon", "pixel", "signal", "image"):
                ok.append(_same_arr(getattr(after, "_" + b)._array, getattr(stored, "_" + b)._array))
            ok.append(_same_arr(after.charge._array, stored.charge._array))
            ok.append(len(after.charge._frame) == len(stored.charge._frame))
            vx.prove(f"C18/load_model/replaces_state/{det}/{how}", vx.all_of(ok))
            if how == "pipeline":
                vx.prove(f"C18/load_model/later_models_see_loaded_state/{det}", vx.all_of([
                    seen.get("pixel") is not None and vx.all_of([x == y for x, y in zip(seen["pixel"], _arr_elems(stored.pixel._array))]),
                    seen.get("signal") is not None and vx.all_of([x == y for x, y in zip(seen["signal"], _arr_elems(stored.signal._array))])]))
    finally:
        vxprobes.reset(None)
        try:
            if os.path.exists(path):
                os.remove(path)
            os.rmdir(tmp)
        except OSError:
            pass


def _result_case(det, mode, position, nsteps):
    """Real pyxel.run_mode (Exposure / Observation) of a pipeline holding the load-detector model, on a real ASDF file whose detector
    carries processed data: what the returned result holds - buckets of the last step and the /data group - is the file's state."""
    import warnings

    import xarray as xr

    import pyxel
    from pyxel.exposure import Exposure, Readout
    from pyxel.models import save_detector
    from pyxel.observation import Observation, ParameterValues
    from pyxel.pipelines import DetectionPipeline, ModelFunction

    warnings.filterwarnings("ignore")
    flags = {k: True for k in FLAGS}
    vals = _defaults({})
    stored, _ = _build(det, "file_", flags, symbolic=False, values=vals)
    for b in ("photon", "pixel", "signal"):
        getattr(stored, "_" + b)._array = getattr(stored, "_" + b)._array + 7.0
    # processed data whose dimensions do not collide with the time / y / x coordinates of the result tree
    stored._data = xr.DataTree.from_dict({"/stats": xr.Dataset({"mean": ("t", [1.0, 2.0])}), "/fit": xr.Dataset(coords={"order": [0, 1]}),
                                          "/fit/pixel": xr.Dataset({"coef": ("order", [3.0, 4.0])})})
    tmp = tempfile.mkdtemp(prefix="vx_c18_")
    path = os.path.join(tmp, "stored.asdf")
    seen = []
    bad = {}

    def hook(d, tag, kwargs, rec):
        if tag == "before":
            d.pixel.array = np.full(SHAPE, 1.0)
            d.data["/own"] = xr.Dataset({"n": ("k", [float(d.pipeline_count)])})
        else:
            seen.append({"pixel": np.asarray(d.pixel.array).copy(), "groups": sorted(str(g) for g in d.data.children)})
            if d.image._array is None:
                d.image.array = np.zeros(SHAPE, dtype="uint16")

    try:
        save_detector(stored, filename=path)
        running, _ = _build(det, "run_", {**flags, "scene_data": False}, symbolic=False, values=vals)
        load = ModelFunction(name="load", func="pyxel.models.load_detector", arguments={"filename": path})
        before = ModelFunction(name="before", func="vxprobes.probe", arguments={"tag": "before"})
        after = ModelFunction(name="after", func="vxprobes.probe_a", arguments={"tag": "after", "a": 0.0})
        groups = {"charge_collection": [load, after]} if position == 0 else {"photon_collection": [before], "charge_collection": [load], "charge_measurement": [after]}
        pipe = DetectionPipeline(**groups)
        times = [1.0, 2.0, 4.0][:nsteps]
        if mode == "exposure":
            m = Exposure(readout=Readout(times=times))
        else:
            m = Observation(parameters=[ParameterValues(key="pipeline.charge_measurement.after.arguments.a" if position else "pipeline.charge_collection.after.arguments.a", values=[1.0, 2.0])],
                            readout=Readout(times=times), with_dask=False)
        vxprobes.reset(hook)
        try:
            res = pyxel.run_mode(mode=m, detector=running, pipeline=pipe)
        finally:
            vxprobes.reset(None)
        want_groups = sorted(str(g) for g in stored.data.children)
        if not seen or any(not np.array_equal(s["pixel"], stored.pixel.array) for s in seen):
            bad["later_model_pixel"] = [s["pixel"].tolist() for s in seen[:2]]
        if any(s["groups"] != want_groups for s in seen):
            bad["later_model_data_groups"] = [seen[0]["groups"] if seen else None, want_groups]
        node = res["/bucket"] if "bucket" in res.children else res
        px = np.asarray(node["pixel"])
        last = px.reshape((-1,) + SHAPE)[-1]
        if not np.array_equal(last, stored.pixel.array):
            bad["result_pixel"] = [last.tolist(), np.asarray(stored.pixel.array).tolist()]
        if "data" not in res.children:
            bad["result_data"] = "no /data group"
        else:
            got = sorted(str(g) for g in res["/data"].children)
            if got != want_groups:
                bad["result_data_groups"] = [got, want_groups]
            else:
                for g in want_groups:
                    for name, da in stored.data[g].to_dataset().data_vars.items():
                        have = res[f"/data/{g}"].to_dataset().data_vars.get(name)
                        if have is None or not np.array_equal(np.asarray(have).ravel()[-da.size:], np.asarray(da).ravel()):
                            bad[f"result_data/{g}/{name}"] = [None if have is None else np.asarray(have).tolist(), np.asarray(da).tolist()]
    finally:
        try:
            if os.path.exists(path):
                os.remove(path)
            os.rmdir(tmp)
        except OSError:
            pass
    return bad


def result_after_load(det):
    """Second half of the statement through the running modes: the pipeline position of the load model, the mode and the number of
    readout steps are solver-chosen; files, xarray and ASDF are real (concrete values)."""
    mo, po, ns = vx.integer("mode"), vx.integer("position"), vx.integer("nsteps")
    vx.assume((mo >= 0) & (mo <= 1) & (po >= 0) & (po <= 1) & (ns >= 1) & (ns <= 2), "exposure / observation, load model first or after a writer, one or two steps")
    mode, position, nsteps = ("exposure", "observation")[vx.concretize_int(mo)], vx.concretize_int(po), vx.concretize_int(ns)
    bad = _result_case(det, mode, position, nsteps)
    vx.prove(f"C18/load_model/result_holds_loaded_state/{det}/{mode},position={position},steps={nsteps}", not bad, detail=str(bad)[:300])


def replay(oid, kwargs, model, data):
    from pyxel.detectors import Detector
    from pyxel.models import load_detector, save_detector

    det = kwargs["det"]
    if data["fn"] == "result_after_load":
        bad = _result_case(det, ("exposure", "observation")[int(model.get("mode", 0))], int(model.get("position", 0)), int(model.get("nsteps", 1)))
        return bool(bad), bad
    tmp = tempfile.mkdtemp(prefix="vx_c18_")
    path = os.path.join(tmp, "det.asdf")
    try:
        if data["fn"] == "roundtrip":
            flags = {k: bool(model.get("has_" + k, True)) for k in FLAGS}
            d, _ = _build(det, "", flags, symbolic=False, values=_defaults(model))
            if kwargs["route"] == "dict":
                d2 = type(d).from_dict(copy.copy(d.to_dict()))
            else:
                d.save(path)
                d2 = Detector.load(path)
            bad = _compare_concrete(d, d2, det)
            return bool(bad), bad
        flags = {k: True for k in FLAGS}
        flags["scene_data"] = False
        vals = _defaults(model)
        stored, _ = _build(det, "file_", flags, symbolic=False, values=_defaults({**{k: 3 for k in ()}, **model}))
        for b in ("photon", "pixel", "signal"):
            getattr(stored, "_" + b)._array = getattr(stored, "_" + b)._array + 7.0
        save_detector(stored, filename=path)
        running, _ = _build(det, "run_", flags, symbolic=False, values=vals)
        load_detector(running, filename=path)
        if kwargs.get("how") == "twice":
            running.empty()
            running.pixel.array = running.pixel.array + 1.0
            load_detector(running, filename=path)
        def _lst(a):
            return None if a is None else np.asarray(a).tolist()

        bad = {b: [_lst(getattr(running, "_" + b)._array), _lst(getattr(stored, "_" + b)._array)] for b in ("photon", "pixel", "signal")
               if getattr(running, "_" + b)._array is None or not np.array_equal(getattr(running, "_" + b)._array, getattr(stored, "_" + b)._array)}
        return bool(bad), {"running_detector_after_load_vs_file": bad}
    finally:
        try:
            if os.path.exists(path):
                os.remove(path)
            os.rmdir(tmp)
        except OSError:
            pass
