"""Second solver: cvc5 (Python wheel) on SMT-LIB2 dumps of vx queries.

Used (a) as the primary solver for IEEE-754 obligations, where cvc5 is markedly faster than z3, and
(b) as the independent second opinion on final queries in the thorough tier.
"""

from __future__ import annotations

import re
import struct
import time
from fractions import Fraction


def z3_to_smt2(assertions, get_values=()):
    import z3

    s = z3.Solver()
    for a in assertions:
        s.add(a)
    text = s.to_smt2()
    # z3 emits (check-sat) at the end; append get-value for the named constants
    if get_values:
        text += "\n(get-value (" + " ".join(get_values) + "))\n"
    return text


_FP = re.compile(r"\(fp\s+#b([01])\s+#b([01]+)\s+#b([01]+)\)")


def _parse_value(txt):
    txt = txt.strip()
    m = _FP.fullmatch(txt)
    if m:
        bits = m.group(1) + m.group(2) + m.group(3)
        if len(bits) == 64:
            return struct.unpack("<d", struct.pack("<Q", int(bits, 2)))[0]
        return txt
    if txt in ("true", "false"):
        return txt == "true"
    if txt.startswith("(_ +oo"):
        return float("inf")
    if txt.startswith("(_ -oo"):
        return float("-inf")
    if txt.startswith("(_ NaN"):
        return float("nan")
    if txt.startswith("(_ +zero"):
        return 0.0
    if txt.startswith("(_ -zero"):
        return -0.0
    t = txt.replace("(", " ").replace(")", " ").split()
    try:
        if len(t) == 1:
            return int(t[0]) if re.fullmatch(r"-?\d+", t[0]) else Fraction(t[0])
        if t[0] == "-" and len(t) == 2:
            return -int(t[1]) if t[1].isdigit() else -Fraction(t[1])
        if t[0] == "/" and len(t) == 3:
            return Fraction(int(t[1]), int(t[2]))
        if t[0] == "-" and t[1] == "/" and len(t) == 4:
            return -Fraction(int(t[2]), int(t[3]))
    except (ValueError, ZeroDivisionError):
        pass
    return txt


def _split_pairs(s):
    """Parse '((x v) (y v))' into [(name, value-text)]."""
    s = s.strip()
    assert s.startswith("(") and s.endswith(")"), s
    s = s[1:-1].strip()
    out, depth, start = [], 0, None
    for i, ch in enumerate(s):
        if ch == "(":
            if depth == 0:
                start = i
            depth += 1
        elif ch == ")":
            depth -= 1
            if depth == 0:
                item = s[start + 1 : i].strip()
                name, _, val = item.partition(" ")
                out.append((name.strip("|"), val.strip()))
    return out


def cvc5_check(smt2_text, timeout_ms=60000, seed=0):
    """Returns (verdict, values, seconds).  verdict in {'sat','unsat','unknown'}."""
    import cvc5

    t0 = time.perf_counter()
    try:
        tm = cvc5.TermManager()
        slv = cvc5.Solver(tm)
    except AttributeError:  # older API
        slv = cvc5.Solver()
    slv.setOption("tlimit-per", str(int(timeout_ms)))
    slv.setOption("produce-models", "true")
    if "(_ FloatingPoint 11 72)" in smt2_text or "(_ to_fp 11 72)" in smt2_text:
        slv.setOption("fp-exp", "true")  # non-standard FP widths (exact integer codes above 2**53)
    if "(set-logic" not in smt2_text:
        smt2_text = "(set-logic ALL)\n" + smt2_text
    slv.setOption("seed", str(int(seed) & 0xFFFF))
    # z3 prints (set-info :status ...) and uses RoundingMode names cvc5 understands
    parser = cvc5.InputParser(slv)
    parser.setStringInput(cvc5.InputLanguage.SMT_LIB_2_6, smt2_text, "vx")
    sm = parser.getSymbolManager()
    verdict, values = "unknown", {}
    try:
        while True:
            cmd = parser.nextCommand()
            if cmd.isNull():
                break
            out = cmd.invoke(slv, sm)
            out = out.strip() if isinstance(out, str) else ""
            if out in ("sat", "unsat", "unknown"):
                verdict = out
                if out != "sat":
                    break
            elif out.startswith("((") and verdict == "sat":
                for name, val in _split_pairs(out):
                    values[name] = _parse_value(val)
            elif "error" in out.lower():
                return "unknown", {"error": out[:300]}, time.perf_counter() - t0
    except Exception as e:  # noqa: BLE001
        return "unknown", {"error": repr(e)[:300]}, time.perf_counter() - t0
    return verdict, values, time.perf_counter() - t0
