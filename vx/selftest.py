"""Fidelity self-test of the numpy stand-in: every operation is evaluated on random inputs through
vx.symnp (symbolic terms, then evaluated under the model that fixes the inputs) and through real
numpy; any difference is a failure (exit 3 from setup.sh)."""

from __future__ import annotations

import random
import sys

import numpy as np

import vx
from vx import symnp
from vx.core import Fraction


def _sym_of(name, arr):
    elems = [vx.real(f"{name}_{i}") for i in range(arr.size)]
    for e, v in zip(elems, arr.ravel().tolist()):
        vx.assume(e == Fraction(v).limit_denominator(64))
    return symnp.SymArray.from_elems(elems, arr.shape, arr.dtype)


def _rand(shape, rng):
    return np.array([Fraction(rng.randint(-40, 40), 8) for _ in range(int(np.prod(shape)))], dtype=float).reshape(shape)


CASES = [
    ("add", lambda xp, a, b: a + b),
    ("sub_scalar", lambda xp, a, b: a - 1.5),
    ("mul", lambda xp, a, b: a * b),
    ("div", lambda xp, a, b: a / (xp.abs(b) + 1)),
    ("floor_divide", lambda xp, a, b: xp.floor_divide(a, 0.75)),
    ("clip", lambda xp, a, b: xp.clip(a, -1.0, 2.0)),
    ("where", lambda xp, a, b: xp.where(a > b, a, b)),
    ("minimum", lambda xp, a, b: xp.minimum(a, b)),
    ("maximum", lambda xp, a, b: xp.maximum(a, 0.25)),
    ("diff", lambda xp, a, b: xp.diff(a.flatten())),
    ("concat", lambda xp, a, b: xp.concatenate((a.flatten(), b.flatten()))),
    ("sum", lambda xp, a, b: xp.sum(a)),
    ("sum_axis", lambda xp, a, b: xp.sum(a, axis=0)),
    ("mean", lambda xp, a, b: xp.mean(a)),
    ("trunc", lambda xp, a, b: xp.trunc(a * 3)),
    ("floor", lambda xp, a, b: xp.floor(a * 3)),
    ("rint", lambda xp, a, b: xp.rint(a * 2)),
    ("abs", lambda xp, a, b: xp.abs(a)),
    ("square", lambda xp, a, b: xp.square(a)),
    ("slice", lambda xp, a, b: a[1:, :1] + b[:1, 1:]),
    ("transpose", lambda xp, a, b: a.T * 2),
    ("astype_int", lambda xp, a, b: (a * 4).astype(np.int64)),
    ("cumsum", lambda xp, a, b: xp.cumsum(a, axis=1)),
    ("repeat", lambda xp, a, b: xp.repeat(a, 2, axis=0)),
    ("pad", lambda xp, a, b: xp.pad(a, ((1, 0), (0, 2)))),
    ("neg", lambda xp, a, b: -a),
    ("pow2", lambda xp, a, b: a**2),
    ("cmp", lambda xp, a, b: (a <= b)),
    ("all", lambda xp, a, b: xp.all(a > -100)),
    ("python_int_refused", lambda xp, a, b: _refusal(xp, a)),
]


def _refusal(xp, a):
    """numpy >= 2 refuses a Python integer that the integer dtype cannot hold (plain and masked assignment): 1.0 where refused."""
    out = []
    for dt, v in ((np.uint8, 255), (np.uint8, 256), (np.uint16, 65536), (np.uint32, 2**32 - 1), (np.int8, -129)):
        z = xp.zeros(a.shape, dtype=dt)
        for masked in (False, True):
            try:
                if masked:
                    z[a > 100] = v
                else:
                    z[0, 0] = v
                out.append(0.0)
            except OverflowError:
                out.append(1.0)
    return xp.asarray(out)


def _masked(xp, a, b):
    c = a.copy()
    c[b > 0] = 7.0
    c[c < 0] = 0.0
    return c


def _inplace(xp, a, b):
    c = a.copy()
    c += b
    c[0, :] -= 1.0
    v = c[1:]
    v *= 2
    return c


CASES += [("masked_assign", _masked), ("inplace_view", _inplace)]
CASES += [("flatnonzero", lambda xp, a, b: xp.flatnonzero(a > b)), ("count_nonzero", lambda xp, a, b: xp.asarray([xp.count_nonzero(a > 0.0)]))]
CASES += [("sort_axis0", lambda xp, a, b: xp.sort(a, axis=0)), ("sort_last", lambda xp, a, b: xp.sort(b))]


def run(seed=0, rounds=3):
    rng = random.Random(seed)
    bad = []
    n = 0
    for r in range(rounds):
        shape = rng.choice([(2, 2), (2, 3), (3, 2)])
        A, B = _rand(shape, rng), _rand(shape, rng)
        for name, f in CASES:
            want = f(np, A.copy(), B.copy())
            box = {}

            def body():
                a, b = _sym_of("a", A), _sym_of("b", B)
                box["res"] = f(symnp, a, b)
                m = vx.current().model()
                box["val"] = vx.evalv(box["res"], m)

            res = vx.explore(body, max_paths=64, witness=False)
            if res["errors"] or res["unsupported"] or "val" not in box:
                bad.append((name, "engine", res["errors"][:1], res["unsupported"][:1]))
                continue
            got = np.array(box["val"], dtype=float)
            n += 1
            if got.shape != np.asarray(want).shape or not np.allclose(got, np.asarray(want, dtype=float), rtol=1e-12, atol=1e-12):
                bad.append((name, got.tolist(), np.asarray(want).tolist()))
            sr = box["res"]
            if isinstance(sr, symnp.SymArray) and sr.dtype != np.asarray(want).dtype:
                bad.append((name, "dtype", str(sr.dtype), str(np.asarray(want).dtype)))
    return n, bad


def main():
    n, bad = run()
    if bad:
        for b in bad:
            print("selftest FAIL:", b)
        return 3
    print(f"vx selftest: {n} operation instances agree with numpy")
    return 0


if __name__ == "__main__":
    sys.exit(main())
