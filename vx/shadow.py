"""Shadows for builtins / math that must accept symbolic values inside patched modules."""

from __future__ import annotations

import builtins as _b
import math as _m
import types

import numpy as _np
import z3

from . import core, funcs
from .core import Sym, SymBool, SymInt, SymNum, SymReal, is_sym


def _arr():
    from .symnp import SymArray

    return SymArray


class _IntMeta(type):
    def __instancecheck__(cls, o):
        return isinstance(o, (_b.int, SymInt))

    def __subclasscheck__(cls, s):
        return issubclass(s, (_b.int, SymInt))

    def __call__(cls, x=0, *a):
        if isinstance(x, SymBool):
            return x._i()
        if isinstance(x, SymNum):
            return x.__trunc__()
        if isinstance(x, _arr()):
            return cls(x.item())
        return _b.int(x, *a)


class sym_int(metaclass=_IntMeta):
    pass


class _FloatMeta(type):
    def __instancecheck__(cls, o):
        return isinstance(o, (_b.float, SymReal, core.SymFP))

    def __subclasscheck__(cls, s):
        return issubclass(s, (_b.float, SymReal))

    def __call__(cls, x=0.0):
        if isinstance(x, core.SymFP):
            return x
        if isinstance(x, SymBool):
            x = x._i()
        if isinstance(x, SymNum):
            return SymReal(z3.ToReal(x.t)) if x.is_int else x
        if isinstance(x, _arr()):
            return cls(x.item())
        return _b.float(x)


class sym_float(metaclass=_FloatMeta):
    pass


class _BoolMeta(type):
    def __instancecheck__(cls, o):
        return isinstance(o, (_b.bool, SymBool))

    def __call__(cls, x=False):
        if isinstance(x, SymBool):
            return x
        if isinstance(x, SymNum):
            return x != 0
        if isinstance(x, _arr()):
            return cls(x.item())
        return _b.bool(x)


class sym_bool(metaclass=_BoolMeta):
    pass


def sym_range(*a):
    """range() whose start may stay symbolic when the length is fixed on this path."""
    if not any(is_sym(x) for x in a):
        return _b.range(*a)
    if len(a) == 2:
        start, stop = a
        n = core.implied_value(stop - start)
        if n is not None:
            return [start + k for k in _b.range(max(0, int(n)))]
    return _b.range(*[core.concretize_int(x) for x in a])


def sym_len(x):
    return _b.len(x)


def sym_round(x, n=None):
    if is_sym(x):
        return x.__round__(n)
    return _b.round(x, n) if n is not None else _b.round(x)


def sym_abs(x):
    return abs(x)


def _fold(f, args, kw):
    if len(args) == 1:
        args = list(args[0])
    if not args:
        if "default" in kw:
            return kw["default"]
        raise ValueError("empty sequence")
    acc = args[0]
    for v in args[1:]:
        acc = f(acc, v)
    return acc


def sym_min(*args, **kw):
    return _fold(core.sym_min, args, kw)


def sym_max(*args, **kw):
    return _fold(core.sym_max, args, kw)


def sym_sum(xs, start=0):
    acc = start
    for x in xs:
        acc = acc + x
    return acc


def sym_isinstance(o, cls):
    if _b.isinstance(o, cls):
        return True
    cs = cls if _b.isinstance(cls, tuple) else (cls,)
    flat = []
    for c in cs:
        if _b.isinstance(c, types.UnionType):
            flat.extend(c.__args__)
        elif _b.isinstance(c, tuple):
            flat.extend(c)
        else:
            flat.append(c)
    for c in flat:
        if c is _b.int and _b.isinstance(o, SymInt):
            return True
        if c is _b.float and _b.isinstance(o, (SymReal, core.SymFP)):
            return True
        if c is _b.bool and _b.isinstance(o, SymBool):
            return True
        if c is _np.ndarray and _b.isinstance(o, _arr()):
            return True
    return False


class _Math(types.ModuleType):
    pi = _m.pi
    e = _m.e
    inf = _m.inf
    nan = _m.nan
    tau = _m.tau

    def __getattr__(self, name):
        real = getattr(_m, name)

        def guarded(*a):
            if any(is_sym(x) for x in a):
                raise core.Unsupported(f"math.{name} on a symbolic value")
            return real(*a)

        return guarded

    @staticmethod
    def floor(x):
        return x.__floor__() if is_sym(x) else _m.floor(x)

    @staticmethod
    def ceil(x):
        return x.__ceil__() if is_sym(x) else _m.ceil(x)

    @staticmethod
    def trunc(x):
        return x.__trunc__() if is_sym(x) else _m.trunc(x)

    @staticmethod
    def sqrt(x):
        return funcs.sqrt(x)

    @staticmethod
    def exp(x):
        return funcs.exp(x)

    @staticmethod
    def log10(x):
        return funcs.log10(x)

    @staticmethod
    def log(x, base=None):
        if base is not None:
            raise core.Unsupported("math.log with base")
        return funcs.log(x)

    @staticmethod
    def pow(a, b):
        return funcs.power(a, b)

    @staticmethod
    def fabs(x):
        return abs(x)

    @staticmethod
    def isnan(x):
        return False if is_sym(x) else _m.isnan(x)

    @staticmethod
    def isinf(x):
        return False if is_sym(x) else _m.isinf(x)

    @staticmethod
    def isfinite(x):
        return True if is_sym(x) else _m.isfinite(x)

    @staticmethod
    def isclose(a, b, **kw):
        if is_sym(a) or is_sym(b):
            return a == b
        return _m.isclose(a, b, **kw)


math = _Math("vx_math")
