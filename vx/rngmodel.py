"""Model of numpy's process-wide legacy generator as a state machine over an uninterpreted sort.

While installed, every function of ``numpy.random`` that touches the global RandomState is replaced:
``get_state()`` returns a token for the current state *term*, ``seed(s)`` sets ``seeded(s)`` (s may be
symbolic), every draw records the state term it was made from and advances ``state := next(state)``,
``set_state(tok)`` restores a term.  Drawn data are ordinary concrete arrays produced by a private
generator keyed on the state term, so numerical code runs unmodified while the *state* stays a term.
"""

from __future__ import annotations

import hashlib

import numpy as np
import z3

from . import core

S = z3.DeclareSort("RngState")
SB = z3.DeclareSort("RngBits")  # Mersenne-Twister key + position (what the bit generator's `state` holds)
SG = z3.DeclareSort("RngGauss")  # the legacy generator's cached Gaussian (has_gauss, cached_gaussian)
PAIR = z3.Function("rng_state", SB, SG, S)
B0 = z3.Const("rng_bits0", SB)
G0 = z3.Const("rng_gauss0", SG)
STATE0 = PAIR(B0, G0)
NEXT = z3.Function("rng_next", SB, SB)
SEEDED_B = z3.Function("rng_seeded", z3.IntSort(), SB)
GCLEAR = z3.Const("rng_gauss_cleared", SG)
GNEXT = z3.Function("rng_gauss_next", SG, SB, SG)
ENTROPY = z3.Const("rng_os_entropy", SB)


def SEEDED(t):
    """Full state right after seed(t): seeded bits, Gaussian cache cleared."""
    return PAIR(SEEDED_B(t), GCLEAR)


_DRAWS = [n for n in dir(np.random.mtrand._rand) if not n.startswith("_") and callable(getattr(np.random.mtrand._rand, n))
          and n not in ("seed", "get_state", "set_state")]
# draws that go through the legacy Gaussian (and therefore read / write its one-value cache)
GAUSS_FAMILY = {"normal", "randn", "standard_normal", "lognormal", "multivariate_normal", "standard_cauchy", "standard_t", "chisquare", "noncentral_chisquare",
                "f", "noncentral_f", "wald", "gamma", "standard_gamma", "beta", "dirichlet", "vonmises", "negative_binomial", "power", "pareto", "weibull"}


class _Token(tuple):
    """What get_state() returns: carries the state terms."""

    term = None


class _BitGenerator:
    """np.random.get_bit_generator(): its `state` is the Mersenne-Twister part only."""

    def __init__(self, model):
        self._m = model

    @property
    def state(self):
        tok = _BitState({"bit_generator": "MT19937"})
        tok.bits = self._m.B
        self._m.events.append(("bit_generator.state read", self._m.B))
        return tok

    @state.setter
    def state(self, value):
        bits = getattr(value, "bits", None)
        if bits is None:
            raise core.Unsupported("bit_generator.state set to a value not read from it")
        self._m.events.append(("bit_generator.state written", bits))
        self._m.B = bits


class _BitState(dict):
    bits = None


class RngModel:
    def __init__(self):
        self.B, self.G = B0, G0
        self.draws: list = []  # (function name, full state term before the draw)
        self.seeds: list = []  # terms passed to seed()
        self.events: list = []
        self.entropy: list = []  # local generators created without a seed (OS entropy)

    @property
    def state(self):
        return PAIR(self.B, self.G)

    # -- global-state API
    def get_state(self, legacy=True):
        tok = _Token(("MT19937", self.state))
        tok.term = (self.B, self.G)
        self.events.append(("get_state", self.state))
        return tok

    def set_state(self, state):
        term = getattr(state, "term", None)
        if term is None:
            raise core.Unsupported("np.random.set_state with a state not obtained from get_state()")
        self.events.append(("set_state", PAIR(*term)))
        self.B, self.G = term

    def seed(self, seed=None):
        if seed is None:
            self.B = ENTROPY
            self.seeds.append(None)
        else:
            t = core.to_term(seed)
            if t is None:
                t = (z3.IntVal(int(np.asarray(seed).ravel()[0])), "int")
            self.B = SEEDED_B(t[0])
            self.seeds.append(t[0])
        self.G = GCLEAR
        self.events.append(("seed", self.state))

    def _advance(self, name):
        b = self.B
        self.B = NEXT(b)
        if name in GAUSS_FAMILY:
            self.G = GNEXT(self.G, b)

    def _draw(self, name):
        def f(*a, **k):
            if any(core.is_sym(x) for x in a) or any(core.is_sym(x) for x in k.values()):
                raise core.Unsupported(f"np.random.{name} with symbolic arguments")
            self.draws.append((name, self.state))
            key = int(hashlib.sha256(z3.simplify(self.state).sexpr().encode()).hexdigest()[:8], 16)
            priv = np.random.RandomState(key)
            self._advance(name)
            return getattr(priv, name)(*a, **k)

        f.__name__ = name
        return f

    def install(self, patch):
        """Replace the global-state functions of numpy.random (undone by the Patch)."""
        import numpy.random as npr

        patch.attr(npr, "seed", self.seed, "RNG model")
        patch.attr(npr, "get_state", self.get_state, "RNG model")
        patch.attr(npr, "set_state", self.set_state, "RNG model")
        if hasattr(npr, "get_bit_generator"):
            bg = _BitGenerator(self)
            patch.attr(npr, "get_bit_generator", lambda: bg, "RNG model")
        for n in _DRAWS:
            if hasattr(npr, n):
                patch.attr(npr, n, self._draw(n))
        # generators created from operating-system entropy escape every seed: record them (they still work)
        real_default_rng, real_rs = npr.default_rng, npr.RandomState
        model = self

        def default_rng(seed=None, *a, **k):
            if seed is None:
                model.entropy.append("numpy.random.default_rng()")
                seed = 0x5EED + len(model.entropy)
            return real_default_rng(seed, *a, **k)

        class RandomState(real_rs):  # type: ignore[misc,valid-type]
            def __init__(self, seed=None, *a, **k):
                if seed is None:
                    model.entropy.append("numpy.random.RandomState()")
                    seed = 0x5EED + len(model.entropy)
                super().__init__(seed, *a, **k)

        patch.attr(npr, "default_rng", default_rng, "records generators seeded from OS entropy")
        patch.attr(npr, "RandomState", RandomState, "records generators seeded from OS entropy")
        patch.log.append("numpy.random global-state functions -> vx.rngmodel (uninterpreted state machine: MT bits + Gaussian cache)")
        return self

    # -- queries
    def depends_on_initial_state(self, term):
        """Does the term mention the initial (arbitrary) generator state?"""
        fb, fg = z3.Const("rng_bits0_other", SB), z3.Const("rng_gauss0_other", SG)
        return not z3.simplify(z3.substitute(term, (B0, fb), (G0, fg))).eq(z3.simplify(term))

    @staticmethod
    def after(start, names):
        """State reached from `start` (a PAIR term or (B, G)) by the given sequence of draw names."""
        m = RngModel()
        if isinstance(start, tuple):
            m.B, m.G = start
        else:
            m.B, m.G = start.arg(0), start.arg(1)
        for n in names:
            m._advance(n)
        return m.state

    def nexts(self, term, k, name="random"):
        return RngModel.after(term, [name] * k)


_CURRENT = None


def current_random():
    raise core.Unsupported("np.random reached through vx.symnp without an installed RNG model")
