"""Model of numpy's process-wide legacy generator as a state machine over an uninterpreted sort.

While installed, every function of ``numpy.random`` that touches the global RandomState is replaced:
``get_state()`` returns a token for the current state *term*, ``seed(s)`` sets ``seeded(s)`` (s may be
symbolic), every draw records the state term it was made from and advances ``state := next(state)``,
``set_state(tok)`` restores a term.  Drawn data are ordinary concrete arrays produced by a private
generator keyed on the state term, so numerical code runs unmodified while the *state* stays a term.
"""

from __future__ import annotations

import hashlib

import numpy as np
import z3

from . import core

S = z3.DeclareSort("RngState")
STATE0 = z3.Const("rng_state0", S)
NEXT = z3.Function("rng_next", S, S)
SEEDED = z3.Function("rng_seeded", z3.IntSort(), S)
ENTROPY = z3.Const("rng_os_entropy", S)

_DRAWS = [n for n in dir(np.random.mtrand._rand) if not n.startswith("_") and callable(getattr(np.random.mtrand._rand, n))
          and n not in ("seed", "get_state", "set_state")]


class _Token(tuple):
    """What get_state() returns: carries the state term."""

    term = None


class RngModel:
    def __init__(self):
        self.state = STATE0
        self.draws: list = []  # (function name, state term before the draw)
        self.seeds: list = []  # terms passed to seed()
        self.events: list = []

    # -- global-state API
    def get_state(self, legacy=True):
        tok = _Token(("MT19937", self.state))
        tok.term = self.state
        self.events.append(("get_state", self.state))
        return tok

    def set_state(self, state):
        term = getattr(state, "term", None)
        if term is None:
            raise core.Unsupported("np.random.set_state with a state not obtained from get_state()")
        self.events.append(("set_state", term))
        self.state = term

    def seed(self, seed=None):
        if seed is None:
            self.state = ENTROPY
            self.seeds.append(None)
        else:
            t = core.to_term(seed)
            if t is None:
                t = (z3.IntVal(int(np.asarray(seed).ravel()[0])), "int")
            self.state = SEEDED(t[0])
            self.seeds.append(t[0])
        self.events.append(("seed", self.state))

    def _draw(self, name):
        def f(*a, **k):
            if any(core.is_sym(x) for x in a) or any(core.is_sym(x) for x in k.values()):
                raise core.Unsupported(f"np.random.{name} with symbolic arguments")
            self.draws.append((name, self.state))
            key = int(hashlib.sha256(z3.simplify(self.state).sexpr().encode()).hexdigest()[:8], 16)
            priv = np.random.RandomState(key)
            self.state = NEXT(self.state)
            return getattr(priv, name)(*a, **k)

        f.__name__ = name
        return f

    def install(self, patch):
        """Replace the global-state functions of numpy.random (undone by the Patch)."""
        import numpy.random as npr

        patch.attr(npr, "seed", self.seed, "RNG model")
        patch.attr(npr, "get_state", self.get_state, "RNG model")
        patch.attr(npr, "set_state", self.set_state, "RNG model")
        for n in _DRAWS:
            if hasattr(npr, n):
                patch.attr(npr, n, self._draw(n))
        patch.log.append("numpy.random global-state functions -> vx.rngmodel (uninterpreted state machine)")
        return self

    # -- queries
    def depends_on_initial_state(self, term):
        """Does the term mention the initial (arbitrary) generator state?"""
        fresh = z3.Const("rng_state0_other", S)
        return not z3.simplify(z3.substitute(term, (STATE0, fresh))).eq(z3.simplify(term))

    def nexts(self, term, k):
        for _ in range(k):
            term = NEXT(term)
        return term


_CURRENT = None


def current_random():
    raise core.Unsupported("np.random reached through vx.symnp without an installed RNG model")
