"""Check driver: ./check <ID> [--tier quick|thorough] [--replay FILE]

Runs the harness module of one property: every task is explored symbolically in a worker
process, counterexamples are replayed against the unpatched code in a fresh subprocess, known
findings are matched, evidence is written, and the exit code follows the contract in DESIGN.md:

  0  every obligation explored was discharged / is a listed known finding (inconclusive ones are
     counted and named, never merged into 'discharged')
  1  a reproducing counterexample that is not a known finding: prints VIOLATION lines
  3  harness error (a counterexample that does not reproduce, or an exception in the harness)
"""

from __future__ import annotations

import argparse
import fnmatch
import hashlib
import importlib
import inspect
import json
import multiprocessing as mp
import os
import subprocess
import sys
import time
import traceback

ROOT = os.path.dirname(os.path.dirname(os.path.abspath(__file__)))
sys.path.insert(0, ROOT)

HARNESS = {
    "C01": "harness.c01_order",
    "C02": "harness.c02_clock",
    "C03": "harness.c03_result",
    "C04": "harness.c04_seed",
    "C05": "harness.c05_space",
    "C06": "harness.c06_isolation",
    "C08": "harness.c08_keys",
    "C09": "harness.c09_faults",
    "C10": "harness.c10_bounds",
    "C11": "harness.c11_fitness",
    "C12": "harness.c12_config",
    "C13": "harness.c13_buckets",
    "C14": "harness.c14_charge",
    "C15": "harness.c15_conserve",
    "C16": "harness.c16_adc",
    "C17": "harness.c17_split",
    "C18": "harness.c18_saveload",
    "C19": "harness.c19_outputs",
    "C20": "harness.c20_inputs",
}

DEFAULT_CAPS = {
    "quick": {"max_paths": 3000, "max_seconds": 60.0, "solver_timeout_ms": 10000},
    "thorough": {"max_paths": 40000, "max_seconds": 600.0, "solver_timeout_ms": 60000},
}


def _load(pid):
    return importlib.import_module(HARNESS[pid])


def _run_task(args):
    pid, task, tier, seed = args
    t0 = time.time()
    try:
        import vx

        mod = _load(pid)
        kind = task.get("kind", "vx")
        if kind == "direct":
            # non-path-exploring obligations (CrossHair, FP solver batches): the function returns
            # a list of obligation records itself
            fn = getattr(mod, task["fn"])
            res = fn(tier=tier, seed=seed, **task.get("kwargs", {}))
            res.setdefault("paths", 0)
            res.setdefault("queries", 0)
            res.setdefault("solver_time_s", 0.0)
            res.setdefault("exhaustive", True)
            res.setdefault("errors", [])
            res.setdefault("unsupported", [])
            res.setdefault("witnesses", [])
            res.setdefault("assumptions", [])
            res.setdefault("reached", {})
            res.setdefault("fidelity", {"run": 0, "ok": 0, "bad": []})
        else:
            fn = getattr(mod, task["fn"])
            caps = dict(DEFAULT_CAPS[tier])
            caps.update(task.get("caps", {}))
            fid = getattr(mod, "fidelity_" + task["fn"], None)
            on_path = None
            if fid is not None:
                kw = task.get("kwargs", {})
                on_path = lambda w: fid(kw, w)  # noqa: E731
            res = vx.explore(
                lambda: fn(**task.get("kwargs", {})),
                seed=seed,
                on_path=on_path,
                logic=task.get("logic"),
                solver=task.get("solver", "z3"),
                cross_check=task.get("cross_check", tier == "thorough" and os.environ.get("VERIF_NO_CROSS") is None),
                **caps,
            )
        res["label"] = task["label"]
        res["fn"] = task["fn"]
        res["kwargs"] = task.get("kwargs", {})
        res["task_wall_s"] = round(time.time() - t0, 3)
        return res
    except BaseException as e:  # noqa: BLE001
        return {
            "label": task["label"],
            "fn": task["fn"],
            "kwargs": task.get("kwargs", {}),
            "paths": 0,
            "queries": 0,
            "solver_time_s": 0.0,
            "obligations": [],
            "exhaustive": False,
            "errors": ["task crashed: " + "".join(traceback.format_exception(type(e), e, e.__traceback__))[-3000:]],
            "unsupported": [],
            "witnesses": [],
            "assumptions": [],
            "reached": {},
            "fidelity": {"run": 0, "ok": 0, "bad": []},
            "task_wall_s": round(time.time() - t0, 3),
        }


def _hash_functions(names):
    out = []
    for qn in names:
        try:
            modname, _, attr = qn.partition(":")
            m = importlib.import_module(modname)
            obj = m
            for part in attr.split("."):
                obj = getattr(obj, part)
            obj = getattr(obj, "py_func", obj)
            if isinstance(obj, property):
                obj = obj.fget
            src = inspect.getsource(obj)
            out.append({"name": qn, "sha256": hashlib.sha256(src.encode()).hexdigest()[:16], "lines": src.count("\n")})
        except Exception as e:  # noqa: BLE001
            out.append({"name": qn, "error": repr(e)})
    return out


def load_findings():
    p = os.path.join(ROOT, "known_findings.json")
    if not os.path.exists(p):
        return []
    return json.load(open(p)).get("findings", [])


def match_finding(findings, pid, oid, kwargs, model):
    for f in findings:
        if f.get("status") != "open" or f.get("property") != pid:
            continue
        if not fnmatch.fnmatchcase(oid, f.get("obligation", "*")):
            continue
        expr = f.get("when")
        if expr:
            from vx.core import unjson

            env = {"kwargs": kwargs, "model": unjson(model or {}), "oid": oid}
            try:
                if not eval(expr, {"__builtins__": {"len": len, "abs": abs, "min": min, "max": max, "any": any, "all": all, "float": float, "int": int, "str": str}}, env):  # noqa: S307
                    continue
            except Exception:  # noqa: BLE001
                continue
        return f
    return None


REPLAYS_PER_OBLIGATION = 6


def _replay_child(conn, pid, data):
    try:
        import warnings

        warnings.filterwarnings("ignore")
        from vx.core import unjson

        mod = _load(pid)
        ok, detail = mod.replay(data["obligation"], data.get("kwargs", {}), unjson(data.get("model", {})), data)
        conn.send((0 if ok else 4, json.dumps(detail, default=repr)[:1500]))
    except BaseException as e:  # noqa: BLE001
        conn.send((5, "".join(traceback.format_exception(type(e), e, e.__traceback__))[-1500:]))
    finally:
        conn.close()


def _replay_many(pid, datas, jobs):
    """Replay counterexamples against the unpatched code, each in its own forked child."""
    ctx = mp.get_context("fork")
    out = [None] * len(datas)
    running = []
    nxt = 0
    while nxt < len(datas) or running:
        while nxt < len(datas) and len(running) < max(1, jobs):
            pc, cc = ctx.Pipe(duplex=False)
            p = ctx.Process(target=_replay_child, args=(cc, pid, datas[nxt]))
            p.start()
            cc.close()
            running.append((nxt, p, pc, time.time()))
            nxt += 1
        still = []
        for i, p, pc, ts in running:
            if pc.poll(0.01):
                try:
                    out[i] = pc.recv()
                except EOFError:
                    p.join(5)
                    out[i] = (p.exitcode if p.exitcode not in (None, 0) else 5, "child died without a result")
                p.join(5)
            elif not p.is_alive():
                p.join()
                if pc.poll(0.01):
                    try:
                        out[i] = pc.recv()
                    except EOFError:
                        out[i] = (p.exitcode if p.exitcode else 5, "child died without a result")
                else:
                    out[i] = (p.exitcode if p.exitcode else 5, "child died without a result")
            elif time.time() - ts > 300:
                p.kill()
                out[i] = (4, "replay timed out")
            else:
                still.append((i, p, pc, ts))
        running = still
    return out


def do_replay(pid, path):
    data = json.load(open(path))
    mod = _load(pid)
    from vx.core import unjson

    ok, detail = mod.replay(data["obligation"], data.get("kwargs", {}), unjson(data.get("model", {})), data)
    print(json.dumps({"reproduced": bool(ok), "detail": detail}, default=repr))
    return 0 if ok else 4


def main(argv=None):
    ap = argparse.ArgumentParser()
    ap.add_argument("pid")
    ap.add_argument("--tier", default=os.environ.get("VERIF_TIER", "quick"))
    ap.add_argument("--replay")
    ap.add_argument("--jobs", type=int, default=int(os.environ.get("VERIF_JOBS", "16")))
    ap.add_argument("--only", help="fnmatch on task labels (development)")
    ap.add_argument("--no-evidence", action="store_true")
    a = ap.parse_args(argv)
    pid = a.pid.upper()
    tier = a.tier if a.tier in ("quick", "thorough") else "quick"
    seed = int(os.environ.get("VERIF_SEED", "0") or 0)
    if a.replay:
        return do_replay(pid, a.replay)

    t0 = time.time()
    import warnings

    warnings.filterwarnings("ignore")
    import logging

    logging.disable(logging.CRITICAL)  # pyxel logs every exception it re-raises; the harness inspects the exceptions themselves
    import pyxel  # noqa: F401  (import before fork: shared by the workers)

    mod = _load(pid)
    tasks = mod.tasks(tier, seed)
    if a.only:
        tasks = [t for t in tasks if fnmatch.fnmatchcase(t["label"], a.only)]
    ctx = mp.get_context("fork")
    jobs = max(1, min(a.jobs, len(tasks)))
    results = []
    hard = getattr(mod, "HARD_TIMEOUT_S", {"quick": 600, "thorough": 3600})[tier]
    with ctx.Pool(jobs, maxtasksperchild=8) as pool:
        asyncs = [(t, pool.apply_async(_run_task, ((pid, t, tier, seed),))) for t in tasks]
        for t, r in asyncs:
            remaining = max(5.0, hard - (time.time() - t0))
            try:
                results.append(r.get(timeout=remaining))
            except mp.TimeoutError:
                results.append(
                    {
                        "label": t["label"], "fn": t["fn"], "kwargs": t.get("kwargs", {}), "paths": 0, "queries": 0,
                        "solver_time_s": 0.0, "obligations": [], "exhaustive": False,
                        "errors": [], "unsupported": ["hard timeout"], "witnesses": [], "assumptions": [],
                        "reached": {}, "fidelity": {"run": 0, "ok": 0, "bad": []}, "timed_out": True,
                    }
                )
        pool.terminate()

    findings = load_findings()
    replay_dir = os.path.join(ROOT, "replays", pid)
    os.makedirs(replay_dir, exist_ok=True)
    n_obl = n_dis = n_unknown = n_sat = 0
    per_id: dict = {}
    violations, known_hits, nonrepro, errors, unsupported, spurious, sampled = [], [], [], [], [], [], []
    inexhaustive = []
    fidelity_run = fidelity_ok = 0
    fidelity_bad = []
    paths = queries = 0
    solver_time = 0.0
    assumptions: list = []
    samples = []
    replays_done = 0
    seen_cex: dict = {}
    pending = []
    for res in results:
        paths += res["paths"]
        queries += res["queries"]
        solver_time += res["solver_time_s"]
        errors.extend(f"[{res['label']}] {e}" for e in res["errors"])
        unsupported.extend(f"[{res['label']}] {e}" for e in res["unsupported"])
        for note in res.get("sampled", []):
            if f"[{res['label']}] {note}" not in sampled:
                sampled.append(f"[{res['label']}] {note}")
        if not res["exhaustive"]:
            inexhaustive.append({"task": res["label"], "cap": res.get("cap_hit", "unsupported/timeout")})
        f = res["fidelity"]
        fidelity_run += f["run"]
        fidelity_ok += f["ok"]
        fidelity_bad.extend({"task": res["label"], **b} for b in f["bad"][:3])
        for s in res["assumptions"]:
            if s not in assumptions:
                assumptions.append(s)
        if res["witnesses"] and len(samples) < 6:
            w = res["witnesses"][len(res["witnesses"]) // 2]
            samples.append({"task": res["label"], "path": w["path"], "inputs": w["inputs"], "observed": w.get("observed", {})})
        for o in res["obligations"]:
            n_obl += 1
            d = per_id.setdefault(o["id"], {"checked": 0, "unsat": 0, "sat": 0, "unknown": 0})
            d["checked"] += 1
            v = o["verdict"]
            d[v] += 1
            if v == "unsat":
                n_dis += 1
            elif v == "unknown":
                n_unknown += 1
            else:
                n_sat += 1
                key = (o["id"], res["label"])
                seen_cex[key] = seen_cex.get(key, 0) + 1
                if seen_cex[key] > REPLAYS_PER_OBLIGATION:
                    continue
                safe = (o["id"] + "__" + res["label"]).replace("/", "_").replace(" ", "")[:150]
                rp = os.path.join(replay_dir, f"{safe}__{seen_cex[key]}.json")
                data = {"property": pid, "obligation": o["id"], "task": res["label"], "fn": res["fn"], "kwargs": res["kwargs"],
                        "model": o.get("model", {}), "observed": o.get("observed", {}), "info": o.get("info", {})}
                json.dump(data, open(rp, "w"), indent=1, default=repr)
                pending.append((o, res, rp, data))

    for (o, res, rp, data), (rc, out) in zip(pending, _replay_many(pid, [p[3] for p in pending], a.jobs)):
        replays_done += 1
        memory_unsafe = rc < 0  # killed by a signal (numba out-of-bounds write)
        if rc == 0 or memory_unsafe:
            kf = match_finding(findings, pid, o["id"], res["kwargs"], o.get("model", {}))
            rec = {"obligation": o["id"], "task": res["label"], "replay": rp, "model": o.get("model", {}), "replay_output": out[-600:]}
            if kf is not None:
                rec["finding"] = kf.get("what", "")
                known_hits.append(rec)
            else:
                violations.append(rec)
        elif rc != 4:
            errors.append(f"[{res['label']}] replay of {o['id']} crashed rc={rc}: {out[-800:]}")
        elif o.get("abstracted"):
            # the solver's model assigns the uninterpreted exp / log / pow values the real functions do not take: not a counterexample,
            # and not a proof either
            spurious.append({"obligation": o["id"], "task": res["label"], "replay": rp, "output": out[-300:]})
        else:
            nonrepro.append({"obligation": o["id"], "task": res["label"], "replay": rp, "output": out[-800:]})

    for k in known_hits:
        pass
    printed = set()
    for k in known_hits:
        line = f"KNOWN-FINDING: property={pid} {k['obligation']} [{k['task']}] {k['finding']}"
        key = (k["obligation"], k["finding"])
        if key not in printed:
            printed.add(key)
            print(line)
    for v in violations:
        print(f"VIOLATION property={pid} replay={v['replay']}")
        print(f"  obligation={v['obligation']} task={v['task']} model={json.dumps(v['model'])[:400]}")
    for sp in spurious[:10]:
        print(f"INCONCLUSIVE (solver model of the uninterpreted exp/log/pow is not realised by the real functions): {sp['obligation']} [{sp['task']}]")
    for n in nonrepro:
        print(f"HARNESS-ERROR: counterexample for {n['obligation']} [{n['task']}] did not reproduce: {n['output'][-300:]}")
    for e in errors[:10]:
        print("HARNESS-ERROR:", e[-1500:])
    for u in unsupported[:10]:
        print("INCONCLUSIVE (outside the encoding):", u[:600])
    for smp in sampled[:10]:
        print("SAMPLED (not exhaustive on these paths):", smp[:300])
    if fidelity_bad:
        for b in fidelity_bad[:5]:
            print("HARNESS-ERROR: path-witness replay disagrees with the encoding:", b.get("task"), json.dumps(b.get("detail"), default=repr)[:600], "inputs:", json.dumps(b.get("witness", {}).get("inputs"), default=repr)[:300])

    vac = getattr(mod, "REQUIRED_REACH", None)
    vacuous = []
    if vac:
        reached_all: dict = {}
        for res in results:
            for k, v in res["reached"].items():
                reached_all[k] = reached_all.get(k, 0) + v
        for pat in vac(tier) if callable(vac) else vac:
            if not any(fnmatch.fnmatchcase(k, pat) for k in reached_all):
                vacuous.append(pat)
        for v in vacuous:
            print("HARNESS-ERROR: vacuity guard: no path reached an obligation matching", v)

    wall = time.time() - t0
    level = getattr(mod, "LEVEL", "model_checking")
    cov = {
        "states": max(paths, 1),
        "transitions": max(queries, 1),
        "traces_validated_against_impl": fidelity_ok + replays_done,
        "samples": samples or [{"note": "no path witness recorded", "tasks": [r["label"] for r in results][:5]}],
        "obligations": n_obl,
        "discharged": n_dis,
        "inconclusive": n_unknown + len(spurious),
        "counterexamples": n_sat - len(spurious),
        "spurious_under_function_axioms": [{"obligation": x["obligation"], "task": x["task"]} for x in spurious[:50]],
        "known_findings": [{"obligation": k["obligation"], "task": k["task"], "what": k["finding"]} for k in known_hits],
        "violations": [{"obligation": v["obligation"], "task": v["task"], "replay": v["replay"]} for v in violations],
        "per_obligation": per_id,
        "n_tasks": len(results),
        "tasks": [
            {"label": r["label"], "paths": r["paths"], "queries": r["queries"], "solver_time_s": r["solver_time_s"],
             "wall_s": r.get("task_wall_s"), "exhaustive": r["exhaustive"], "aborted_paths": r.get("aborted_paths", 0)}
            for r in (results if len(results) <= 400 else sorted(results, key=lambda r: -(r.get("task_wall_s") or 0))[:400])
        ],
        "exhaustive": not inexhaustive and not unsupported and not errors and not spurious and not n_unknown and not sampled,
        "not_exhaustive": inexhaustive,
        "unsupported": unsupported[:20],
        "sampled_operations": sampled[:50],
        "functions_encoded": _hash_functions(getattr(mod, "FUNCTIONS", [])),
        "bounds": mod.bounds(tier) if hasattr(mod, "bounds") else {},
        "solver": {"engine": "z3 " + _z3v(), "queries": queries, "solver_time_s": round(solver_time, 3)},
        "stubs": getattr(mod, "STUBS", []),
        "outside_claim": getattr(mod, "OUTSIDE", []),
        "fidelity_replays": {"run": fidelity_run, "agree": fidelity_ok},
        "explanation": getattr(mod, "EXPLANATION", ""),
    }
    if level != "model_checking":
        cov["evaluations"] = max(paths + fidelity_run + replays_done, 1)  # one end-to-end concrete run per explored path (+ replays)
        cov["distinct_nontrivial"] = max(getattr(mod, "count_nontrivial", lambda rs: 0)(results), 0)
        cov["rule"] = getattr(mod, "RULE", "")
    ev = {
        "property_id": pid,
        "tier": tier,
        "seed": seed,
        "level": level,
        "coverage": cov,
        "assumptions": assumptions + getattr(mod, "ASSUMPTIONS", []),
        "wall_s": round(wall, 2),
        "violations": len(violations),
    }
    if not a.no_evidence:
        os.makedirs(os.path.join(ROOT, "evidence"), exist_ok=True)
        with open(os.path.join(ROOT, "evidence", f"{pid}.json"), "w") as fh:
            json.dump(ev, fh, indent=1, default=repr)
    print(
        f"{pid} tier={tier}: tasks={len(results)} paths={paths} queries={queries} solver={solver_time:.1f}s "
        f"obligations={n_obl} discharged={n_dis} inconclusive={n_unknown + len(spurious)} cex={n_sat - len(spurious)} known={len(known_hits)} "
        f"violations={len(violations)} fidelity={fidelity_ok}/{fidelity_run} wall={wall:.1f}s"
    )
    if violations:
        return 1
    if nonrepro or errors or fidelity_bad or vacuous:
        return 3
    return 0


def _z3v():
    import z3

    return z3.get_version_string()


if __name__ == "__main__":
    sys.exit(main())
