"""A minimal recording stand-in for xarray.DataArray carrying a SymArray (dims + values only).

Used where the real code only slices (`isel`), iterates over the first dimension, asks for
dimension lengths and converts to numpy; xarray itself is C/pandas code that cannot hold symbolic
values.  Every use is listed as a stub in the evidence of the check that needs it.
"""

from __future__ import annotations

from . import symnp


class DataArray:
    def __init__(self, data=None, dims=None, coords=None, attrs=None, name=None):
        if isinstance(data, DataArray):
            dims = dims or data.dims
            data = data.data
        self.data = symnp.asarray(data)
        if dims is None:
            dims = tuple(f"dim_{i}" for i in range(self.data.ndim))
        if isinstance(dims, str):
            dims = (dims,)
        self.dims = tuple(dims)
        if len(self.dims) != self.data.ndim:
            raise ValueError(f"different number of dimensions on data and dims: {self.data.ndim} vs {len(self.dims)}")
        self.attrs = dict(attrs or {})
        self.name = name
        self.coords = dict(coords or {})

    # numpy interop inside patched modules
    def __vx_array__(self):
        return self.data

    def to_numpy(self):
        return self.data

    @property
    def values(self):
        return self.data

    @property
    def ndim(self):
        return self.data.ndim

    @property
    def shape(self):
        return self.data.shape

    @property
    def dtype(self):
        return self.data.dtype

    @property
    def sizes(self):
        return dict(zip(self.dims, self.data.shape))

    def __len__(self):
        return len(self.data)

    def __getitem__(self, key):
        if isinstance(key, str):
            if key not in self.dims:
                raise KeyError(key)
            return range(self.data.shape[self.dims.index(key)])
        raise TypeError("fake DataArray supports only dimension-name lookup")

    def isel(self, indexers=None, **kw):
        indexers = dict(indexers or {}, **kw)
        for k in indexers:
            if k not in self.dims:
                raise ValueError(f"Dimensions {{{k!r}}} do not exist. Expected one or more of {self.dims}")
        key = tuple(indexers.get(d, slice(None)) for d in self.dims)
        sub = self.data[key]
        dims = tuple(d for d, k in zip(self.dims, key) if isinstance(k, slice))
        if not isinstance(sub, symnp.SymArray):
            sub = symnp.asarray(sub)
        return DataArray(sub, dims=dims, attrs=self.attrs)

    def __iter__(self):
        for i in range(self.data.shape[0]):
            yield DataArray(self.data[i], dims=self.dims[1:], attrs=self.attrs)

    def copy(self, deep=True):
        return DataArray(self.data.copy(), dims=self.dims, attrs=self.attrs, coords=dict(self.coords))

    # -- the little arithmetic the Photon container needs
    def _wrap(self, data):
        return DataArray(data, dims=self.dims, attrs=self.attrs, coords=dict(self.coords))

    def __lt__(self, o):
        return self._wrap(self.data < (o.data if isinstance(o, DataArray) else o))

    def __add__(self, o):
        return self._wrap(self.data + (o.data if isinstance(o, DataArray) else o))

    def __iadd__(self, o):
        if isinstance(o, DataArray) and o.dims != self.dims:
            raise ValueError(f"cannot add arrays with dimensions {o.dims} and {self.dims} in place")
        self.data += (o.data if isinstance(o, DataArray) else o)
        return self

    def transpose(self, *dims):
        """xarray semantics: a NEW array with the dimensions in the requested order (not in place)."""
        dims = tuple(dims) if dims else tuple(reversed(self.dims))
        if set(dims) != set(self.dims):
            raise ValueError(f"{dims} must be a permuted list of {self.dims}")
        axes = [self.dims.index(d) for d in dims]
        return DataArray(symnp.transpose(self.data, axes), dims=dims, attrs=self.attrs, coords=dict(self.coords))

    def clip(self, min=None, max=None):  # noqa: A002
        return self._wrap(symnp.clip(self.data, min, max))

    def astype(self, dtype, **kw):
        return self._wrap(self.data.astype(dtype))

    def equals(self, other):
        return isinstance(other, DataArray) and self.dims == other.dims and symnp.array_equal(self.data, other.data)

    def __deepcopy__(self, memo):
        return self.copy()


def concat(arrays, dim):
    arrays = list(arrays)
    data = symnp.stack([a.data for a in arrays], axis=0)
    return DataArray(data, dims=(dim,) + arrays[0].dims)


class Tree(dict):
    """What the stubbed run_pipeline returns: mapping bucket name -> DataArray."""

    def __contains__(self, k):
        return dict.__contains__(self, k)
