"""Transcendental functions as uninterpreted functions with lazily instantiated, valid axioms.

Every axiom added here is a true fact about the real function, so adding it to the path
condition never excludes an input; it only gives the solver what it needs.
"""

from __future__ import annotations

import math

import z3

from . import core
from .core import Fraction, SymInt, SymReal, Unsupported, _num, axiom, is_sym

R = z3.RealSort()
_exp = core.uf("vx_exp", R, R)
_log10 = core.uf("vx_log10", R, R)
_pow10 = core.uf("vx_pow10", R, R)
_pow = core.uf("vx_pow", R, R, R)
_sqrt = core.uf("vx_sqrt", R, R)
_log = core.uf("vx_log", R, R)


def _real(x):
    t, i = _num(x)
    return z3.ToReal(t) if i else t


def _terms_of(run, f):
    return run.__dict__.setdefault("_uf_terms_" + f.name(), [])


def exp(x):
    if not is_sym(x):
        return math.exp(x)
    a = z3.simplify(_real(x))
    y = _exp(a)
    run = core.current()
    axiom(y > 0)
    axiom(z3.Implies(a <= 0, y <= 1))
    axiom(z3.Implies(a >= 0, y >= 1))
    axiom(z3.Implies(a == 0, y == 1))
    axiom(y >= 1 + a)
    seen = _terms_of(run, _exp)
    for b in seen:
        if not b.eq(a):
            axiom(z3.Implies(a <= b, _exp(a) <= _exp(b)))
            axiom(z3.Implies(b <= a, _exp(b) <= _exp(a)))
            axiom(z3.Implies(a < b, _exp(a) < _exp(b)))
            axiom(z3.Implies(b < a, _exp(b) < _exp(a)))
    if not any(b.eq(a) for b in seen):
        seen.append(a)
    return SymReal(y)


def log10(x):
    if not is_sym(x):
        return math.log10(x)
    a = z3.simplify(_real(x))
    y = _log10(a)
    run = core.current()
    # inverse pair with pow10 (domain a > 0 is the caller's obligation)
    axiom(z3.Implies(a > 0, _pow10(y) == a))
    axiom(z3.Implies(a == 1, y == 0))
    seen = _terms_of(run, _log10)
    for b in seen:
        if not b.eq(a):
            axiom(z3.Implies(z3.And(a > 0, b > 0, a <= b), _log10(a) <= _log10(b)))
            axiom(z3.Implies(z3.And(a > 0, b > 0, b <= a), _log10(b) <= _log10(a)))
    if not any(b.eq(a) for b in seen):
        seen.append(a)
    _register_pow10_arg(run, y)
    return SymReal(y)


def _register_pow10_arg(run, a):
    seen = _terms_of(run, _pow10)
    for b in seen:
        if not b.eq(a):
            axiom(z3.Implies(a <= b, _pow10(a) <= _pow10(b)))
            axiom(z3.Implies(b <= a, _pow10(b) <= _pow10(a)))
            axiom(z3.Implies(a < b, _pow10(a) < _pow10(b)))
            axiom(z3.Implies(b < a, _pow10(b) < _pow10(a)))
    if not any(b.eq(a) for b in seen):
        seen.append(a)


def pow10(x):
    if not is_sym(x):
        return 10.0**x
    a = z3.simplify(_real(x))
    y = _pow10(a)
    run = core.current()
    axiom(y > 0)
    axiom(_log10(y) == a)
    axiom(z3.Implies(a == 0, y == 1))
    _register_pow10_arg(run, a)
    return SymReal(y)


def sqrt(x):
    if not is_sym(x):
        return math.sqrt(x)
    a = z3.simplify(_real(x))
    y = _sqrt(a)
    axiom(z3.Implies(a >= 0, z3.And(y >= 0, y * y == a)))
    return SymReal(y)


def log(x):
    if not is_sym(x):
        return math.log(x)
    a = z3.simplify(_real(x))
    y = _log(a)
    axiom(z3.Implies(a > 0, _exp(y) == a))
    axiom(z3.Implies(a == 1, y == 0))
    axiom(z3.Implies(a > 1, y > 0))
    axiom(z3.Implies(z3.And(a > 0, a < 1), y < 0))
    return SymReal(y)


def power(b, e):
    """b ** e for any mix of concrete and symbolic operands."""
    if not is_sym(b) and not is_sym(e):
        return b**e
    # concrete integer exponent: expand
    if not is_sym(e):
        ev = e
        try:
            import numpy as _np

            if isinstance(ev, _np.generic):
                ev = ev.item()
        except ImportError:  # pragma: no cover
            pass
        if isinstance(ev, bool):
            ev = int(ev)
        if isinstance(ev, float) and ev.is_integer() and abs(ev) <= 16:
            keep_real = True
            ev = int(ev)
        else:
            keep_real = False
        if isinstance(ev, int) and abs(ev) <= 16:
            if ev == 0:
                return 1.0 if (keep_real or not b.is_int) else 1
            r = b
            for _ in range(abs(ev) - 1):
                r = r * b
            if ev < 0:
                r = 1 / r
            elif keep_real and r.is_int:
                r = SymReal(z3.ToReal(r.t))
            return r
        if ev == 0.5:
            return sqrt(b)
    # concrete base 10
    if not is_sym(b) and b == 10:
        return pow10(e)
    if not is_sym(b) and b == 2 and isinstance(e, SymInt):
        # 2**k for symbolic integer k: via pow with positivity
        pass
    bt, et = _real(b), _real(e)
    bt, et = z3.simplify(bt), z3.simplify(et)
    y = _pow(bt, et)
    run = core.current()
    axiom(z3.Implies(bt > 0, y > 0))
    axiom(z3.Implies(et == 0, y == 1))
    axiom(z3.Implies(et == 1, y == bt))
    axiom(z3.Implies(z3.And(bt >= 0, bt <= 1, et >= 0), y <= 1))
    axiom(z3.Implies(z3.And(bt >= 1, et >= 0), y >= 1))
    axiom(z3.Implies(z3.And(bt == 0, et > 0), y == 0))
    seen = _terms_of(run, _pow)
    for b2, e2 in seen:
        if b2.eq(bt) and not e2.eq(et):
            d = z3.simplify(et - e2)
            # b**e = b**(e2) * b**(e-e2) when the difference is the constant +-1
            if z3.is_rational_value(d) or z3.is_int_value(d):
                dv = core._numeral(d)
                if dv == 1:
                    axiom(z3.Implies(bt > 0, _pow(bt, et) == _pow(bt, e2) * bt))
                elif dv == -1:
                    axiom(z3.Implies(bt > 0, _pow(bt, e2) == _pow(bt, et) * bt))
            axiom(z3.Implies(z3.And(bt >= 1, et <= e2), _pow(bt, et) <= _pow(bt, e2)))
            axiom(z3.Implies(z3.And(bt >= 1, e2 <= et), _pow(bt, e2) <= _pow(bt, et)))
            axiom(
                z3.Implies(z3.And(bt > 0, bt <= 1, et <= e2), _pow(bt, et) >= _pow(bt, e2))
            )
            axiom(
                z3.Implies(z3.And(bt > 0, bt <= 1, e2 <= et), _pow(bt, e2) >= _pow(bt, et))
            )
        if e2.eq(et) and not b2.eq(bt):
            axiom(
                z3.Implies(z3.And(et >= 0, bt >= 0, b2 >= 0, bt <= b2), _pow(bt, et) <= _pow(b2, et))
            )
            axiom(
                z3.Implies(z3.And(et >= 0, bt >= 0, b2 >= 0, b2 <= bt), _pow(b2, et) <= _pow(bt, et))
            )
    if not any(b2.eq(bt) and e2.eq(et) for b2, e2 in seen):
        seen.append((bt, et))
    return SymReal(y)
