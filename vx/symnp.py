"""vx.symnp — a pure-Python stand-in for the numpy subset used by the encoded pyxel modules.

``SymArray`` has a concrete shape and dtype and symbolic (or concrete) elements.  Result
shape, result dtype, broadcasting errors and casting errors are *not* re-implemented: every
operation is mirrored on zero-filled real ndarrays ("ghosts") and whatever real numpy decides is
what the stand-in does.  Only element values are computed here.

Storage is a shared flat Python list ``base`` plus an integer index array ``idx`` (shape of the
view), so basic slicing yields views that alias their parent exactly as in numpy.
"""

from __future__ import annotations

import builtins
import math as _math
import operator
import sys
import types

import numpy as _np
import z3

from . import core, funcs
from .core import (
    Fraction,
    Sym,
    SymBool,
    SymInt,
    SymNum,
    SymReal,
    Unsupported,
    is_sym,
    ite,
    to_term,
)

_real_np = _np
_THIS = sys.modules[__name__]


# --------------------------------------------------------------------------------------------
def _ghost_scalar(x):
    if isinstance(x, core.SymFP):
        return 0.0
    if isinstance(x, SymBool):
        return False
    if isinstance(x, SymInt):
        return 0
    if isinstance(x, SymReal):
        return 0.0
    return x


def _is_scalar(x):
    return isinstance(x, (Sym, int, float, bool, complex, Fraction, _np.generic))


NARROW_EVENTS: list = []  # (symbolic integer, narrow float dtype) recorded when an integer is stored in a float32 / float16 array


def _cast_elem(v, dtype):
    """Value semantics of storing v into an array of dtype."""
    k = dtype.kind
    if not is_sym(v):
        if isinstance(v, Fraction):
            if k in "iu":
                return int(v)
            return v
        if k == "b":
            return builtins.bool(v)
        if k in "iu":
            if isinstance(v, (float, _np.floating)):
                if v != v or v in (_math.inf, -_math.inf):
                    raise Unsupported("cast of non-finite float to integer")
                v = int(v)
            v = int(v)
            return _wrap_int_concrete(v, dtype)
        if k == "f":
            if isinstance(v, (bool, _np.bool_)):
                return float(v)
            if isinstance(v, (int, _np.integer)):
                return int(v)  # exact; stays a number
            return float(v)
        return v
    # symbolic
    if isinstance(v, core.SymFP):
        if k in "iu":
            return v.to_int_code(info=str(dtype))
        if k == "b":
            return v != 0
        if k == "f" and dtype.itemsize in (2, 4):
            return v.round_to(8 * dtype.itemsize)  # float32 / float16 storage rounds
        return v
    if k == "b":
        if isinstance(v, SymBool):
            return v
        return v != 0
    if k in "iu":
        if isinstance(v, SymBool):
            v = v._i()
        if not v.is_int:
            v = v.__trunc__()
        return _wrap_int_sym(v, dtype)
    if k == "f":
        if isinstance(v, SymBool):
            v = v._i()
        if dtype.itemsize < 8:
            # a symbolic number stored in a float32 / float16 array: if it is an integer (a code, a count) it is exact only up to
            # the mantissa - side condition for the harness (real arithmetic itself does not round)
            NARROW_EVENTS.append((v, dtype))
        if v.is_int:
            return SymReal(z3.ToReal(v.t))
        return v
    if k == "O":
        return v
    raise Unsupported(f"store of symbolic value into dtype {dtype}")


def _wrap_int_concrete(v, dtype):
    info = _np.iinfo(dtype)
    if info.min <= v <= info.max:
        return v
    m = 1 << (dtype.itemsize * 8)
    v %= m
    if dtype.kind == "i" and v > info.max:
        v -= m
    return v


WRAP_MODEL = {"enabled": False}


def _wrap_int_sym(v, dtype):
    """Fixed-width wrap is only modelled when a harness asks for it (C16)."""
    if not WRAP_MODEL["enabled"]:
        return v
    bits = dtype.itemsize * 8
    m = 1 << bits
    t = v.t % m
    if dtype.kind == "i":
        t = z3.If(t >= (m >> 1), t - m, t)
    return SymInt(t)


class _Flags:
    def __init__(self):
        self.writeable = True


class SymArray:
    __array_ufunc__ = None
    __array_priority__ = 1000

    def __init__(self, base, idx, dtype):
        self.base = base
        self.idx = idx
        self.dtype = _np.dtype(dtype)
        self.flags = _Flags()

    # -- construction helpers
    @classmethod
    def from_elems(cls, elems, shape, dtype):
        elems = list(elems)
        idx = _np.arange(len(elems), dtype=_np.intp).reshape(shape)
        return cls(elems, idx, dtype)

    @property
    def ghost(self):
        return _np.zeros(self.idx.shape, dtype=self.dtype)

    @property
    def shape(self):
        return self.idx.shape

    @property
    def ndim(self):
        return self.idx.ndim

    @property
    def size(self):
        return int(self.idx.size)

    @property
    def nbytes(self):
        return self.size * self.dtype.itemsize

    @property
    def T(self):
        return SymArray(self.base, self.idx.T, self.dtype)

    @property
    def flat(self):
        return iter(self.elems())

    @property
    def real(self):
        return self

    def elems(self):
        b = self.base
        return [b[i] for i in self.idx.ravel().tolist()]

    def is_concrete(self):
        return not any(is_sym(e) for e in self.elems())

    def _vx_eval(self, m):
        vals = [core.evalv(e, m) for e in self.elems()]
        return _nest(vals, self.shape)

    def to_numpy(self):
        if not self.is_concrete():
            raise Unsupported("symbolic array handed to real numpy / C code")
        vals = [float(e) if isinstance(e, Fraction) else e for e in self.elems()]
        return _np.array(vals, dtype=self.dtype).reshape(self.shape)

    def __array__(self, dtype=None, copy=None):
        if self.is_concrete():
            a = self.to_numpy()
            return a if dtype is None else a.astype(dtype)
        # symbolic content handed to a container (pandas): an object array of the symbolic cells
        if dtype is not None and _np.dtype(dtype) != object:
            raise Unsupported("symbolic array handed to real numpy / C code with a numeric dtype")
        out = _np.empty(self.size, dtype=object)
        for i, e in enumerate(self.elems()):
            out[i] = e
        return out.reshape(self.shape)

    def __repr__(self):
        return f"SymArray(shape={self.shape}, dtype={self.dtype}, {self.elems()[:6]}...)"

    def __len__(self):
        if self.ndim == 0:
            raise TypeError("len() of unsized object")
        return self.shape[0]

    def __iter__(self):
        if self.ndim == 0:
            raise TypeError("iteration over a 0-d array")
        for i in range(self.shape[0]):
            yield self[i]

    def __bool__(self):
        if self.size != 1:
            raise ValueError(
                "The truth value of an array with more than one element is ambiguous."
            )
        return builtins.bool(self.elems()[0])

    def __float__(self):
        if self.size != 1:
            raise TypeError("only length-1 arrays can be converted to Python scalars")
        return float(self.elems()[0])

    def __index__(self):
        if self.size != 1 or self.dtype.kind not in "iu":
            raise TypeError("only integer scalar arrays can be converted to a scalar index")
        return core.concretize_int(self.elems()[0])

    __hash__ = None

    def item(self, *a):
        if a:
            return self[a if len(a) > 1 else a[0]]
        if self.size != 1:
            raise ValueError("can only convert an array of size 1 to a Python scalar")
        return self.elems()[0]

    def tolist(self):
        return _nest(self.elems(), self.shape)

    def copy(self, order=None):
        return SymArray.from_elems(self.elems(), self.shape, self.dtype)

    def __copy__(self):
        return self.copy()

    def __deepcopy__(self, memo):
        return self.copy()

    def view(self, *a, **k):
        return SymArray(self.base, self.idx, self.dtype)

    def astype(self, dtype, copy=True, **kw):
        dtype = _np.dtype(dtype)
        self.ghost.astype(dtype)  # numpy's verdict on the cast
        return SymArray.from_elems(
            [_cast_elem(e, dtype) for e in self.elems()], self.shape, dtype
        )

    def flatten(self, order="C"):
        return SymArray.from_elems(self.elems(), (self.size,), self.dtype)

    def ravel(self, order="C"):
        return self.reshape(-1)

    def reshape(self, *shape, **kw):
        if len(shape) == 1 and not isinstance(shape[0], (int, _np.integer)):
            shape = tuple(shape[0])
        new = self.idx.reshape(shape)
        if _np.shares_memory(new, self.idx):
            return SymArray(self.base, new, self.dtype)
        return SymArray.from_elems([self.base[i] for i in new.ravel().tolist()], new.shape, self.dtype)

    def squeeze(self, axis=None):
        return SymArray(self.base, self.idx.squeeze(axis), self.dtype)

    def transpose(self, *axes):
        return SymArray(self.base, self.idx.transpose(*axes), self.dtype)

    def swapaxes(self, a, b):
        return SymArray(self.base, self.idx.swapaxes(a, b), self.dtype)

    def setflags(self, write=None, **kw):
        if write is not None:
            self.flags.writeable = builtins.bool(write)

    def fill(self, v):
        v = _cast_elem(v, self.dtype)
        for i in self.idx.ravel().tolist():
            self.base[i] = v

    # -- indexing
    def _norm_key(self, key):
        """Return ('concrete', key) | ('mask', SymArray) | ('symidx', tuple)."""
        if isinstance(key, SymArray):
            if key.dtype.kind == "b":
                if key.is_concrete():
                    return "concrete", key.to_numpy()
                return "mask", key
            if key.is_concrete():
                return "concrete", key.to_numpy()
            raise Unsupported("symbolic integer array index")
        if isinstance(key, tuple):
            if any(isinstance(k, SymArray) and not k.is_concrete() for k in key):
                raise Unsupported("symbolic array inside an index tuple")
            key = tuple(k.to_numpy() if isinstance(k, SymArray) else k for k in key)
            if any(isinstance(k, SymNum) for k in key):
                return "symidx", key
            return "concrete", key
        if isinstance(key, SymNum):
            return "symidx", (key,)
        if isinstance(key, SymBool):
            raise Unsupported("symbolic boolean scalar index")
        return "concrete", key

    def __getitem__(self, key):
        kind, key = self._norm_key(key)
        if kind == "concrete":
            sub = self.idx[key]
            if isinstance(sub, _np.integer):
                return self.base[int(sub)]
            if _np.shares_memory(sub, self.idx):
                return SymArray(self.base, sub, self.dtype)
            return SymArray.from_elems(
                [self.base[i] for i in sub.ravel().tolist()], sub.shape, self.dtype
            )
        if kind == "mask":
            return MaskedSelection(self, key)
        return self._get_symidx(key)

    def _get_symidx(self, key):
        # every symbolic position must be an integer index on its axis; build an ite chain.
        # Out-of-range is an IndexError in numpy: fork on it.
        key = list(key) + [slice(None)] * (self.ndim - len(key))
        for ax, k in enumerate(key):
            if isinstance(k, SymNum):
                n = self.shape[ax]
                if not k.is_int:
                    raise IndexError("only integers are valid indices")
                if not builtins.bool((k >= -n) & (k < n)):
                    raise IndexError(f"index out of bounds for axis {ax} with size {n}")
                kk = ite(k < 0, k + n, k)
                acc = None
                for j in range(n - 1, -1, -1):
                    key2 = list(key)
                    key2[ax] = j
                    v = self[tuple(key2)]
                    acc = v if acc is None else _ite_any(kk == j, v, acc)
                return acc
        raise AssertionError

    def _refuse_python_int(self, value):
        """numpy >= 2: a Python integer that the integer dtype cannot hold is refused (numpy scalars and arrays wrap instead)."""
        if self.dtype.kind in "iu":
            vals = value if isinstance(value, (list, tuple)) else [value]
            info = _np.iinfo(self.dtype)
            for v in vals:
                if type(v) is int and not (info.min <= v <= info.max):
                    raise OverflowError(f"Python integer {v} out of bounds for {self.dtype}")

    def __setitem__(self, key, value):
        if not self.flags.writeable:
            raise ValueError("assignment destination is read-only")
        self._refuse_python_int(value)
        kind, key = self._norm_key(key)
        if kind == "mask":
            self._set_mask(key, value)
            return
        if kind == "symidx":
            self._set_symidx(key, value)
            return
        tgt = self.idx[key]
        tshape = () if isinstance(tgt, _np.integer) else tgt.shape
        # numpy's verdict on shapes / casting
        g = self.ghost
        g[key] = _ghost_of(value)
        vals = _broadcast_values(value, tshape)
        flat = [int(tgt)] if tshape == () else tgt.ravel().tolist()
        for i, v in zip(flat, vals):
            self.base[i] = _cast_elem(v, self.dtype)

    def _set_mask(self, mask, value):
        if mask.shape != self.shape:
            raise IndexError("boolean index did not match indexed array")
        if isinstance(value, MaskedSelection):
            if value.mask is not mask and not _same_mask(value.mask, mask):
                raise Unsupported("masked assignment from a selection under a different mask")
            vals = value.values()
        else:
            vals = _broadcast_values(value, self.shape) if not _is_scalar(value) else [value] * self.size
        me = mask.elems()
        for i, c, v in zip(self.idx.ravel().tolist(), me, vals):
            self.base[i] = _ite_any(c, _cast_elem(v, self.dtype), self.base[i])

    def _set_symidx(self, key, value, op=None):
        key = list(key) + [slice(None)] * (self.ndim - len(key))
        sym_axes = [ax for ax, k in enumerate(key) if isinstance(k, SymNum)]
        conds = []
        import itertools

        ranges = [range(self.shape[ax]) for ax in sym_axes]
        for ax in sym_axes:
            k = key[ax]
            n = self.shape[ax]
            if not builtins.bool((k >= -n) & (k < n)):
                raise IndexError(f"index out of bounds for axis {ax} with size {n}")
        for combo in itertools.product(*ranges):
            key2 = list(key)
            cs = []
            for ax, j in zip(sym_axes, combo):
                k = key[ax]
                n = self.shape[ax]
                kk = ite(k < 0, k + n, k)
                cs.append(kk == j)
                key2[ax] = j
            c = core.all_of(cs)
            tgt = self.idx[tuple(key2)]
            flat = [int(tgt)] if isinstance(tgt, _np.integer) else tgt.ravel().tolist()
            vals = _broadcast_values(value, () if isinstance(tgt, _np.integer) else tgt.shape)
            for i, v in zip(flat, vals):
                self.base[i] = _ite_any(c, _cast_elem(v, self.dtype), self.base[i])

    # -- arithmetic
    def _binop(self, other, name, reflect=False):
        if isinstance(other, MaskedSelection):
            return NotImplemented
        return _binary(name, other, self) if reflect else _binary(name, self, other)

    def __add__(self, o):
        return self._binop(o, "add")

    def __radd__(self, o):
        return self._binop(o, "add", True)

    def __sub__(self, o):
        return self._binop(o, "subtract")

    def __rsub__(self, o):
        return self._binop(o, "subtract", True)

    def __mul__(self, o):
        return self._binop(o, "multiply")

    def __rmul__(self, o):
        return self._binop(o, "multiply", True)

    def __truediv__(self, o):
        return self._binop(o, "true_divide")

    def __rtruediv__(self, o):
        return self._binop(o, "true_divide", True)

    def __floordiv__(self, o):
        return self._binop(o, "floor_divide")

    def __rfloordiv__(self, o):
        return self._binop(o, "floor_divide", True)

    def __mod__(self, o):
        return self._binop(o, "mod")

    def __pow__(self, o):
        return self._binop(o, "power")

    def __rpow__(self, o):
        return self._binop(o, "power", True)

    def __and__(self, o):
        return self._binop(o, "logical_and_bits")

    __rand__ = __and__

    def __or__(self, o):
        return self._binop(o, "logical_or_bits")

    __ror__ = __or__

    def __xor__(self, o):
        return self._binop(o, "logical_xor_bits")

    def __invert__(self):
        if self.dtype.kind != "b":
            raise Unsupported("~ on a non-boolean symbolic array")
        return SymArray.from_elems([_not(e) for e in self.elems()], self.shape, self.dtype)

    def __neg__(self):
        g = -self.ghost
        return SymArray.from_elems([-e for e in self.elems()], self.shape, g.dtype)

    def __pos__(self):
        return self.copy()

    def __abs__(self):
        return SymArray.from_elems([abs(e) for e in self.elems()], self.shape, self.dtype)

    def __lt__(self, o):
        return self._binop(o, "less")

    def __le__(self, o):
        return self._binop(o, "less_equal")

    def __gt__(self, o):
        return self._binop(o, "greater")

    def __ge__(self, o):
        return self._binop(o, "greater_equal")

    def __eq__(self, o):
        if o is None or isinstance(o, str):
            return False
        return self._binop(o, "equal")

    def __ne__(self, o):
        if o is None or isinstance(o, str):
            return True
        return self._binop(o, "not_equal")

    def _inplace(self, o, name):
        if not self.flags.writeable:
            raise ValueError("output array is read-only")
        if isinstance(o, MaskedSelection):
            raise Unsupported("in-place op with a masked selection")
        ga, gb = self.ghost, _ghost_of(o)
        with _np.errstate(all="ignore"):
            getattr(_np, _NP_NAME.get(name, name))(ga, gb, out=ga)  # casting verdict (UFuncTypeError)
        r = _binary(name, self, o)
        if r.shape != self.shape:
            raise ValueError(
                f"non-broadcastable output operand with shape {self.shape} doesn't match the broadcast shape {r.shape}"
            )
        for i, v in zip(self.idx.ravel().tolist(), r.elems()):
            self.base[i] = _cast_elem(v, self.dtype)
        return self

    def __iadd__(self, o):
        return self._inplace(o, "add")

    def __isub__(self, o):
        return self._inplace(o, "subtract")

    def __imul__(self, o):
        return self._inplace(o, "multiply")

    def __itruediv__(self, o):
        return self._inplace(o, "true_divide")

    def __ifloordiv__(self, o):
        return self._inplace(o, "floor_divide")

    # -- reductions / methods
    def sum(self, axis=None, dtype=None, **kw):
        return _reduce(self, "sum", axis, dtype=dtype)

    def prod(self, axis=None, **kw):
        return _reduce(self, "prod", axis)

    def mean(self, axis=None, **kw):
        return _reduce(self, "mean", axis)

    def min(self, axis=None, **kw):
        return _reduce(self, "min", axis)

    def max(self, axis=None, **kw):
        return _reduce(self, "max", axis)

    def all(self, axis=None, **kw):
        return _reduce(self, "all", axis)

    def any(self, axis=None, **kw):
        return _reduce(self, "any", axis)

    def clip(self, min=None, max=None, out=None, **kw):
        return clip(self, min, max, out=out)

    def round(self, decimals=0, **kw):
        return around(self, decimals)

    def cumsum(self, axis=None, **kw):
        return cumsum(self, axis)

    def argmax(self, *a, **k):
        raise Unsupported("argmax on symbolic array")

    def nonzero(self):
        if self.is_concrete():
            return self.to_numpy().nonzero()
        return where(self)

    def to_xarray(self):  # pragma: no cover - guard
        raise Unsupported("SymArray.to_xarray")


class MaskedSelection:
    """``a[mask]`` under a symbolic mask: usable only in ``b[mask] = a[mask] (op scalar)``."""

    def __init__(self, arr, mask, vals=None):
        self.arr = arr
        self.mask = mask
        self._vals = vals if vals is not None else arr.elems()
        self.dtype = arr.dtype if arr is not None else None

    def values(self):
        return self._vals

    def _conc(self):
        """Python needs the selection itself (len, iteration): fork on every mask element."""
        if getattr(self, "_c", None) is None:
            keep = [v for c, v in zip(self.mask.elems(), self._vals) if builtins.bool(_truthy(c))]
            self._c = SymArray.from_elems(keep, (len(keep),), self.dtype if self.dtype is not None else float)
        return self._c

    def __len__(self):
        return len(self._conc())

    def __iter__(self):
        return iter(self._conc())

    def __getitem__(self, k):
        return self._conc()[k]

    def astype(self, dtype, **kw):
        return self._conc().astype(dtype)

    def __vx_array__(self):
        return self._conc()

    @property
    def shape(self):
        return self._conc().shape

    @property
    def ndim(self):
        return 1

    def _bin(self, o, f):
        if isinstance(o, MaskedSelection):
            if not _same_mask(o.mask, self.mask):
                raise Unsupported("ops between selections under different masks")
            return MaskedSelection(self.arr, self.mask, [f(a, b) for a, b in zip(self._vals, o._vals)])
        if _is_scalar(o):
            return MaskedSelection(self.arr, self.mask, [f(a, o) for a in self._vals])
        raise Unsupported("masked selection op with array")

    def __add__(self, o):
        return self._bin(o, operator.add)

    def __radd__(self, o):
        return self._bin(o, lambda a, b: b + a)

    def __sub__(self, o):
        return self._bin(o, operator.sub)

    def __rsub__(self, o):
        return self._bin(o, lambda a, b: b - a)

    def __mul__(self, o):
        return self._bin(o, operator.mul)

    __rmul__ = __mul__

    def __truediv__(self, o):
        return self._bin(o, operator.truediv)

    def __neg__(self):
        return MaskedSelection(self.arr, self.mask, [-a for a in self._vals])

    def sum(self, *a, **k):
        vals = [ite(c, v, 0) for c, v in zip(self.mask.elems(), self._vals)]
        return _fold(operator.add, vals, 0)

    @property
    def size(self):
        return _fold(operator.add, [ite(c, 1, 0) for c in self.mask.elems()], 0)


def _same_mask(a, b):
    if a is b:
        return True
    if a.shape != b.shape:
        return False
    for x, y in zip(a.elems(), b.elems()):
        if x is y:
            continue
        tx, ty = to_term(x), to_term(y)
        if tx is None or ty is None or not z3.simplify(tx[0]).eq(z3.simplify(ty[0])):
            return False
    return True


# --------------------------------------------------------------------------------------------
def _nest(vals, shape):
    if len(shape) == 0:
        return vals[0]
    if len(shape) == 1:
        return list(vals)
    step = 1
    for s in shape[1:]:
        step *= s
    return [_nest(vals[i * step : (i + 1) * step], shape[1:]) for i in range(shape[0])]


def _ite_any(c, a, b):
    if a is b:
        return a
    if isinstance(c, (bool, _np.bool_)):
        return a if c else b
    return ite(c, a, b)


def _not(e):
    if isinstance(e, SymBool):
        return ~e
    if isinstance(e, SymNum):
        return e == 0
    return not e


def _ghost_of(x):
    if hasattr(x, "__vx_array__"):
        x = x.__vx_array__()
    if isinstance(x, _np.ndarray) and x.dtype == object:
        flat = [_ghost_scalar(e) for e in x.ravel().tolist()]
        return _np.array(flat if flat else [], dtype=None if flat else float).reshape(x.shape)
    if isinstance(x, SymArray):
        return x.ghost
    if isinstance(x, MaskedSelection):
        raise Unsupported("masked selection in a ghost operation")
    if isinstance(x, Sym):
        return _ghost_scalar(x)
    if isinstance(x, (list, tuple)):
        return _np.array(_ghost_nested(x))
    if isinstance(x, Fraction):
        return float(x)
    return x


def _ghost_nested(x):
    if isinstance(x, range):
        return list(x)
    if isinstance(x, (list, tuple)):
        return [_ghost_nested(e) for e in x]
    if isinstance(x, SymArray):
        return x.ghost
    if isinstance(x, Sym):
        return _ghost_scalar(x)
    if isinstance(x, Fraction):
        return float(x)
    return x


def _flatten_nested(x, out):
    if isinstance(x, (list, tuple, range)):
        for e in x:
            _flatten_nested(e, out)
    elif isinstance(x, SymArray):
        out.extend(x.elems())
    elif isinstance(x, _np.ndarray):
        out.extend(x.ravel().tolist())
    else:
        out.append(x)


def _values_and_idx(x):
    """Return (flat values list, idx array) for any array-like or scalar."""
    if hasattr(x, "__vx_array__"):
        x = x.__vx_array__()
    if isinstance(x, SymArray):
        return x.base, x.idx
    if isinstance(x, _np.ndarray):
        return x.ravel().tolist(), _np.arange(x.size, dtype=_np.intp).reshape(x.shape)
    if isinstance(x, (list, tuple)):
        a = asarray(x)
        return a.base, a.idx
    return [x], _np.zeros((), dtype=_np.intp)


def _broadcast_values(value, shape):
    vals, idx = _values_and_idx(value)
    b = _np.broadcast_to(idx, shape)
    return [vals[i] for i in b.ravel().tolist()]


# elementwise kernels ------------------------------------------------------------------------
def _k_truediv(a, b):
    if not is_sym(a) and not is_sym(b):
        with _np.errstate(all="ignore"):
            r = _np.float64(a) / _np.float64(b)
        if r != r or r in (_math.inf, -_math.inf):
            raise ZeroDivisionError("non-finite result of concrete division (outside real arithmetic)")
        return float(r)
    return a / b


def _k_floordiv(a, b):
    if not is_sym(a) and not is_sym(b):
        if b == 0:
            raise ZeroDivisionError("floor_divide by zero (outside real arithmetic)")
        return a // b
    return a // b


def _k_and(a, b):
    if isinstance(a, Sym) or isinstance(b, Sym):
        a = a if isinstance(a, Sym) else builtins.bool(a)
        b = b if isinstance(b, Sym) else builtins.bool(b)
        if isinstance(a, SymNum):
            a = a != 0
        if isinstance(b, SymNum):
            b = b != 0
        return a & b
    return a & b


def _k_or(a, b):
    if isinstance(a, Sym) or isinstance(b, Sym):
        if isinstance(a, SymNum):
            a = a != 0
        if isinstance(b, SymNum):
            b = b != 0
        return a | b
    return a | b


def _k_xor(a, b):
    if isinstance(a, Sym) or isinstance(b, Sym):
        return a ^ b
    return a ^ b


def _k_eq(a, b):
    r = a == b
    return r


def _k_pow(a, b):
    return funcs.power(a, b)


def _k_min(a, b):
    return core.sym_min(a, b)


def _k_max(a, b):
    return core.sym_max(a, b)


def _k_land(a, b):
    return _k_and(_truthy(a), _truthy(b))


def _k_lor(a, b):
    return _k_or(_truthy(a), _truthy(b))


def _truthy(a):
    if isinstance(a, SymBool):
        return a
    if isinstance(a, SymNum):
        return a != 0
    return builtins.bool(a)


def _k_mul(a, b):
    # value * mask: keep the term linear (ite) instead of a symbolic product
    if isinstance(a, SymBool) and not isinstance(b, SymBool):
        return ite(a, b, 0 if not isinstance(b, (float, core.SymReal)) else 0.0)
    if isinstance(b, SymBool) and not isinstance(a, SymBool):
        return ite(b, a, 0 if not isinstance(a, (float, core.SymReal)) else 0.0)
    return a * b


_KERNELS = {
    "add": operator.add,
    "subtract": operator.sub,
    "multiply": _k_mul,
    "true_divide": _k_truediv,
    "floor_divide": _k_floordiv,
    "mod": operator.mod,
    "power": _k_pow,
    "less": operator.lt,
    "less_equal": operator.le,
    "greater": operator.gt,
    "greater_equal": operator.ge,
    "equal": _k_eq,
    "not_equal": operator.ne,
    "logical_and_bits": _k_and,
    "logical_or_bits": _k_or,
    "logical_xor_bits": _k_xor,
    "logical_and": _k_land,
    "logical_or": _k_lor,
    "minimum": _k_min,
    "maximum": _k_max,
}
_NP_NAME = {
    "logical_and_bits": "bitwise_and",
    "logical_or_bits": "bitwise_or",
    "logical_xor_bits": "bitwise_xor",
}


def _binary(name, a, b):
    ga, gb = _ghost_of(a), _ghost_of(b)
    with _np.errstate(all="ignore"):
        gr = getattr(_np, _NP_NAME.get(name, name))(ga, gb)
    gr = _np.asarray(gr)
    va, ia = _values_and_idx(a)
    vb, ib = _values_and_idx(b)
    ja = _np.broadcast_to(ia, gr.shape).ravel().tolist()
    jb = _np.broadcast_to(ib, gr.shape).ravel().tolist()
    k = _KERNELS[name]
    out = [k(va[i], vb[j]) for i, j in zip(ja, jb)]
    dt = gr.dtype
    if dt.kind in "iu" or dt.kind == "b":
        out = [_cast_elem(v, dt) if not (dt.kind == "b") else v for v in out]
    elif dt.kind == "f" and dt.itemsize in (2, 4):
        out = [_cast_elem(v, dt) if isinstance(v, core.SymFP) else v for v in out]  # narrow float results are rounded
    return SymArray.from_elems(out, gr.shape, dt)


def _fold(f, vals, init=None):
    it = iter(vals)
    if init is None:
        acc = next(it)
    else:
        acc = init
    for v in it:
        acc = f(acc, v)
    return acc


def _reduce(a, op, axis=None, dtype=None):
    a = asarray(a)
    g = a.ghost
    with _np.errstate(all="ignore"):
        gop = {"all": "all", "any": "any"}.get(op, op)
        gr = getattr(g, gop)(axis=axis) if dtype is None else getattr(g, gop)(axis=axis, dtype=dtype)
    gr = _np.asarray(gr)
    if axis is None:
        groups = [a.idx.ravel().tolist()]
    else:
        if isinstance(axis, tuple):
            raise Unsupported("reduction over several axes")
        moved = _np.moveaxis(a.idx, axis, -1)
        groups = moved.reshape(-1, moved.shape[-1]).tolist() if moved.size else []
    out = []
    for grp in groups:
        vals = [a.base[i] for i in grp]
        if op == "sum":
            r = _fold(operator.add, vals, 0)
        elif op == "prod":
            r = _fold(operator.mul, vals, 1)
        elif op == "mean":
            r = _fold(operator.add, vals, 0) / len(vals)
        elif op == "min":
            r = _fold(core.sym_min, vals)
        elif op == "max":
            r = _fold(core.sym_max, vals)
        elif op == "all":
            r = core.all_of(vals)
        elif op == "any":
            r = core.any_of(vals)
        else:
            raise Unsupported(op)
        if op in ("sum", "prod") and gr.dtype.kind == "f" and not is_sym(r):
            r = float(r) if not isinstance(r, Fraction) else r
        out.append(r)
    if gr.ndim == 0:
        return out[0]
    return SymArray.from_elems(out, gr.shape, gr.dtype)


# --------------------------------------------------------------------------------------------
# module-level numpy API
class _NdarrayMeta(type):
    def __instancecheck__(cls, obj):
        return isinstance(obj, (SymArray, _np.ndarray))

    def __subclasscheck__(cls, sub):
        return issubclass(sub, (SymArray, _np.ndarray))


class ndarray(metaclass=_NdarrayMeta):
    pass


def array(obj, dtype=None, copy=True, ndmin=0, **kw):
    if hasattr(obj, "__vx_array__"):
        obj = obj.__vx_array__()
    if isinstance(obj, SymArray):
        r = obj.astype(dtype) if dtype is not None else (obj.copy() if copy else obj)
    elif isinstance(obj, MaskedSelection):
        raise Unsupported("np.array of a masked selection")
    else:
        if isinstance(obj, _np.ndarray) and obj.dtype == object:
            g = _np.array(_ghost_of(obj), dtype=dtype)
        else:
            g = _np.array(_ghost_nested(obj), dtype=dtype)
        vals: list = []
        _flatten_nested(obj, vals)
        if len(vals) != g.size:
            raise Unsupported("ragged or unexpected nested sequence in np.array")
        if g.dtype.kind == "O":
            r = SymArray.from_elems(vals, g.shape, g.dtype)
        else:
            r = SymArray.from_elems([_cast_elem(v, g.dtype) for v in vals], g.shape, g.dtype)
    while r.ndim < ndmin:
        r = r.reshape((1,) + r.shape)
    return r


def asarray(obj, dtype=None, **kw):
    if hasattr(obj, "__vx_array__"):
        obj = obj.__vx_array__()
    if isinstance(obj, SymArray) and (dtype is None or _np.dtype(dtype) == obj.dtype):
        return obj
    return array(obj, dtype=dtype)


asanyarray = asarray
ascontiguousarray = asarray


def _filled(shape, v, dtype):
    g = _np.zeros(shape, dtype=dtype)
    return SymArray.from_elems([_cast_elem(v, g.dtype)] * g.size, g.shape, g.dtype)


def zeros(shape, dtype=float, **kw):
    return _filled(shape, 0, dtype)


def ones(shape, dtype=float, **kw):
    return _filled(shape, 1, dtype)


def empty(shape, dtype=float, **kw):
    return _filled(shape, 0, dtype)


def full(shape, fill_value, dtype=None, **kw):
    if dtype is None:
        dtype = _np.asarray(_ghost_of(fill_value)).dtype
    return _filled(shape, fill_value, dtype)


def zeros_like(a, dtype=None, **kw):
    a = asarray(a)
    return _filled(a.shape, 0, dtype or a.dtype)


def ones_like(a, dtype=None, **kw):
    a = asarray(a)
    return _filled(a.shape, 1, dtype or a.dtype)


def full_like(a, fill_value, dtype=None, **kw):
    a = asarray(a)
    return _filled(a.shape, fill_value, dtype or a.dtype)


empty_like = zeros_like


def arange(*a, **k):
    if any(is_sym(x) for x in a):
        a = tuple(core.concretize_int(x) if is_sym(x) else x for x in a)
    return asarray(_np.arange(*a, **k))


def linspace(*a, **k):
    if any(is_sym(x) for x in a):
        raise Unsupported("linspace with symbolic bounds")
    return asarray(_np.linspace(*a, **k))


def copy(a, **k):
    return asarray(a).copy()


def shape(a):
    return asarray(a).shape


def ndim(a):
    return 0 if _is_scalar(a) else asarray(a).ndim


def size(a, axis=None):
    a = asarray(a)
    return a.size if axis is None else a.shape[axis]


def isscalar(x):
    return isinstance(x, Sym) or _np.isscalar(x)


def reshape(a, shape, **k):
    return asarray(a).reshape(shape)


def ravel(a, **k):
    return asarray(a).ravel()


def transpose(a, axes=None):
    a = asarray(a)
    return a.transpose() if axes is None else a.transpose(*axes)


def squeeze(a, axis=None):
    return asarray(a).squeeze(axis)


def expand_dims(a, axis):
    a = asarray(a)
    return SymArray(a.base, _np.expand_dims(a.idx, axis), a.dtype)


def atleast_1d(a):
    a = asarray(a)
    return a if a.ndim >= 1 else a.reshape(1)


def _mk_binary(name):
    def f(a, b, out=None, where=True, **kw):
        r = _binary(name, a, b)
        if out is not None:
            out[...] = r
            return out
        return r if r.ndim or not _is_scalar(a) or not _is_scalar(b) else r.elems()[0]

    f.__name__ = name
    return f


add = _mk_binary("add")
subtract = _mk_binary("subtract")
multiply = _mk_binary("multiply")
divide = true_divide = _mk_binary("true_divide")
floor_divide = _mk_binary("floor_divide")
mod = remainder = _mk_binary("mod")
power = _mk_binary("power")
less = _mk_binary("less")
less_equal = _mk_binary("less_equal")
greater = _mk_binary("greater")
greater_equal = _mk_binary("greater_equal")
equal = _mk_binary("equal")
not_equal = _mk_binary("not_equal")
logical_and = _mk_binary("logical_and")
logical_or = _mk_binary("logical_or")
minimum = fmin = _mk_binary("minimum")
maximum = fmax = _mk_binary("maximum")


def _mk_unary(name, kern, keep_int=False):
    def f(a, out=None, **kw):
        if _is_scalar(a):
            return kern(a)
        a = asarray(a)
        with _np.errstate(all="ignore"):
            g = getattr(_np, name)(a.ghost)
        r = SymArray.from_elems([kern(e) for e in a.elems()], g.shape, g.dtype)
        if out is not None:
            out[...] = r
            return out
        return r

    f.__name__ = name
    return f


def _u_floor(x):
    if isinstance(x, core.SymFP):
        return x.__floor__()
    if is_sym(x):
        f = x.__floor__()
        return f if x.is_int else SymReal(z3.ToReal(f.t))
    return type(x)(_math.floor(x)) if not isinstance(x, Fraction) else Fraction(_math.floor(x))


def _u_ceil(x):
    if isinstance(x, core.SymFP):
        return x.__ceil__()
    if is_sym(x):
        f = x.__ceil__()
        return f if x.is_int else SymReal(z3.ToReal(f.t))
    return type(x)(_math.ceil(x)) if not isinstance(x, Fraction) else Fraction(_math.ceil(x))


def _u_trunc(x):
    if isinstance(x, core.SymFP):
        return x.__trunc__()
    if is_sym(x):
        f = x.__trunc__()
        return f if x.is_int else SymReal(z3.ToReal(f.t))
    return type(x)(_math.trunc(x)) if not isinstance(x, Fraction) else Fraction(_math.trunc(x))


def _u_rint(x):
    if isinstance(x, core.SymFP):
        return x.__round__()
    if is_sym(x):
        if x.is_int:
            return x
        return x.__round__(0)
    return float(round(x))


def _u_sign(x):
    if is_sym(x):
        return ite(x > 0, 1, ite(x < 0, -1, 0))
    return (x > 0) - (x < 0)


def _u_exp(x):
    return funcs.exp(x)


def _u_sqrt(x):
    return funcs.sqrt(x)


def _u_log10(x):
    return funcs.log10(x)


def _u_log(x):
    return funcs.log(x)


def _u_square(x):
    return x * x


absolute = _mk_unary("absolute", abs)
fabs = absolute
negative = _mk_unary("negative", operator.neg)
floor = _mk_unary("floor", _u_floor)
ceil = _mk_unary("ceil", _u_ceil)
trunc = _mk_unary("trunc", _u_trunc)
fix = trunc
rint = _mk_unary("rint", _u_rint)
sign = _mk_unary("sign", _u_sign)
exp = _mk_unary("exp", _u_exp)
sqrt = _mk_unary("sqrt", _u_sqrt)
log10 = _mk_unary("log10", _u_log10)
log = _mk_unary("log", _u_log)
square = _mk_unary("square", _u_square)
logical_not = _mk_unary("logical_not", _not)
isfinite = _mk_unary("isfinite", lambda x: ~(x.isnan() | x.isinf()) if isinstance(x, core.SymFP) else True)
isnan = _mk_unary("isnan", lambda x: x.isnan() if isinstance(x, core.SymFP) else False)
isinf = _mk_unary("isinf", lambda x: x.isinf() if isinstance(x, core.SymFP) else False)

# `abs` is exported under the numpy name as well


def around(a, decimals=0, out=None):
    if decimals != 0:
        raise Unsupported("np.round with decimals != 0")
    return rint(a)


round_ = around


def nan_to_num(a, *args, **kw):
    return asarray(a).copy() if not _is_scalar(a) else a


def np_sum(a, axis=None, dtype=None, **kw):
    return _reduce(a, "sum", axis, dtype=dtype)


nansum = np_sum


def prod(a, axis=None, **kw):
    return _reduce(a, "prod", axis)


def mean(a, axis=None, **kw):
    return _reduce(a, "mean", axis)


nanmean = mean


def amin(a, axis=None, **kw):
    return _reduce(a, "min", axis)


def amax(a, axis=None, **kw):
    return _reduce(a, "max", axis)


nanmin, nanmax = amin, amax


def np_all(a, axis=None, **kw):
    if isinstance(a, (bool, _np.bool_, SymBool)):
        return a
    return _reduce(a, "all", axis)


def np_any(a, axis=None, **kw):
    if isinstance(a, (bool, _np.bool_, SymBool)):
        return a
    return _reduce(a, "any", axis)


def nonzero(a):
    """Indices of the non-zero elements: forks on every symbolic element (like the index form of where)."""
    return where(asarray(a))


def flatnonzero(a):
    return nonzero(asarray(a).reshape(-1))[0]


def argwhere(a):
    return _np.stack(nonzero(a), axis=-1) if asarray(a).ndim else _np.zeros((0, 0), dtype=int)


def count_nonzero(a, axis=None, **kw):
    a = asarray(a)
    if a.is_concrete():
        return _np.count_nonzero(a.to_numpy(), axis=axis)
    if axis is not None:
        raise Unsupported("count_nonzero along an axis of a symbolic array")
    return builtins.sum(1 for e in a.elems() if builtins.bool(_truthy(e)))


def where(c, a=None, b=None):
    if a is None:
        c = asarray(c)
        if c.is_concrete():
            return _np.where(c.to_numpy())
        # index form with a symbolic condition: fork on every element (2**size concrete masks at most)
        mask = _np.array([builtins.bool(_truthy(e)) for e in c.elems()], dtype=bool).reshape(c.shape)
        return _np.where(mask)
    gc, ga, gb = _ghost_of(c), _ghost_of(a), _ghost_of(b)
    gr = _np.where(gc, ga, gb)
    vc, ic = _values_and_idx(c)
    va, ia = _values_and_idx(a)
    vb, ib = _values_and_idx(b)
    jc = _np.broadcast_to(ic, gr.shape).ravel().tolist()
    ja = _np.broadcast_to(ia, gr.shape).ravel().tolist()
    jb = _np.broadcast_to(ib, gr.shape).ravel().tolist()
    out = [_ite_any(_truthy(vc[i]), va[j], vb[k]) for i, j, k in zip(jc, ja, jb)]
    return SymArray.from_elems(out, gr.shape, gr.dtype)


def clip(a, a_min=None, a_max=None, out=None, **kw):
    if "min" in kw:
        a_min = kw.pop("min")
    if "max" in kw:
        a_max = kw.pop("max")
    scalar = _is_scalar(a)
    r = a
    if a_min is not None:
        r = maximum(r, a_min)
    if a_max is not None:
        r = minimum(r, a_max)
    if out is not None:
        out[...] = r
        return out
    return r


def diff(a, n=1, axis=-1, **kw):
    a = asarray(a)
    if n != 1:
        raise Unsupported("np.diff n != 1")
    if a.ndim == 0:
        raise ValueError("diff requires input that is at least one dimensional")
    sl1 = [slice(None)] * a.ndim
    sl2 = [slice(None)] * a.ndim
    sl1[axis] = slice(1, None)
    sl2[axis] = slice(None, -1)
    return a[tuple(sl1)] - a[tuple(sl2)]


def concatenate(arrs, axis=0, **kw):
    arrs = [asarray(x) for x in arrs]
    g = _np.concatenate([x.ghost for x in arrs], axis=axis)
    # build with index bookkeeping: tag every element by (array number, flat position)
    offs, allvals = [], []
    tagged = []
    o = 0
    for x in arrs:
        v = x.elems()
        tagged.append((_np.arange(len(v), dtype=_np.intp).reshape(x.shape) + o))
        allvals.extend(v)
        o += len(v)
    ii = _np.concatenate(tagged, axis=axis)
    return SymArray.from_elems(
        [_cast_elem(allvals[i], g.dtype) for i in ii.ravel().tolist()], g.shape, g.dtype
    )


def stack(arrs, axis=0, **kw):
    arrs = [expand_dims(asarray(x), axis) for x in arrs]
    return concatenate(arrs, axis=axis)


def vstack(arrs):
    return concatenate([atleast_2d(x) for x in arrs], axis=0)


def hstack(arrs):
    arrs = [atleast_1d(x) for x in arrs]
    return concatenate(arrs, axis=0 if arrs[0].ndim == 1 else 1)


def atleast_2d(a):
    a = asarray(a)
    while a.ndim < 2:
        a = a.reshape((1,) + a.shape)
    return a


def _via_index(a, f):
    a = asarray(a)
    ii = f(a.idx)
    return SymArray.from_elems([a.base[i] for i in ii.ravel().tolist()], ii.shape, a.dtype)


def repeat(a, repeats, axis=None):
    return _via_index(a, lambda i: _np.repeat(i, repeats, axis=axis))


def tile(a, reps):
    return _via_index(a, lambda i: _np.tile(i, reps))


def flip(a, axis=None):
    return _via_index(a, lambda i: _np.flip(i, axis=axis))


def roll(a, shift, axis=None):
    return _via_index(a, lambda i: _np.roll(i, shift, axis=axis))


def moveaxis(a, s, d):
    a = asarray(a)
    return SymArray(a.base, _np.moveaxis(a.idx, s, d), a.dtype)


def pad(a, pad_width, mode="constant", constant_values=0, **kw):
    a = asarray(a)
    if mode != "constant":
        raise Unsupported("np.pad mode " + mode)
    ii = _np.pad(a.idx + 1, pad_width, mode="constant", constant_values=0)
    cv = _cast_elem(constant_values, a.dtype)
    vals = [cv if i == 0 else a.base[i - 1] for i in ii.ravel().tolist()]
    # note: a.idx may be a view; map through base directly
    return SymArray.from_elems(vals, ii.shape, a.dtype)


def cumsum(a, axis=None, **kw):
    a = asarray(a)
    if axis is None:
        a = a.flatten()
        axis = 0
    g = _np.cumsum(a.ghost, axis=axis)
    moved = _np.moveaxis(a.idx, axis, -1)
    out_idx = _np.moveaxis(_np.arange(a.size, dtype=_np.intp).reshape(a.shape), axis, -1)
    res = [None] * a.size
    for row, orow in zip(moved.reshape(-1, moved.shape[-1]).tolist(), out_idx.reshape(-1, moved.shape[-1]).tolist()):
        acc = 0
        for i, o in zip(row, orow):
            acc = acc + a.base[i]
            res[o] = acc
    return SymArray.from_elems(res, g.shape, g.dtype)


def array_equal(a, b, **kw):
    try:
        a, b = asarray(a), asarray(b)
    except Exception:  # noqa: BLE001
        return False
    if a.shape != b.shape:
        return False
    return builtins.bool(core.all_of([x == y for x, y in zip(a.elems(), b.elems())]))


def allclose(a, b, **kw):
    return array_equal(a, b)


def dot(a, b):
    a, b = asarray(a), asarray(b)
    if a.ndim == 1 and b.ndim == 1:
        return np_sum(a * b)
    raise Unsupported("np.dot beyond 1-D")


def outer(a, b):
    a, b = asarray(a).ravel(), asarray(b).ravel()
    return a.reshape(-1, 1) * b.reshape(1, -1)


def meshgrid(*xs, **kw):
    if builtins.all(not isinstance(x, SymArray) or x.is_concrete() for x in xs):
        return [asarray(m) for m in _np.meshgrid(*[_np.asarray(x) for x in xs], **kw)]
    raise Unsupported("meshgrid of symbolic arrays")


def intersect1d(a, b, **kw):
    """Sorted unique common values.  A symbolic ``a`` against a concrete ``b`` forks on membership of
    every element (finitely many overlap configurations); common values are taken from ``b``."""
    a, b = asarray(a), asarray(b)
    if a.is_concrete() and b.is_concrete():
        return asarray(_np.intersect1d(a.to_numpy(), b.to_numpy()))
    if not b.is_concrete():
        a, b = b, a
    if not b.is_concrete():
        raise Unsupported("intersect1d of two symbolic arrays")
    bv = b.elems()
    common = set()
    for e in a.elems():
        for v in bv:
            if builtins.bool(e == v):
                common.add(v)
                break
    r = _np.array(sorted(common), dtype=_np.result_type(a.dtype, b.dtype))
    return asarray(r)


def sort(a, axis=-1, **kw):
    """Ascending sort along an axis.  Symbolic lanes are sorted by insertion with forking comparisons (each explored path fixes one
    ordering of the lane), so lanes must be short; NaN ordering is outside (real arithmetic)."""
    a = asarray(a)
    if a.is_concrete():
        return asarray(_np.sort(a.to_numpy(), axis=axis))
    if axis is None:
        a, axis = a.reshape(-1), 0
    axis = axis % a.ndim
    if a.shape[axis] > 4:
        raise Unsupported("numpy.sort of a symbolic lane longer than 4")
    idx = _np.arange(a.size).reshape(a.shape)
    lanes = _np.moveaxis(idx, axis, -1).reshape(-1, a.shape[axis])
    flat = a.elems()
    out = list(flat)
    for lane in lanes.tolist():
        vals = []
        for i in lane:
            v, k = flat[i], len(vals)
            while k > 0 and builtins.bool(v < vals[k - 1]):
                k -= 1
            vals.insert(k, v)
        for i, v in zip(lane, vals):
            out[i] = v
    return SymArray.from_elems(out, a.shape, a.dtype)


def may_share_memory(a, b):
    return isinstance(a, SymArray) and isinstance(b, SymArray) and a.base is b.base


shares_memory = may_share_memory


class _ErrState:
    def __init__(self, **kw):
        pass

    def __enter__(self):
        return self

    def __exit__(self, *a):
        return False


errstate = _ErrState


def _passthrough(name):
    obj = getattr(_np, name)
    if isinstance(obj, type) or not callable(obj) or isinstance(obj, types.ModuleType):
        return obj

    def guarded(*a, **k):
        def symbolic(x):
            if isinstance(x, (Sym, MaskedSelection)):
                return True
            if isinstance(x, SymArray):
                return not x.is_concrete()
            if isinstance(x, (list, tuple)):
                return builtins.any(symbolic(e) for e in x)
            return False

        if builtins.any(symbolic(x) for x in a) or builtins.any(symbolic(x) for x in k.values()):
            # concolic fallback: the function is not encoded; run the real one on ONE sampled value per symbolic input (the path is
            # marked non-exhaustive and reported as such) instead of giving the whole path up
            why = f"numpy.{name}"

            def sample(x):
                if isinstance(x, MaskedSelection):
                    raise Unsupported(f"numpy.{name} on a masked selection is outside the stand-in")
                if isinstance(x, SymArray):
                    if x.is_concrete():
                        return x.to_numpy()
                    vals = [core.sample_value(e, why) for e in x.elems()]
                    return _np.array(vals, dtype=x.dtype if x.dtype.kind != "O" else float).reshape(x.shape)
                if isinstance(x, Sym):
                    return core.sample_value(x, why)
                if isinstance(x, (list, tuple)):
                    return type(x)(sample(e) for e in x)
                return x

            a = [sample(x) for x in a]
            k = {kk: sample(x) for kk, x in k.items()}
        a = [x.to_numpy() if isinstance(x, SymArray) else x for x in a]
        k = {kk: (x.to_numpy() if isinstance(x, SymArray) else x) for kk, x in k.items()}
        r = obj(*a, **k)
        if isinstance(r, _np.ndarray):
            return asarray(r)
        return r

    guarded.__name__ = name
    return guarded


_SHADOWED = {
    "sum": np_sum,
    "all": np_all,
    "any": np_any,
    "abs": absolute,
    "round": around,
    "min": amin,
    "max": amax,
}


def __getattr__(name):
    if name.startswith("__"):
        raise AttributeError(name)
    if name in _SHADOWED:
        return _SHADOWED[name]
    if name == "random":
        from . import rngmodel

        return rngmodel.current_random()
    return _passthrough(name)


def with_random(random_obj):
    """A view of this stand-in whose ``random`` attribute is the given object."""
    shim = types.ModuleType("vx_symnp_with_random")

    def _ga(name):
        if name == "random":
            return random_obj
        return getattr(_THIS, name)

    shim.__getattr__ = _ga  # type: ignore[attr-defined]
    return shim
