"""vx.core — operator-overloading symbolic executor with DFS path re-execution over z3.

The only decision point is ``SymBool.__bool__``.  ``explore(fn)`` re-executes ``fn`` with a
decision prefix until every feasible path has been run or a stated cap is hit.  Obligations are
posted with ``prove(id, claim)``; each one is decided by ``check(pc AND NOT claim)``.

Engine signals derive from BaseException so that ``except Exception`` in the code under test
cannot swallow them.
"""

from __future__ import annotations

import fractions
import math
import numbers
import time
from typing import Any, Callable

import z3

Fraction = fractions.Fraction


# --------------------------------------------------------------------------------------------
# signals
class VxSignal(BaseException):
    """Base class of engine control-flow signals."""


class PathAbort(VxSignal):
    """The current path is infeasible under an assumption (vacuous) and is dropped."""


class Unsupported(VxSignal):
    """The code reached an operation the stand-in cannot encode: result 'not decided'."""


class BudgetExceeded(VxSignal):
    """A path / time cap was hit; the exploration is not exhaustive."""


# --------------------------------------------------------------------------------------------
_CURRENT: "Run | None" = None


def current() -> "Run":
    if _CURRENT is None:
        raise RuntimeError("no symbolic run is active")
    return _CURRENT


def active() -> bool:
    return _CURRENT is not None


class Run:
    """State of one path execution."""

    def __init__(self, prefix, shared):
        self.prefix = prefix  # list[(bool, bool open_sibling)]
        self.shared = shared  # Exploration (stats, caps)
        self.solver = shared.new_solver()
        self.pc: list = []
        self.decisions: list = []
        self.inputs: dict[str, Any] = {}
        self.observed: dict[str, Any] = {}
        self.notes: list = []
        self.obligations: list = []
        self.reached: dict[str, int] = {}
        self.axioms_seen: set = set()
        self.assumptions: list[str] = []
        self.inexact: list[str] = []

    # -- solver plumbing
    def _check(self, *extra):
        sh = self.shared
        t0 = time.perf_counter()
        r = self.solver.check(*extra)
        dt = time.perf_counter() - t0
        sh.queries += 1
        sh.solver_time += dt
        return r

    def add(self, term):
        self.pc.append(term)
        self.solver.add(term)

    def branch(self, term) -> bool:
        term = z3.simplify(term)
        if z3.is_true(term):
            return True
        if z3.is_false(term):
            return False
        i = len(self.decisions)
        if i < len(self.prefix):
            val, opened = self.prefix[i]
            self.decisions.append((val, opened))
            self.add(term if val else z3.Not(term))
            return val
        self.shared.check_budget()
        rt = self._check(term)
        rf = self._check(z3.Not(term))
        can_t = rt != z3.unsat
        can_f = rf != z3.unsat
        if rt == z3.unknown or rf == z3.unknown:
            self.shared.unknown_branches += 1
        if not can_t and not can_f:
            raise PathAbort("path condition became infeasible")
        if can_t and can_f:
            val, opened = True, True
        elif can_t:
            val, opened = True, False
        else:
            val, opened = False, False
        self.decisions.append((val, opened))
        self.add(term if val else z3.Not(term))
        return val

    def implied(self, term) -> bool:
        """True iff pc entails term."""
        term = z3.simplify(term)
        if z3.is_true(term):
            return True
        if z3.is_false(term):
            return False
        return self._check(z3.Not(term)) == z3.unsat

    def model(self):
        r = self._check()
        if r != z3.sat:
            return None
        return self.solver.model()


class Exploration:
    def __init__(self, max_paths, max_seconds, solver_timeout_ms, seed, logic=None):
        self.max_paths = max_paths
        self.max_seconds = max_seconds
        self.solver_timeout_ms = solver_timeout_ms
        self.seed = seed
        self.logic = logic
        self.queries = 0
        self.solver_time = 0.0
        self.unknown_branches = 0
        self.t0 = time.perf_counter()
        self.paths = 0
        self.solver = "z3"
        self.cross_check = False
        self.cvc5_queries = 0
        self.cross_agree = 0
        self.cross_disagree: list = []

    def new_solver(self):
        s = z3.Solver() if self.logic is None else z3.SolverFor(self.logic)
        s.set("timeout", int(self.solver_timeout_ms))
        try:
            s.set("random_seed", int(self.seed) & 0x7FFFFFFF)
        except z3.Z3Exception:
            pass
        return s

    def check_budget(self):
        if time.perf_counter() - self.t0 > self.max_seconds:
            raise BudgetExceeded("time cap")


# --------------------------------------------------------------------------------------------
# symbolic values
class Sym:
    __slots__ = ()


def is_sym(x) -> bool:
    return isinstance(x, Sym)


def _frac_term(x) -> z3.ArithRef:
    if isinstance(x, Fraction):
        if x.denominator == 1:
            return z3.RealVal(x.numerator)
        return z3.RealVal(f"{x.numerator}/{x.denominator}")
    raise TypeError(x)


def _float_frac(x: float) -> Fraction:
    if x != x or x in (math.inf, -math.inf):
        raise Unsupported(f"non-finite float {x!r} in real arithmetic")
    return Fraction(repr(float(x)))


def to_term(x):
    """Return (z3 term, kind) with kind in {'bool','int','real'}; None if not a scalar."""
    if isinstance(x, SymBool):
        return x.t, "bool"
    if isinstance(x, SymNum):
        return x.t, ("int" if x.is_int else "real")
    if isinstance(x, SymFP):
        return x.t, "fp"
    if isinstance(x, (bool,)):
        return z3.BoolVal(x), "bool"
    tn = type(x).__module__
    if tn == "numpy":
        import numpy as _np

        if isinstance(x, _np.bool_):
            return z3.BoolVal(bool(x)), "bool"
        if isinstance(x, _np.integer):
            return z3.IntVal(int(x)), "int"
        if isinstance(x, _np.floating):
            return _frac_term(_float_frac(float(x))), "real"
        return None
    if isinstance(x, int):
        return z3.IntVal(x), "int"
    if isinstance(x, float):
        return _frac_term(_float_frac(x)), "real"
    if isinstance(x, Fraction):
        return _frac_term(x), "real"
    return None


def _num(x):
    """Coerce to (arith term, is_int) or None."""
    r = to_term(x)
    if r is None:
        return None
    t, k = r
    if k == "bool":
        return z3.If(t, z3.IntVal(1), z3.IntVal(0)), True
    return t, k == "int"


def _unify(a, ai, b, bi):
    if ai and not bi:
        a = z3.ToReal(a)
    elif bi and not ai:
        b = z3.ToReal(b)
    return a, b, (ai and bi)


def _mk(t, is_int):
    return SymInt(t) if is_int else SymReal(t)


def wrap(t, kind):
    if kind == "bool":
        return SymBool(t)
    return _mk(t, kind == "int")


class SymBool(Sym):
    __slots__ = ("t",)

    def __init__(self, t):
        self.t = t

    def __bool__(self):
        return current().branch(self.t)

    def __hash__(self):
        return id(self)

    def __repr__(self):
        return f"SymBool({z3.simplify(self.t)})"

    def _b(self, o):
        r = to_term(o)
        if r is None:
            return None
        t, k = r
        if k == "bool":
            return t
        return t != 0

    def __and__(self, o):
        b = self._b(o)
        return NotImplemented if b is None else SymBool(z3.And(self.t, b))

    __rand__ = __and__

    def __or__(self, o):
        b = self._b(o)
        return NotImplemented if b is None else SymBool(z3.Or(self.t, b))

    __ror__ = __or__

    def __xor__(self, o):
        b = self._b(o)
        return NotImplemented if b is None else SymBool(z3.Xor(self.t, b))

    __rxor__ = __xor__

    def __invert__(self):
        return SymBool(z3.Not(self.t))

    def __eq__(self, o):
        b = self._b(o)
        return False if b is None else SymBool(self.t == b)

    def __ne__(self, o):
        b = self._b(o)
        return True if b is None else SymBool(self.t != b)

    # arithmetic on booleans goes through the integer view
    def _i(self):
        return SymInt(z3.If(self.t, z3.IntVal(1), z3.IntVal(0)))

    def __add__(self, o):
        return self._i() + o

    __radd__ = __add__

    def __mul__(self, o):
        return self._i() * o

    __rmul__ = __mul__

    def __sub__(self, o):
        return self._i() - o

    def __rsub__(self, o):
        return o - self._i()

    def __index__(self):
        return 1 if bool(self) else 0


class SymNum(Sym):
    __slots__ = ("t",)
    is_int = False

    def __init__(self, t):
        self.t = t

    def __hash__(self):
        return id(self)

    def __repr__(self):
        return f"{type(self).__name__}({z3.simplify(self.t)})"

    # -- arithmetic
    def _bin(self, o, f, reflect=False):
        r = _num(o)
        if r is None:
            return NotImplemented
        b, bi = r
        a, ai = self.t, self.is_int
        if reflect:
            a, ai, b, bi = b, bi, a, ai
        return f(a, ai, b, bi)

    @staticmethod
    def _add(a, ai, b, bi):
        a, b, i = _unify(a, ai, b, bi)
        return _mk(a + b, i)

    @staticmethod
    def _sub(a, ai, b, bi):
        a, b, i = _unify(a, ai, b, bi)
        return _mk(a - b, i)

    @staticmethod
    def _mul(a, ai, b, bi):
        a, b, i = _unify(a, ai, b, bi)
        return _mk(a * b, i)

    @staticmethod
    def _truediv(a, ai, b, bi):
        if ai:
            a = z3.ToReal(a)
        if bi:
            b = z3.ToReal(b)
        _guard_div(b)
        return SymReal(a / b)

    @staticmethod
    def _floordiv(a, ai, b, bi):
        _guard_div(b)
        if ai and bi:
            return SymInt(z3.If(b > 0, a / b, (-a) / (-b)))
        a, b, _ = _unify(a, ai, b, bi)
        return SymReal(z3.ToReal(z3.ToInt(a / b)))

    @staticmethod
    def _mod(a, ai, b, bi):
        _guard_div(b)
        if ai and bi:
            q = z3.If(b > 0, a / b, (-a) / (-b))
            return SymInt(a - b * q)
        a, b, _ = _unify(a, ai, b, bi)
        return SymReal(a - b * z3.ToReal(z3.ToInt(a / b)))

    def __add__(self, o):
        return self._bin(o, self._add)

    def __radd__(self, o):
        return self._bin(o, self._add, True)

    def __sub__(self, o):
        return self._bin(o, self._sub)

    def __rsub__(self, o):
        return self._bin(o, self._sub, True)

    def __mul__(self, o):
        return self._bin(o, self._mul)

    def __rmul__(self, o):
        return self._bin(o, self._mul, True)

    def __truediv__(self, o):
        return self._bin(o, self._truediv)

    def __rtruediv__(self, o):
        return self._bin(o, self._truediv, True)

    def __floordiv__(self, o):
        return self._bin(o, self._floordiv)

    def __rfloordiv__(self, o):
        return self._bin(o, self._floordiv, True)

    def __mod__(self, o):
        return self._bin(o, self._mod)

    def __rmod__(self, o):
        return self._bin(o, self._mod, True)

    def __divmod__(self, o):
        return self // o, self % o

    def __neg__(self):
        return _mk(-self.t, self.is_int)

    def __pos__(self):
        return self

    def __abs__(self):
        return _mk(z3.If(self.t >= 0, self.t, -self.t), self.is_int)

    def __pow__(self, o, mod=None):
        from . import funcs

        return funcs.power(self, o)

    def __rpow__(self, o):
        from . import funcs

        return funcs.power(o, self)

    # -- comparisons
    def _cmp(self, o, f):
        r = _num(o)
        if r is None:
            return NotImplemented
        b, bi = r
        a, b, _ = _unify(self.t, self.is_int, b, bi)
        return SymBool(f(a, b))

    def __lt__(self, o):
        return self._cmp(o, lambda a, b: a < b)

    def __le__(self, o):
        return self._cmp(o, lambda a, b: a <= b)

    def __gt__(self, o):
        return self._cmp(o, lambda a, b: a > b)

    def __ge__(self, o):
        return self._cmp(o, lambda a, b: a >= b)

    def __eq__(self, o):
        r = self._cmp(o, lambda a, b: a == b)
        return False if r is NotImplemented else r

    def __ne__(self, o):
        r = self._cmp(o, lambda a, b: a != b)
        return True if r is NotImplemented else r

    def __bool__(self):
        return current().branch(self.t != 0)

    # -- conversions
    def __floor__(self):
        return self if self.is_int else SymInt(z3.ToInt(self.t))

    def __ceil__(self):
        return self if self.is_int else SymInt(-z3.ToInt(-self.t))

    def __trunc__(self):
        if self.is_int:
            return self
        return SymInt(z3.If(self.t >= 0, z3.ToInt(self.t), -z3.ToInt(-self.t)))

    def __round__(self, nd=None):
        if self.is_int:
            return self
        if nd is not None and concretize_int(nd) != 0:
            raise Unsupported("round(x, ndigits != 0) on a symbolic real")
        # round-half-even
        f = z3.ToInt(self.t)
        d = self.t - z3.ToReal(f)
        even = f % 2 == 0
        r = z3.If(d < 0.5, f, z3.If(d > 0.5, f + 1, z3.If(even, f, f + 1)))
        return SymInt(r) if nd is None else SymReal(z3.ToReal(r))

    def __index__(self):
        if not self.is_int:
            raise TypeError("symbolic real cannot be interpreted as an integer")
        return concretize_int(self)

    def __int__(self):
        return concretize_int(self.__trunc__())

    def __float__(self):
        v = implied_value(self)
        if v is None:
            # C-level conversion (float(x), math.*, formatting): concolic fallback, one sampled value, path marked non-exhaustive
            v = sample_value(self, "float() of a symbolic value")
        return float(v)

    @property
    def real(self):
        return self

    @property
    def imag(self):
        return 0

    def is_integer(self):
        if self.is_int:
            return True
        return SymBool(z3.ToReal(z3.ToInt(self.t)) == self.t)

    def item(self):
        return self

    @property
    def ndim(self):
        return 0

    @property
    def shape(self):
        return ()


class SymInt(SymNum):
    __slots__ = ()
    is_int = True

    def __and__(self, o):
        raise Unsupported("bitwise & on symbolic int")

    def __lshift__(self, o):
        n = concretize_int(o)
        return self * (2**n)

    def __rlshift__(self, o):
        from . import funcs

        return o * funcs.power(2, self)


class SymReal(SymNum):
    __slots__ = ()
    is_int = False



# --------------------------------------------------------------------------------------------
# IEEE-754 values (used only where rounding is the property: C16)
F64 = z3.Float64()
WIDE = z3.FPSort(11, 72)  # holds every integer up to 2**71 exactly; target sort of integer casts
_RNE = z3.RNE()
_RTZ = z3.RTZ()
FP_EVENTS: list = []  # (kind, term, info) recorded by casts; reset by the harness


def _fpval(x, sort):
    """Python number -> FP numeral in `sort`, correctly rounded (what numpy/C do for a double)."""
    if isinstance(x, bool):
        x = int(x)
    if isinstance(x, int):
        if sort == F64:
            return z3.FPVal(float(x), sort)  # int -> double is correctly rounded in CPython
        return z3.FPVal(str(x), sort)
    if isinstance(x, Fraction):
        return z3.fpToFP(_RNE, _frac_term(x), sort)
    x = float(x)
    if x != x:
        return z3.fpNaN(sort)
    if x == math.inf:
        return z3.fpPlusInfinity(sort)
    if x == -math.inf:
        return z3.fpMinusInfinity(sort)
    if sort == F64:
        return z3.FPVal(x, sort)
    return z3.fpToFP(_RNE, z3.FPVal(x, F64), sort)


class SymFP(Sym):
    """A floating-point value: z3 FP term of sort Float64 (data) or WIDE (integer codes)."""

    __slots__ = ("t", "code")

    def __init__(self, t, code=False):
        self.t = t
        self.code = code  # True: an exact integer produced by a float -> integer dtype cast

    def __hash__(self):
        return id(self)

    def __repr__(self):
        return f"SymFP({z3.simplify(self.t)})"

    def _widen(self):
        return self.t if self.t.sort() == WIDE else z3.fpToFP(_RNE, self.t, WIDE)

    @property
    def sort(self):
        return self.t.sort()

    def _co(self, o):
        """Coerce the other operand; returns (a, b) terms in a common sort or None."""
        if isinstance(o, SymFP):
            a, b = self.t, o.t
            if a.sort() != b.sort():
                if a.sort() == F64:
                    a = z3.fpToFP(_RNE, a, WIDE)
                else:
                    b = z3.fpToFP(_RNE, b, WIDE)
            return a, b
        if isinstance(o, SymNum):
            # a selection between constants (value * mask, masked assignment of constants): exact in every IEEE format that
            # holds the constants; anything else is a genuine mix of the two arithmetics
            conv = _const_tree_to_fp(z3.simplify(o.t), self.sort)
            if conv is None:
                raise Unsupported("mixing IEEE and real/integer symbolic values")
            return self.t, conv
        if isinstance(o, SymBool):
            return self.t, z3.If(o.t, _fpval(1, self.sort), _fpval(0, self.sort))
        if self.code and isinstance(o, int) and not isinstance(o, bool) and self.sort == F64 and int(float(o)) != o:
            # an integer the double format cannot hold: keep it exact in the wide sort
            return self._widen(), _fpval(o, WIDE)
        if isinstance(o, (int, float, Fraction)) or type(o).__module__ == "numpy":
            try:
                import numpy as _np

                if isinstance(o, _np.generic):
                    o = o.item()
            except ImportError:  # pragma: no cover
                pass
            return self.t, _fpval(o, self.sort)
        return None

    def _arith(self, o, f, reflect=False):
        r = self._co(o)
        if r is None:
            return NotImplemented
        a, b = (r[1], r[0]) if reflect else r
        return SymFP(f(a, b))

    def __add__(self, o):
        return self._arith(o, lambda a, b: z3.fpAdd(_RNE, a, b))

    def __radd__(self, o):
        return self._arith(o, lambda a, b: z3.fpAdd(_RNE, a, b), True)

    def __sub__(self, o):
        return self._arith(o, lambda a, b: z3.fpSub(_RNE, a, b))

    def __rsub__(self, o):
        return self._arith(o, lambda a, b: z3.fpSub(_RNE, a, b), True)

    def __mul__(self, o):
        return self._arith(o, lambda a, b: z3.fpMul(_RNE, a, b))

    def __rmul__(self, o):
        return self._arith(o, lambda a, b: z3.fpMul(_RNE, a, b), True)

    def __truediv__(self, o):
        return self._arith(o, lambda a, b: z3.fpDiv(_RNE, a, b))

    def __rtruediv__(self, o):
        return self._arith(o, lambda a, b: z3.fpDiv(_RNE, a, b), True)

    def __neg__(self):
        return SymFP(z3.fpNeg(self.t))

    def __pos__(self):
        return self

    def __abs__(self):
        return SymFP(z3.fpAbs(self.t))

    def _cmp(self, o, f):
        if self.code and isinstance(o, int) and not isinstance(o, bool) and self.sort == F64 and int(float(o)) != o:
            # exact comparison of a double with an integer that is not a double: no double lies
            # strictly between the neighbours below/above the integer
            lo, hi = _fl_down(o), _fl_up(o)
            a = self.t
            if f is z3.fpLT or f is z3.fpLEQ:
                return SymBool(z3.fpLEQ(a, z3.FPVal(lo, F64)))
            if f is z3.fpGT or f is z3.fpGEQ:
                return SymBool(z3.fpGEQ(a, z3.FPVal(hi, F64)))
            if f is z3.fpEQ:
                return SymBool(z3.BoolVal(False))
            if f is z3.fpNEQ:
                return SymBool(z3.BoolVal(True))
        r = self._co(o)
        if r is None:
            return NotImplemented
        return SymBool(f(*r))

    def __lt__(self, o):
        return self._cmp(o, z3.fpLT)

    def __le__(self, o):
        return self._cmp(o, z3.fpLEQ)

    def __gt__(self, o):
        return self._cmp(o, z3.fpGT)

    def __ge__(self, o):
        return self._cmp(o, z3.fpGEQ)

    def __eq__(self, o):
        r = self._cmp(o, z3.fpEQ)
        return False if r is NotImplemented else r

    def __ne__(self, o):
        r = self._cmp(o, z3.fpNEQ)
        return True if r is NotImplemented else r

    def __bool__(self):
        return current().branch(z3.Not(z3.fpIsZero(self.t)))

    def __trunc__(self):
        return SymFP(z3.fpRoundToIntegral(_RTZ, self.t))

    def __floor__(self):
        return SymFP(z3.fpRoundToIntegral(z3.RTN(), self.t))

    def __ceil__(self):
        return SymFP(z3.fpRoundToIntegral(z3.RTP(), self.t))

    def __round__(self, nd=None):
        return SymFP(z3.fpRoundToIntegral(_RNE, self.t))

    def isnan(self):
        return SymBool(z3.fpIsNaN(self.t))

    def isinf(self):
        return SymBool(z3.fpIsInf(self.t))

    def round_to(self, bits):
        """Value after being stored in a narrower IEEE format (float32 / float16), kept as a Float64 term (exact)."""
        if self.t.sort() != F64:
            return self
        narrow = z3.Float32() if bits == 32 else z3.Float16()
        return SymFP(z3.fpToFP(_RNE, z3.fpToFP(_RNE, self.t, narrow), F64), code=self.code)

    def to_int_code(self, info=None):
        """float -> integer dtype cast: truncation toward zero, kept as an exact WIDE value.
        The in-range side condition (no wrap) is recorded as an event for the harness."""
        c = z3.fpRoundToIntegral(_RTZ, self.t)
        FP_EVENTS.append(("cast", c, info))
        return SymFP(c, code=True)

    @property
    def is_int(self):
        return False


def _const_tree_to_fp(t, sort):
    """ite-tree over numerals (possibly under to_real) -> the same tree over FP literals; None if t is anything else or a
    leaf is not exactly representable."""
    if z3.is_rational_value(t) or z3.is_int_value(t):
        q = Fraction(t.numerator_as_long(), t.denominator_as_long()) if z3.is_rational_value(t) else Fraction(t.as_long())
        f = float(q)
        # real-arithmetic numerals of Python floats are the decimal the float prints as (33/20 for 1.65): map them back to that double
        if sort != F64 or (Fraction(f) != q and Fraction(repr(f)) != q):
            return None
        return z3.FPVal(f, sort)
    if z3.is_app(t) and t.decl().kind() == z3.Z3_OP_TO_REAL:
        return _const_tree_to_fp(t.arg(0), sort)
    if z3.is_app(t) and t.decl().kind() == z3.Z3_OP_ITE:
        a, b = _const_tree_to_fp(t.arg(1), sort), _const_tree_to_fp(t.arg(2), sort)
        if a is None or b is None:
            return None
        return z3.If(t.arg(0), a, b)
    return None


def _fl_down(n: int) -> float:
    f = float(n)
    return f if int(f) <= n else math.nextafter(f, -math.inf)


def _fl_up(n: int) -> float:
    f = float(n)
    return f if int(f) >= n else math.nextafter(f, math.inf)


def fp(name, sort=None) -> "SymFP":
    return _register(name, SymFP(z3.FP(name, sort or F64)))


numbers.Integral.register(SymInt)
numbers.Integral.register(SymBool)  # bool is an int subclass in Python
numbers.Real.register(SymReal)
numbers.Real.register(SymFP)


def _guard_div(b):
    """Division by a term that may be zero: Python raises / numpy yields inf.  Both are outside
    real arithmetic: the zero case is split off and reported as a ZeroDivisionError path."""
    run = current()
    nz = z3.simplify(b != 0)
    if z3.is_true(nz):
        return
    if run.branch(nz):
        return
    raise ZeroDivisionError("division by a symbolic value that can be zero on this path")


# --------------------------------------------------------------------------------------------
# helpers over symbolic values
def ite(c, a, b):
    """Merge instead of fork: value-level if-then-else."""
    if not isinstance(c, Sym):
        try:
            import numpy as _np

            if isinstance(c, (bool, _np.bool_)):
                return a if c else b
        except ImportError:  # pragma: no cover
            pass
        return a if c else b
    ct = c.t if isinstance(c, SymBool) else (c.t != 0)
    ra, rb = to_term(a), to_term(b)
    if ra is None or rb is None:
        # non-scalar: fall back to a fork
        return a if bool(c) else b
    (ta, ka), (tb, kb) = ra, rb
    if ka == "bool" and kb == "bool":
        return SymBool(z3.If(ct, ta, tb))
    if ka == "fp" or kb == "fp":
        fa = a if isinstance(a, SymFP) else None
        fb = b if isinstance(b, SymFP) else None
        x, y = (fa._co(b)) if fa is not None else tuple(reversed(fb._co(a)))
        is_code = (fa is None or fa.code or not isinstance(a, SymFP)) and (fb is None or fb.code or not isinstance(b, SymFP))
        return SymFP(z3.If(ct, x, y), code=is_code and (getattr(fa, "code", False) or getattr(fb, "code", False)))
    if not isinstance(a, Sym) and not isinstance(b, Sym) and mentions_fp(ct):
        # a selection between two constants decided by an IEEE comparison stays in the IEEE world (the constants are
        # doubles / small integers: exact), so that later arithmetic on it is rounded like the real code rounds it
        try:
            fa_, fb_ = float(a), float(b)
            if (fa_ == a or fa_ != fa_) and (fb_ == b or fb_ != fb_):
                return SymFP(z3.If(ct, z3.FPVal(fa_, F64), z3.FPVal(fb_, F64)), code=isinstance(a, int) and isinstance(b, int))
        except (TypeError, ValueError, OverflowError):
            pass
    na, nb = _num(a), _num(b)
    x, y, i = _unify(na[0], na[1], nb[0], nb[1])
    return _mk(z3.simplify(z3.If(ct, x, y)), i)


_FP_MENTION: dict = {}


def mentions_fp(t) -> bool:
    """Does the term contain a floating-point subterm?"""
    key = t.get_id()
    hit = _FP_MENTION.get(key)
    if hit is not None:
        return hit[1]
    seen, stack, found, alive = set(), [t], False, []
    while stack and not found:
        u = stack.pop()
        i = u.get_id()
        if i in seen:
            continue
        seen.add(i)
        alive.append(u)  # ids are only unique among live terms
        if z3.is_fp(u) or z3.is_fprm(u):
            found = True
            break
        stack.extend(u.children())
    if len(_FP_MENTION) > 50000:
        _FP_MENTION.clear()
    _FP_MENTION[key] = (t, found)  # the term is kept alive with its verdict: z3 re-uses the ids of collected terms
    return found


def _nan_first(a, b, pick):
    """numpy's minimum / maximum / min / max propagate NaN (IEEE values only)."""
    fa = a if isinstance(a, SymFP) else None
    fb = b if isinstance(b, SymFP) else None
    if fa is None and fb is None:
        return pick
    r = pick
    if fb is not None:
        r = ite(fb.isnan(), fb, r)
    if fa is not None:
        r = ite(fa.isnan(), fa, r)
    return r


def sym_min(a, b):
    if not (is_sym(a) or is_sym(b)):
        return min(a, b)
    return _nan_first(a, b, ite(a <= b, a, b))


def sym_max(a, b):
    if not (is_sym(a) or is_sym(b)):
        return max(a, b)
    return _nan_first(a, b, ite(a >= b, a, b))


def sym_abs(a):
    return abs(a)


def _boolterm(x):
    if isinstance(x, SymBool):
        return x.t
    if isinstance(x, SymFP):
        return z3.Not(z3.fpIsZero(x.t))
    if isinstance(x, SymNum):
        return x.t != 0
    return z3.BoolVal(bool(x))


def all_of(xs):
    ts = [_boolterm(x) for x in xs]
    if not ts:
        return True
    t = z3.simplify(z3.And(*ts))
    if z3.is_true(t):
        return True
    if z3.is_false(t):
        return False
    return SymBool(t)


def any_of(xs):
    ts = [_boolterm(x) for x in xs]
    if not ts:
        return False
    t = z3.simplify(z3.Or(*ts))
    if z3.is_true(t):
        return True
    if z3.is_false(t):
        return False
    return SymBool(t)


def implies(a, b):
    return SymBool(z3.Implies(_boolterm(a), _boolterm(b)))


def implied_value(x):
    """If the symbolic scalar has a single value on this path return it (int/Fraction/bool)."""
    r = to_term(x)
    if r is None:
        return x
    t, k = r
    t = z3.simplify(t)
    v = _numeral(t)
    if v is not None:
        return v
    run = current()
    m = run.model()
    if m is None:
        return None
    cand = m.eval(t, model_completion=True)
    if run._check(t != cand) == z3.unsat:
        return _numeral(cand)
    return None


def sample_value(x, why="an operation outside the encoding"):
    """Concolic fallback: fix the symbolic scalar to ONE value consistent with the path (no fork) and remember that the path is no
    longer exhaustive.  Returns a plain Python number."""
    if not is_sym(x):
        return x
    r = to_term(x)
    if r is None:
        raise Unsupported("sample_value of a non-scalar")
    t = z3.simplify(r[0])
    v = _numeral(t)
    if v is None:
        run = current()
        m = run.model()
        if m is None:
            raise PathAbort("no model while sampling")
        cand = m.eval(t, model_completion=True)
        run.add(t == cand)
        note = "one sampled value per symbolic input of " + why
        if note not in run.inexact:
            run.inexact.append(note)
        v = _numeral(cand)
    if isinstance(v, Fraction):
        return float(v)
    return v


def concretize_int(x, cap=64) -> int:
    """Python needs a concrete integer (range length, index, slice width)."""
    if isinstance(x, bool):
        return int(x)
    if isinstance(x, int):
        return x
    if not is_sym(x):
        return int(x)
    if isinstance(x, SymBool):
        return 1 if bool(x) else 0
    if not x.is_int:
        x = x.__trunc__()
    t = z3.simplify(x.t)
    v = _numeral(t)
    if v is not None:
        return int(v)
    run = current()
    for _ in range(cap):
        m = run.model()
        if m is None:
            raise PathAbort("no model while concretising")
        cand = m.eval(t, model_completion=True)
        if run.branch(t == cand):
            return int(_numeral(cand))
    run.inexact.append("concretize_int cap reached")
    raise BudgetExceeded("concretize_int: more than %d values" % cap)


def _numeral(t):
    if z3.is_int_value(t):
        return t.as_long()
    if z3.is_rational_value(t):
        return Fraction(t.numerator_as_long(), t.denominator_as_long())
    if z3.is_true(t):
        return True
    if z3.is_false(t):
        return False
    if z3.is_fp(t):
        return _fp_numeral(t)
    if z3.is_algebraic_value(t):
        a = t.approx(20)
        return Fraction(a.numerator_as_long(), a.denominator_as_long())
    return None


def _fp_numeral(t):
    import struct

    if z3.is_fp_value(t):
        if t.isNaN():
            return math.nan
        if t.isInf():
            return -math.inf if t.isNegative() else math.inf
    if t.sort() == F64:
        bv = z3.simplify(z3.fpToIEEEBV(t))
        if z3.is_bv_value(bv):
            return struct.unpack("<d", struct.pack("<Q", bv.as_long()))[0]
        return None
    if z3.is_fp_value(t):
        if t.isNaN():
            return math.nan
        if t.isInf():
            return -math.inf if t.isNegative() else math.inf
    r = z3.simplify(z3.fpToReal(t))
    v = _numeral(r) if not z3.is_fp(r) else None
    if isinstance(v, Fraction) and v.denominator == 1:
        return int(v)
    return v


# -- fresh symbols
def _register(name, s):
    run = current()
    if name in run.inputs:
        raise RuntimeError(f"duplicate symbol {name}")
    run.inputs[name] = s
    return s


def real(name) -> SymReal:
    return _register(name, SymReal(z3.Real(name)))


def integer(name) -> SymInt:
    return _register(name, SymInt(z3.Int(name)))


def boolean(name) -> SymBool:
    return _register(name, SymBool(z3.Bool(name)))


_UF_CACHE: dict = {}


def uf(name, *sorts):
    key = (name, tuple(str(s) for s in sorts))
    if key not in _UF_CACHE:
        _UF_CACHE[key] = z3.Function(name, *sorts)
    return _UF_CACHE[key]


# -- path-level API
def assume(c, why=""):
    """Precondition: drop the path if infeasible.  Recorded in the evidence."""
    run = current()
    if why and why not in run.assumptions:
        run.assumptions.append(why)
    t = z3.simplify(_boolterm(c))
    if z3.is_true(t):
        return
    run.add(t)
    if z3.is_false(t) or run._check() == z3.unsat:
        raise PathAbort("assumption infeasible: " + why)


def axiom(t, key=None):
    """A valid fact about an uninterpreted function, added to the path condition."""
    run = current()
    k = key if key is not None else t.sexpr()
    if k in run.axioms_seen:
        return
    run.axioms_seen.add(k)
    run.add(t)


def reach(tag):
    run = current()
    run.reached[tag] = run.reached.get(tag, 0) + 1


def note(**kw):
    current().notes.append(kw)


def observe(name, value):
    """Register a symbolic observable for the fidelity (path-witness) replay."""
    current().observed[name] = value


def prove(oid: str, claim, **info) -> bool:
    """Post an obligation.  Returns True if discharged (or trivially true)."""
    run = current()
    run.reached[oid] = run.reached.get(oid, 0) + 1
    rec = {"id": oid, "info": info}
    t = z3.simplify(_boolterm(claim))
    if z3.is_true(t):
        rec["verdict"] = "unsat"
        rec["trivial"] = True
        run.obligations.append(rec)
        return True
    sh = run.shared
    t0 = time.perf_counter()
    r = None
    if sh.solver == "cvc5":
        from . import smt

        names = list(run.inputs)
        text = smt.z3_to_smt2(run.pc + [z3.Not(t)], get_values=names)
        v, vals, secs = smt.cvc5_check(text, timeout_ms=sh.solver_timeout_ms, seed=sh.seed)
        sh.queries += 1
        sh.solver_time += secs
        sh.cvc5_queries += 1
        rec["solver"] = "cvc5"
        if v == "unsat":
            r = z3.unsat
        elif v == "sat":
            r = z3.sat
            rec["model"] = {k: jsonable(vals.get(k)) for k in names}
            rec["observed"] = {}
        else:
            rec["cvc5"] = vals.get("error", "unknown")
    if r is None:
        r = run._check(z3.Not(t))
        rec["solver"] = rec.get("solver", "") + "+z3" if "solver" in rec else "z3"
        if r == z3.sat:
            m = run.solver.model()
            rec["model"] = {k: jsonable(evalv(v, m)) for k, v in run.inputs.items()}
            rec["observed"] = {k: jsonable(evalv(v, m)) for k, v in run.observed.items()}
        elif r == z3.unknown:
            rec["reason"] = run.solver.reason_unknown()
        if sh.cross_check and r != z3.unknown:
            from . import smt

            text = smt.z3_to_smt2(run.pc + [z3.Not(t)])
            v, vals, secs = smt.cvc5_check(text, timeout_ms=min(sh.solver_timeout_ms, 20000), seed=sh.seed)
            sh.cvc5_queries += 1
            sh.solver_time += secs
            if v in ("sat", "unsat"):
                sh.cross_agree += 1
                if (v == "sat") != (r == z3.sat):
                    sh.cross_disagree.append(oid)
    rec["time_s"] = round(time.perf_counter() - t0, 4)
    rec["verdict"] = "unsat" if r == z3.unsat else ("sat" if r == z3.sat else "unknown")
    # exp / log / pow were uninterpreted on this path (sound but incomplete axioms): a sat answer needs the concrete replay to count
    rec["abstracted"] = bool(run.axioms_seen)
    if (run.shared.dump_smt and r != z3.unsat) or run.shared.dump_all:
        rec["smt2"] = _dump(run, z3.Not(t))
    run.obligations.append(rec)
    return r == z3.unsat


def _dump(run, extra):
    s = z3.Solver()
    for p in run.pc:
        s.add(p)
    s.add(extra)
    return s.to_smt2()


def evalv(x, m):
    """Evaluate a (possibly nested) symbolic value under a z3 model to plain Python."""
    if isinstance(x, Sym):
        t, k = to_term(x)
        v = _numeral(m.eval(t, model_completion=True))
        return v
    if isinstance(x, dict):
        return {k: evalv(v, m) for k, v in x.items()}
    if isinstance(x, (list, tuple)):
        return type(x)(evalv(v, m) for v in x)
    if hasattr(x, "_vx_eval"):
        return x._vx_eval(m)
    return x


def jsonable(x):
    if isinstance(x, bool) or x is None or isinstance(x, (int, str)):
        return x
    if isinstance(x, Fraction):
        if x.denominator == 1:
            return int(x)
        return {"frac": [x.numerator, x.denominator], "float": float(x)}
    if isinstance(x, float):
        if x != x or x in (math.inf, -math.inf):
            return {"fp": repr(x), "float": None}
        return {"fp": x.hex(), "float": x}
    if isinstance(x, dict):
        return {str(k): jsonable(v) for k, v in x.items()}
    if isinstance(x, (list, tuple)):
        return [jsonable(v) for v in x]
    try:
        import numpy as _np

        if isinstance(x, _np.ndarray):
            return jsonable(x.tolist())
        if isinstance(x, _np.generic):
            return jsonable(x.item())
    except ImportError:  # pragma: no cover
        pass
    return repr(x)


def unjson(x):
    """Inverse of jsonable for numbers: fractions become Fraction objects."""
    if isinstance(x, dict):
        if set(x) == {"frac", "float"}:
            return Fraction(x["frac"][0], x["frac"][1])
        if set(x) == {"fp", "float"}:
            return float(x["fp"]) if x["float"] is None else float.fromhex(x["fp"])
        return {k: unjson(v) for k, v in x.items()}
    if isinstance(x, list):
        return [unjson(v) for v in x]
    return x


# --------------------------------------------------------------------------------------------
# driver
def explore(
    fn: Callable[[], Any],
    *,
    max_paths: int = 2000,
    max_seconds: float = 60.0,
    solver_timeout_ms: int = 10000,
    seed: int = 0,
    logic: str | None = None,
    on_path: Callable[["Run", Any, BaseException | None], None] | None = None,
    dump_smt: bool = False,
    witness: bool = True,
    solver: str = "z3",
    cross_check: bool = False,
    max_fidelity: int | None = None,
    fidelity_stride: int = 25,
) -> dict:
    """Run ``fn`` on every feasible path.  Returns a result dictionary (picklable).

    ``max_fidelity``: path-witness replays beyond this number are thinned to every ``fidelity_stride``-th path (the replays validate
    the encoding; the verdicts come from the solver on every path)."""
    global _CURRENT
    sh = Exploration(max_paths, max_seconds, solver_timeout_ms, seed, logic)
    sh.dump_smt = True if dump_smt else None
    sh.dump_all = False
    sh.solver = solver
    sh.cross_check = cross_check
    prefix: list = []
    res = {
        "paths": 0,
        "aborted_paths": 0,
        "obligations": [],
        "reached": {},
        "exhaustive": True,
        "unsupported": [],
        "errors": [],
        "witnesses": [],
        "assumptions": [],
        "path_exceptions": {},
        "fidelity": {"run": 0, "ok": 0, "bad": []},
    }
    while True:
        if sh.paths >= max_paths or time.perf_counter() - sh.t0 > max_seconds:
            res["exhaustive"] = False
            res["cap_hit"] = "paths" if sh.paths >= max_paths else "seconds"
            break
        run = Run(prefix, sh)
        _CURRENT = run
        outcome, exc = None, None
        aborted = False
        try:
            try:
                outcome = fn()
            except PathAbort:
                aborted = True
            except BudgetExceeded as e:
                res["exhaustive"] = False
                res["cap_hit"] = str(e)
                aborted = True
            except Unsupported as e:
                import os, traceback

                msg = str(e)
                if os.environ.get("VX_DEBUG"):
                    msg += "\n" + "".join(traceback.format_tb(e.__traceback__)[-6:])
                res["unsupported"].append(msg)
                res["exhaustive"] = False
                aborted = True
            except VxSignal:
                raise
            except Exception as e:  # exception escaping the harness: a harness error
                import traceback

                exc = e
                res["errors"].append(
                    "".join(traceback.format_exception(type(e), e, e.__traceback__))[-3000:]
                )
            if not aborted:
                sh.paths += 1
                for o in run.obligations:
                    o["path"] = sh.paths
                res["obligations"].extend(run.obligations)
                for k, v in run.reached.items():
                    res["reached"][k] = res["reached"].get(k, 0) + v
                for a in run.assumptions:
                    if a not in res["assumptions"]:
                        res["assumptions"].append(a)
                if run.inexact:
                    res["exhaustive"] = False
                    for note in run.inexact:
                        if note not in res.setdefault("sampled", []):
                            res["sampled"].append(note)
                if on_path is not None or witness:
                    m = run.model()
                    if m is not None:
                        w = {
                            "path": sh.paths,
                            "inputs": {k: jsonable(evalv(v, m)) for k, v in run.inputs.items()},
                            "observed": {
                                k: jsonable(evalv(v, m)) for k, v in run.observed.items()
                            },
                            "notes": jsonable(run.notes),
                        }
                        if len(res["witnesses"]) < sh.max_paths:
                            res["witnesses"].append(w)
                        res["fidelity"]["candidates"] = res["fidelity"].get("candidates", 0) + 1
                        if on_path is not None and (max_fidelity is None or res["fidelity"]["run"] < max_fidelity or res["fidelity"]["candidates"] % fidelity_stride == 0):
                            _CURRENT = None
                            try:
                                ok, detail = on_path(w)
                                res["fidelity"]["run"] += 1
                                if ok:
                                    res["fidelity"]["ok"] += 1
                                else:
                                    res["fidelity"]["bad"].append(
                                        {"witness": w, "detail": jsonable(detail)}
                                    )
                            except Exception as e:  # noqa: BLE001
                                import traceback

                                res["errors"].append(
                                    "fidelity replay crashed: "
                                    + "".join(
                                        traceback.format_exception(type(e), e, e.__traceback__)
                                    )[-2000:]
                                )
            else:
                res["aborted_paths"] += 1
        finally:
            _CURRENT = None
        # next prefix: flip the deepest open decision
        dec = run.decisions
        k = len(dec) - 1
        while k >= 0 and not dec[k][1]:
            k -= 1
        if k < 0:
            break
        prefix = [(v, o) for (v, o) in dec[:k]] + [(not dec[k][0], False)]
    res["paths"] = sh.paths
    res["queries"] = sh.queries
    res["solver_time_s"] = round(sh.solver_time, 4)
    res["wall_s"] = round(time.perf_counter() - sh.t0, 3)
    res["unknown_branches"] = sh.unknown_branches
    res["cvc5_queries"] = sh.cvc5_queries
    res["cross_agree"] = sh.cross_agree
    if sh.cross_disagree:
        res["errors"].append("solver disagreement (z3 vs cvc5) on: " + ", ".join(sh.cross_disagree[:5]))
    return res
