"""Swap module attributes (np, math, builtins shadows, numba dispatchers) for one symbolic run."""

from __future__ import annotations

import contextlib
import importlib
import sys

from . import shadow, symnp

_MISSING = object()


class Patch:
    """Context manager collecting attribute swaps; everything is undone on exit."""

    def __init__(self):
        self._undo = []
        self.log: list[str] = []

    def setattr(self, obj, name, value):
        old = obj.__dict__.get(name, _MISSING) if hasattr(obj, "__dict__") else getattr(obj, name, _MISSING)
        self._undo.append((obj, name, old))
        setattr(obj, name, value)

    def module(self, modname):
        return importlib.import_module(modname)

    def numpy(self, *modnames):
        """Replace the ``np`` (and ``numpy``) attribute of the given modules by the stand-in."""
        for mn in modnames:
            m = self.module(mn)
            for attr in ("np", "numpy"):
                if attr in m.__dict__:
                    self.setattr(m, attr, symnp)
            self.log.append(f"{mn}.np -> vx.symnp")
        return self

    def math(self, *modnames):
        for mn in modnames:
            m = self.module(mn)
            if "math" in m.__dict__:
                self.setattr(m, "math", shadow.math)
                self.log.append(f"{mn}.math -> vx.shadow.math")
        return self

    def builtins(self, modname, *names):
        m = self.module(modname)
        for n in names:
            self.setattr(m, n, getattr(shadow, "sym_" + n))
        self.log.append(f"{modname}: shadowed builtins {', '.join(names)}")
        return self

    def pyfunc(self, modname, *names):
        """Replace numba dispatchers by their Python source functions."""
        m = self.module(modname)
        for n in names:
            d = getattr(m, n)
            f = getattr(d, "py_func", d)
            self.setattr(m, n, f)
            self.log.append(f"{modname}.{n} -> .py_func (numba bypassed)")
        return self

    def attr(self, modname, name, value, why=""):
        m = self.module(modname) if isinstance(modname, str) else modname
        self.setattr(m, name, value)
        self.log.append(f"{getattr(m, '__name__', m)}.{name} stubbed" + (f": {why}" if why else ""))
        return self

    def sysmodule(self, name, module, why=""):
        old = sys.modules.get(name, _MISSING)
        self._undo.append(("sys.modules", name, old))
        sys.modules[name] = module
        self.log.append(f"sys.modules[{name!r}] replaced" + (f": {why}" if why else ""))
        return self

    def __enter__(self):
        return self

    def __exit__(self, *exc):
        for obj, name, old in reversed(self._undo):
            if obj == "sys.modules":
                if old is _MISSING:
                    sys.modules.pop(name, None)
                else:
                    sys.modules[name] = old
            elif old is _MISSING:
                try:
                    delattr(obj, name)
                except AttributeError:
                    pass
            else:
                setattr(obj, name, old)
        self._undo.clear()
        return False


@contextlib.contextmanager
def patched(numpy=(), math=(), pyfunc=(), builtins=()):
    with Patch() as p:
        p.numpy(*numpy)
        p.math(*math)
        for mod, names in pyfunc:
            p.pyfunc(mod, *names)
        for mod, names in builtins:
            p.builtins(mod, *names)
        yield p
