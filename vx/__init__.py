"""vx — a small dynamic symbolic executor for running real Python functions on z3 terms.

Public surface (see core.py): explore, prove, assume, reach, fresh symbols, Sym* classes.
"""

from .core import (  # noqa: F401
    BudgetExceeded,
    PathAbort,
    Sym,
    SymBool,
    SymInt,
    SymNum,
    SymReal,
    Unsupported,
    VxSignal,
    all_of,
    any_of,
    assume,
    boolean,
    concretize_int,
    current,
    evalv,
    explore,
    implies,
    integer,
    is_sym,
    ite,
    note,
    observe,
    prove,
    reach,
    real,
    sym_abs,
    sym_max,
    sym_min,
    to_term,
    uf,
)
