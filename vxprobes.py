"""Probe model functions referenced by generated pipelines ("vxprobes.probe", ...).

A probe appends a record to ``TRACE`` and then calls the per-harness hook, which may write
buckets, raise faults, or snapshot the detector.  Importable by dotted name so that pipelines
built from configuration mappings can reference them exactly like real models.
"""

from __future__ import annotations

TRACE: list = []
HOOK = None  # callable(detector, tag, kwargs) or None


def reset(hook=None):
    global HOOK
    TRACE.clear()
    HOOK = hook


def probe(detector, tag=None, **kwargs):
    rec = {"tag": tag, "kwargs": dict(kwargs), "detector_id": id(detector)}
    TRACE.append(rec)
    if HOOK is not None:
        HOOK(detector, tag, kwargs, rec)


# aliases so that several distinct dotted names exist
def probe_a(detector, tag=None, **kwargs):
    probe(detector, tag=tag, **kwargs)


def probe_b(detector, tag=None, **kwargs):
    probe(detector, tag=tag, **kwargs)
