"""Probe model functions referenced by generated pipelines ("vxprobes.probe", ...).

A probe appends a record to ``TRACE`` and then calls the per-harness hook, which may write
buckets, raise faults, or snapshot the detector.  Importable by dotted name so that pipelines
built from configuration mappings can reference them exactly like real models.
"""

from __future__ import annotations

TRACE: list = []
HOOK = None  # callable(detector, tag, kwargs) or None


def reset(hook=None):
    global HOOK
    TRACE.clear()
    HOOK = hook


def probe(detector, tag=None, **kwargs):
    rec = {"tag": tag, "kwargs": dict(kwargs), "detector_id": id(detector)}
    TRACE.append(rec)
    if HOOK is not None:
        HOOK(detector, tag, kwargs, rec)


# aliases so that several distinct dotted names exist
def probe_a(detector, tag=None, **kwargs):
    probe(detector, tag=tag, **kwargs)


def probe_b(detector, tag=None, **kwargs):
    probe(detector, tag=tag, **kwargs)


def probe_c(detector, tag=None, **kwargs):
    probe(detector, tag=tag, **kwargs)


def init_buckets(detector):
    """Always-enabled helper model: initialises the buckets the real exposure loop needs to build its result
    (real pyxel cannot merge >= 2 readouts when no model ever writes the image).  Not recorded in TRACE."""
    import numpy as np

    shape = (detector.geometry.row, detector.geometry.col)
    if detector.photon._array is None:
        detector.photon.array = np.zeros(shape)
    if detector.signal._array is None:
        detector.signal.array = np.zeros(shape)
    if detector.image._array is None:
        detector.image.array = np.zeros(shape, dtype=np.uint16)
