#!/bin/bash
# usage: tools/validate_seed_demo.sh <ID> <dir> [--full-tests]   (scratch worktree only; never touches /repo's working tree)
ID=$1; DIR=$2; FULL=${3:-}
WT=/tmp/val_$ID
git -C /repo worktree remove --force $WT >/dev/null 2>&1
git -C /repo worktree add -q --detach $WT HEAD || exit 9
(cd $WT && PYTHONPATH=$WT timeout 1200 /venv/bin/python $DIR/demo.py >/tmp/val_${ID}_clean.log 2>&1); C=$?
git -C $WT apply $DIR/patch.diff || { echo "$ID PATCH DOES NOT APPLY"; git -C /repo worktree remove --force $WT; exit 8; }
(cd $WT && PYTHONPATH=$WT timeout 1200 /venv/bin/python $DIR/demo.py >/tmp/val_${ID}_patched.log 2>&1); P=$?
T="not run"
if [ "$FULL" = "--full-tests" ]; then T=$(BASELINE_REPO=$WT python3 /verif/tools/baseline.py 2>&1 | grep -v conda | head -1); fi
git -C /repo worktree remove --force $WT
echo "$ID demo_clean_exit=$C demo_patched_exit=$P tests: $T"
