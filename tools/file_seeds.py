import json, os, shutil, sys
R = {
 # id: (title, needs, old_result, new_result, strengthened)
 "C01": ("debug capture: `return` instead of `continue` when a model changed no bucket", "debug=True, a group with >= 2 enabled models, a non-last model that leaves every bucket unchanged", "detected (152 violations: C01/order, once_per_step)", "detected", None),
 "C02": ("Charge.empty() keeps the cached array when the cluster frame was in use", "a step writing charge through the particle (data-frame) interface, followed by another readout step", "MISSED (probe wrote charge as arrays only and read the private array)", "detected (42 violations: C02/buckets/empty_at_start)", "writer probe now alternates array / cluster additions, buckets are read through the public API like the result extraction does"),
 "C03": ("Charge.empty() zeroes in place: the recorded first charge slice aliases the live buffer", ">= 2 readouts, charge written through add_charge_array, charge differing between readouts 0 and 1", "detected (12 violations: C03/witness/values)", "detected", None),
 "C04": ("set_random_seed saves/restores the bit generator state only (Gaussian cache lost)", "a prior state holding a cached Gaussian, or an odd number of normals drawn in the seeded block", "detected (14 violations) with 23 non-reproducing replays (replay priors had no cached Gaussian)", "detected (37 violations, no harness error)", "RNG model split into MT bits + Gaussian cache, np.random.get_bit_generator modelled, replay priors include a cached Gaussian"),
 "C05": ("custom mode: column pointer advances by ndim instead of the number of placeholders", "custom mode with a vector-valued parameter that is not the last enabled one", "counterexample found (6) but not replayed: exit 3 (harness error) instead of VIOLATION", "detected (6 violations: C05/custom/rows)", "concrete replay for the custom-mode obligations"),
 "C06": ("ModelGroup.__deepcopy__ rebuilds models sharing mutable argument values", "a model with a list/dict argument mutated in place, run at least twice", "detected (60 violations: C06/havoc/caller_unchanged, copy/distinct ...)", "detected (62)", "replay for the mutating-model run added (2 former harness errors)"),
 "C08": ("validate_steps looks the swept model up by bare name across groups", "two models with the same name in different groups with different enabled flags, sweep key addressing the later one", "MISSED (all model names unique)", "detected (4 violations: C08/disabled_model_argument/same_name_other_group)", "same-name models in two groups with symbolic enabled flags"),
 "C09": ("sequential runs executed through list(map(partial(...))) : StopIteration swallowed", "sequential observation, a model raising StopIteration, failing run other than the first for the silent variant", "MISSED (6 exception classes, StopIteration not among them)", "detected (36 violations: C09/observation/propagates ...)", "17 exception classes incl. StopIteration / StopAsyncIteration in every mode"),
 "C10": ("log10 of the bounds taken only in the shared-boundary branch", "a logarithmic vector parameter with per-component boundaries", "detected (40 violations: C10/bounds/layout, convert/in_box)", "detected", None),
 "C11": ("weight maps cut with the result fit range instead of the target fit range", "weights_from_file, a result range shifted w.r.t. the target range, a non-uniform weight map", "counterexample found (4) but not replayed: exit 3", "detected (4 violations: C11/accumulate/sum_over_pairs)", "concrete replay of the accumulation obligations with real files / real xarray"),
 "C12": ("Environment(temperature=0) accepted by the constructor (truthiness test)", "exactly the boundary value 0 through constructor / YAML", "detected (2 violations: C12/field/environment.temperature/ctor_eq_documented)", "detected", None),
 "C13": ("photon sign guard `value.min() < 0` is blind when the array holds a NaN", "a 2-D assignment holding at least one NaN and one negative value", "MISSED (real arithmetic, NaN outside)", "detected (3 violations: C13/photon/assign_nonnegative/ieee)", "IEEE-754 layer for the photon sign rule (SymFP elements, NaN-propagating min/max)"),
 "C14": ("Charge.array caches the converted array keyed on a counter that reset() rewinds", "add clusters, read, reset, add the same number of clusters, read", "MISSED (histories of length <= 3)", "detected (5 violations: C14/mixed/CREC ...)", "27 reset-in-the-middle histories of length 4 in the quick tier, all length-4 histories in thorough"),
 "C15": ("persistence: clip_diff only called when the first-listed trap's time factor exceeds 1", ">= 2 species with time constants not fastest-first and tau_min < dt <= tau[0]", "detected (8 violations: C15/persistence/*/trapped_nonnegative)", "detected", None),
 "C16": ("saturation mask taken from the normalised float value (`output >= full_scale`)", "a voltage span whose multiply/divide round trip rounds down, resolution <= 53 bit", "detected (4 violations: C16/simple/full_scale, incl. the symbolic-range layer)", "detected", None),
 "C17": ("apply_qe truncates the photon count to an integer in the deterministic branch too", "simple_conversion with binomial_sampling=False and a fractional photon count per step (e.g. 2.5 photons split into steps)", "detected (54 violations: C17/nondestructive/partition_invariant, destructive/proportional, scaling)", "detected (55)", None),
 "C18": ("load_detector caches the parsed Detector (lru_cache keyed on file name + mtime) and hands its containers to the running detector", "the load model executed twice on the same unmodified file with the running detector emptied / changed in place in between", "MISSED (every load ran once)", "detected (12 violations: C18/load_model/replaces_state/*/twice)", "load-twice variant: load, empty and change the running detector, load the same file again; the state must equal the file's again"),
 "C19": ("create_output_directory: exists() loop followed by mkdir(exist_ok=True) instead of atomic mkdir(exist_ok=False)", "a second start in the same second creating the candidate name between the exists() test and the mkdir", "MISSED (existence of a path was a single flag fixed for the whole call)", "detected (54 violations: C19/dir/created_by_call, fresh)", "file-system model re-samples the existence of a foreign path at every observation (monotone), mkdir is the only atomic test-and-create; concrete replay races a second creator through a mkdir wrapper"),
 "C20": ("fit_into_array computes the overlap from bounds with `start <= stop` (touching edges count as overlap)", "an input placed exactly adjacent to / outside the detector (empty intersection with start == stop)", "detected (486 violations: C20/fit/reject_iff_no_overlap ...)", "detected (486)", None),
}
only = sys.argv[1:]
for pid, (title, needs, old, new, strengthened) in R.items():
    if only and pid not in only: continue
    src = f"/tmp/seed_{pid}"; dst = f"/verif/seeded/{pid}"
    os.makedirs(dst, exist_ok=True)
    for f in ("patch.diff", "demo.py", "notes.md"):
        shutil.copy(os.path.join(src, f), os.path.join(dst, f))
    val = open(f"/tmp/val_{pid}.summary").read().strip().splitlines()[-1]
    meta = {"property": pid, "title": title, "author": "independent sub-agent given only the property text and a scratch worktree of /repo",
            "needs_to_manifest": needs,
            "confirmed_by_me": {"scratch_worktree": "fresh `git worktree add` of /repo HEAD under /tmp, removed afterwards",
                                "demo_on_unchanged_code": "exit 0", "demo_with_patch": "exit 1",
                                "pinned_test_suite_with_patch": val.split("tests: ")[-1],
                                "commands": [f"tools/validate_seed_demo.sh {pid} /tmp/seed_{pid} --full-tests", f"git -C /repo apply patch.diff; ./check {pid} --tier quick; git -C /repo checkout -- ."]},
            "check_before_strengthening": old, "check_now": new}
    if strengthened: meta["strengthened"] = strengthened
    json.dump(meta, open(os.path.join(dst, "meta.json"), "w"), indent=1)
print("filed", len(R))
