#!/usr/bin/env python3
"""Run the repository's pinned test suite (guard off) and compare with /root/.vp/BASELINE.json."""
import json, os, subprocess, sys, tempfile, xml.etree.ElementTree as ET

b = json.load(open("/root/.vp/BASELINE.json"))
fd, path = tempfile.mkstemp(suffix=".junit.xml")
os.close(fd)
cmd = b["cmd"].replace("<file>", path)
repo = os.environ.get("BASELINE_REPO")
if repo:
    cmd = cmd.replace("cd /repo", "cd " + repo)
env = dict(os.environ, PYTHONDONTWRITEBYTECODE="1")
env.pop("PYXEL_VERIF", None)
subprocess.run(cmd, shell=True, env=env, stdout=subprocess.DEVNULL, stderr=subprocess.DEVNULL)
passed, failed = set(), set()
for tc in ET.parse(path).getroot().iter("testcase"):
    tid = (tc.get("classname") or "") + "::" + (tc.get("name") or "")
    if tc.find("failure") is not None or tc.find("error") is not None:
        failed.add(tid)
    elif tc.find("skipped") is None:
        passed.add(tid)
os.remove(path)
missing = [t for t in b["stable_pass"] if t not in passed]
print(f"passed={len(passed)} failed={len(failed)} stable_pass={len(b['stable_pass'])} missing_from_stable={len(missing)}")
for t in missing[:30]:
    print("  MISSING:", t)
sys.exit(1 if missing else 0)
