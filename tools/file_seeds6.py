#!/usr/bin/env python3
"""Development-time helper: file the sixth round of sub-agent seeded changes under /verif/seeded/<ID>e/.

Reads /tmp/seed6_<ID>/{patch.diff,demo.py,notes.md} and /tmp/val6_<ID>.summary (written by
tools/validate_seed_demo.sh).  Not registered in MANIFEST.
"""
import json
import os
import shutil
import sys

R = {
    "C01": ("Detector.empty keeps the scene after the first readout and Processor.run_pipeline skips the scene_generation group on later readouts", "a scene_generation group and >= 2 readout times",
            "detected (C01/order/scene_generation*/r=2 ...)", "detected", None),
    "C02": ("MKID.empty drops the reset flag (same slip as C17e, filed under C02 by another sub-agent)", "MKID detector, non-destructive readout, >= 2 readout times", "MISSED (the loop ran on a CCD only)",
            "detected (C02/buckets/pixel_nondestructive/ctor/n=2/mkid)", "the symbolic exposure loop also on CMOS, MKID and APD detectors"),
    "C03": ("Photon.to_xarray returns the live float64 cube without a copy (astype(copy=False))", "debug on, 3-D float64 photons, two photon writers in a step, the later one in place",
            "MISSED (debug records were compared by name, not by value; one photon writer)", "detected (C03/witness/debug/*)",
            "debug records carry the values the detector held when the model returned; a second photon model adding in place; 3-D photon variant"),
    "C04": ("dark_current / dark_current_rule07 enter set_random_seed(seed if temporal_noise else None)", "temporal_noise=False with spatial_noise_factor set, and a model seed",
            "MISSED (one option set per model)", "detected (C04/model/dark_current/fpn_only/*)", "option combinations that switch one of a model's noise sources off; the sub-agent's side remark led to the open finding on overlapping seeded contexts (section 9.3)"),
    "C05": ("CustomMode.build drops table rows with an empty cell anywhere (dropna on the whole table) and re-numbers", "custom mode, column_range narrower than the table, a missing value in an unused column",
            "MISSED (custom mode was built from a DataFrame, not from a file)", "detected (C05/custom_file/one_run_per_row/*)", "CustomMode.build on tables wider than the column range with symbolic present / empty remark cells in front of and behind the used columns"),
    "C06": ("Processor.replace returns self when every requested value is already set", "dask observation whose sweep contains the configured values", "detected (C06/copy/distinct_objects/replace/*)", "detected", None),
    "C08": ("eval_entry returns bare identifiers unchanged (True / False / None stay text)", "textual booleans (command-line overrides, quoted sweep values)", "detected (C08/eval_entry/literal_or_self/literal)", "detected", None),
    "C09": ("set_random_seed rewritten as a class whose __exit__ returns True when a seed was given (swallows the exception)", "a failing model under a pipeline or model seed", "detected (C09/witness/calibration/* - the calibration witness runs carry a pipeline seed)", "detected", None),
    "C10": ("convert_values leaves a flat tuple of placeholders unchanged; the fitting code sizes with Sequence but slices with isinstance(list)", "a vector parameter declared with a tuple of placeholders",
            "MISSED (vectors were declared as lists)", "detected (C10/update/slices/V*, convert/*)", "every vector variable is declared as a list or as a tuple (symbolic choice)"),
    "C11": ("build_processors builds the per-target processors around one shared detector object", ">= 2 targets and a result_input_arguments key on the detector", "MISSED (inputs were model arguments only)",
            "detected (C11/accumulate/own_detector_input/*)", "every target is paired with a model argument and with a detector setting of its own; the run of each target must see its own"),
    "C12": ("eval_range rounds float numpy expressions to 10 decimals", "a numpy.* expression whose values are not multiples of 1e-10 (small physical values; readout times below 1e-10 are refused)", "MISSED (numpy.* expressions outside C12)",
            "detected (C12/expressions/denoted_numbers/*)", "linspace / arange / geomspace / logspace / integer arange texts over decades 1e-15..1e3 through eval_range, ParameterValues and Readout(times=...)"),
    "C13": ("Photon.array_3d accepts permuted dimensions and drops the result of transpose", "a cube with correctly named dimensions in another order", "MISSED (the xarray stand-in had no transpose: the AttributeError looked like a refusal)",
            "detected (C13/photon3d/invariant set3d/*/wrong_dims)", "stand-in models transpose (new array, not in place); an AttributeError from the stand-in is now 'unsupported' (inconclusive), never a refusal"),
    "C14": ("new Geometry.pixel_size returns (width, height) and Charge._array_to_df unpacks it as (vertical, horizontal)", "pixels that are not square, array charge converted to clusters", "MISSED (histories ran on square pixels)",
            "detected (C14/mixed/AC@pixel=0.5x3.0 ...)", "histories mixing arrays and clusters on 0.5 x 3.0 pixels"),
    "C15": ("apply_qe draws the binomial sample with round(photons) trials", "fractional photon counts >= x.5 and full conversion", "detected (C15/qe/sampling_range)", "detected", None),
    "C16": ("sar_adc (the model) converts signal - min_volt against max - min; sar_adc_with_noise still uses the raw signal and max", "an ADC voltage range with a non-zero lower bound, compared through the two models",
            "MISSED (equivalence was decided on the apply_* functions with min_volt = 0)", "detected (C16/sar_noise/models_zero_noise_equiv/*)", "the two SAR models on detectors with a symbolic voltage range (lower bound of either sign)"),
    "C17": ("run_pipeline computes step = time - detector.absolute_time (short by start_time after the first step; same family as C02e)", "non-zero start time and >= 2 readouts", "detected (C17/nondestructive/partition_invariant/*)", "detected", None),
    "C18": ("MKID.to_dict stores an all-zero phase as None", "MKID with an initialised, all-zero phase", "detected (C18/dict/roundtrip/mkid/phase)", "detected", None),
    "C19": ("the per-run file index of the dask path becomes ones_like(...).cumsum() - 1 (accumulates along each axis in turn)", "dask observation, product mode with >= 2 parameters of >= 2 values, outputs enabled",
            "MISSED (the index obligation re-derived arange(size).reshape(shape) in the harness: it checked its own copy)", "detected (C19/witness/observation_files/product,3x2,dask)",
            "witness observations with outputs over grid shapes on both engines; the self-referential obligation was removed"),
    "C20": ("_set_relative_position clamps the free rows / columns at 0 for top_left / top_right / bottom_right", "an input larger than the detector with one of those alignments", "detected (C20/fit/align/top_right/*)", "detected", None),
}


def main():
    only = sys.argv[1:]
    n = 0
    for pid, (title, needs, old, new, strengthened) in R.items():
        if only and pid not in only:
            continue
        src, dst = f"/tmp/seed6_{pid}", f"/verif/seeded/{pid}f"
        os.makedirs(dst, exist_ok=True)
        for f in ("patch.diff", "demo.py", "notes.md"):
            shutil.copy(os.path.join(src, f), os.path.join(dst, f))
        val = open(f"/tmp/val6_{pid}.summary").read().strip().splitlines()[-1]
        assert "demo_clean_exit=0 demo_patched_exit=1" in val and "stable_pass=1969" in val and "passed=1969" in val, (pid, val)
        meta = {"property": pid, "round": 6, "title": title,
                "author": "independent sub-agent given only the property text, the titles of the five earlier changes to avoid, and a scratch worktree of /repo",
                "needs_to_manifest": needs,
                "confirmed_by_me": {"scratch_worktree": "fresh `git worktree add` of /repo HEAD under /tmp, removed afterwards", "demo_on_unchanged_code": "exit 0", "demo_with_patch": "exit 1",
                                    "pinned_test_suite_with_patch": val.split("tests: ")[-1],
                                    "commands": [f"tools/validate_seed_demo.sh {pid} /tmp/seed6_{pid} --full-tests", f"PYTHONPATH=/tmp/wt6_{pid} ./check {pid} --tier quick   (the sub-agent's worktree with the change applied shadows /repo; /repo untouched)", f"git -C /repo apply patch.diff; ./check {pid} --tier quick; git -C /repo checkout -- ."]},
                "check_when_the_change_arrived": old, "check_now": new}
        if strengthened:
            meta["strengthened"] = strengthened
        json.dump(meta, open(os.path.join(dst, "meta.json"), "w"), indent=1)
        n += 1
    print("filed", n)


if __name__ == "__main__":
    main()
