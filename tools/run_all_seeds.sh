#!/bin/bash
# Development-time regression: applies every seeded change under /verif/seeded to /repo (one at a time), runs the property's quick
# check, reverts, and prints one line per change.  Not registered in MANIFEST.  usage: tools/run_all_seeds.sh [dir ...]
cd /verif
DIRS=${@:-$(ls seeded)}
for d in $DIRS; do
  [ -f seeded/$d/patch.diff ] || continue
  ID=${d:0:3}
  if ! git -C /repo apply --check /verif/seeded/$d/patch.diff 2>/dev/null; then echo "$d: PATCH DOES NOT APPLY to the current /repo"; continue; fi
  git -C /repo apply /verif/seeded/$d/patch.diff
  OUT=$(./check $ID --tier quick --no-evidence 2>&1 | grep -v conda); RC=$?
  NV=$(echo "$OUT" | grep -c "^VIOLATION")
  git -C /repo checkout -- .
  if [ "$NV" -gt 0 ]; then echo "$d: DETECTED violations=$NV"; else echo "$d: NOT DETECTED :: $(echo "$OUT" | tail -1 | cut -c1-160)"; fi
done
