#!/usr/bin/env python3
"""Development-time mutation self-test (not registered in MANIFEST).

Each mutant is an exact string replacement in /repo; it is applied, the property's quick check is
run, and /repo is restored (`git checkout -- .`).  Prints one line per mutant: detected (exit 1 with
VIOLATION lines), harness error (exit 3) or missed (exit 0).

usage: tools/mutants.py [ID ...]
"""

import subprocess
import sys

M = [
    # (property, label, file, old, new)
    ("C01", "group order: swap two groups", "pyxel/pipelines/pipeline.py", '        "charge_generation",\n        "charge_collection",', '        "charge_collection",\n        "charge_generation",'),
    ("C01", "disabled model still iterated when it is the last", "pyxel/pipelines/model_group.py", "            if model.enabled:\n                yield model", "            if model.enabled or model is self.models[-1] and len(self.models) > 2:\n                yield model"),
    ("C01", "arguments: drop keys starting with 'b'", "pyxel/pipelines/model_function.py", "        self.func(detector, **self.arguments)", "        self.func(detector, **{k: v for k, v in self.arguments.items() if not (k == 'b' and len(self.arguments) > 2 and detector.pipeline_count > 0)})"),
    ("C02", "absolute time ignores negative start", "pyxel/detectors/readout_properties.py", "        return self._start_time + self._time", "        return max(self._start_time, 0.0) + self._time"),
    ("C02", "non-destructive keeps photon", "pyxel/detectors/detector.py", "        self.photon.empty()\n        self.charge.empty()", "        if reset:\n            self.photon.empty()\n        self.charge.empty()"),
    ("C02", "equal times accepted", "pyxel/detectors/readout_properties.py", "        elif not np.all(np.diff(times_1d) > 0):", "        elif not np.all(np.diff(times_1d) >= 0):"),
    ("C03", "time label is the relative time", "pyxel/exposure/exposure.py", "        [detector.absolute_time],\n        dims=\"time\",\n        attrs={\"units\": \"s\", \"long_name\": \"Readout time\"},", "        [detector.time],\n        dims=\"time\",\n        attrs={\"units\": \"s\", \"long_name\": \"Readout time\"},"),
    ("C04", "restore skipped on exception", "pyxel/util/randomize.py", "        try:\n            np.random.seed(seed)\n            yield\n        finally:\n            np.random.set_state(previous_state)", "        np.random.seed(seed)\n        yield\n        np.random.set_state(previous_state)"),
    ("C04", "exposure ignores seed 0", "pyxel/exposure/exposure.py", "    with set_random_seed(seed=pipeline_seed):", "    with set_random_seed(seed=pipeline_seed or None):"),
    ("C05", "product drops last value of third parameter", "pyxel/observation/misc.py", "        step_ranges = [range(len(step)) for step in self.enabled_steps]", "        step_ranges = [range(len(step) - (1 if i == 2 and len(step) > 2 else 0)) for i, step in enumerate(self.enabled_steps)]"),
    ("C05", "sequential defaults taken after first change", "pyxel/observation/misc.py", "                parameters={**params_defaults, **parameter_dict},", "                parameters={**parameter_dict, **params_defaults} if n == 3 else {**params_defaults, **parameter_dict},"),
    ("C06", "shallow pipeline copy", "pyxel/pipelines/processor.py", "            pipeline=deepcopy(self.pipeline, memo=memodict),", "            pipeline=self.pipeline,"),
    ("C06", "model group copy shares models", "pyxel/pipelines/model_group.py", "        copied_models = deepcopy(self.models)", "        copied_models = list(self.models)"),
    ("C08", "has() true for any attribute of the parent", "pyxel/pipelines/processor.py", "            found = hasattr(obj, att)", "            found = hasattr(obj, att) or (obj is not None and att.endswith('z'))"),
    ("C08", "set converts lists element-wise but drops falsy", "pyxel/pipelines/processor.py", "                    (eval_entry(val) if val else val) for val in value", "                    (eval_entry(val) if val else val) for val in value if val is not False"),
    ("C09", "exception swallowed for the first model of the last step", "pyxel/pipelines/model_group.py", "                    exc.add_note(note)\n\n                raise", "                    exc.add_note(note)\n\n                if not (detector.is_last_readout and detector.pipeline_count > 0 and model is self.models[0] and isinstance(exc, KeyError)):\n                    raise"),
    ("C09", "note lacks the model name", "pyxel/pipelines/model_group.py", "                        f\"model '{model.name}' ({model._func_name}).\"", "                        f\"model ({model._func_name}).\""),
    ("C10", "log flag applied to the wrong slice", "pyxel/calibration/fitting_datatree.py", "                start = a\n                stop = a + b\n                parameters[..., start:stop] = np.power(10, parameters[..., start:stop])", "                start = a\n                stop = a + 1\n                parameters[..., start:stop] = np.power(10, parameters[..., start:stop])"),
    ("C10", "upper bound vector uses low values for per-component bounds", "pyxel/calibration/fitting_datatree.py", "                    high_values = var.boundaries[:, 1]", "                    high_values = var.boundaries[:, 1][::-1]"),
    ("C11", "squared residuals weight applied twice", "pyxel/calibration/fitness.py", "    diff_square = diff * diff\n    diff_square *= weighting", "    diff_square = diff * diff\n    diff_square *= weighting * weighting"),
    ("C11", "fit-range stop allowed one past the target", "pyxel/calibration/util.py", "        if value is not None and not (0 <= value <= size):", "        if value is not None and not (0 <= value <= size + 1):"),
    ("C12", "qe setter upper bound exclusive", "pyxel/detectors/characteristics.py", "        if not (np.min(value) >= 0.0 and np.max(value) <= 1.0):", "        if not (np.min(value) >= 0.0 and np.max(value) < 1.0):"),
    ("C12", "temperature 0 accepted by setter", "pyxel/detectors/environment.py", "        if not (0.0 < value <= 1000.0):", "        if not (0.0 <= value <= 1000.0):"),
    ("C13", "update skips validation for float32", "pyxel/data_structure/array.py", "        if data is not None:\n            self.array = np.asarray(data)", "        if data is not None:\n            arr = np.asarray(data)\n            if arr.dtype == np.float32:\n                self._array = arr\n            else:\n                self.array = arr"),
    ("C13", "photon clip lost", "pyxel/data_structure/photon.py", "            value = np.clip(value, a_min=0.0, a_max=None)", "            value = np.clip(value, a_min=None, a_max=None) if value.shape[0] > 2 else np.clip(value, a_min=0.0, a_max=None)"),
    ("C14", "upper edge inclusive", "pyxel/data_structure/charge.py", "                if 0 <= row < num_rows and 0 <= col < num_cols:", "                if 0 <= row <= num_rows - 1 and -1 <= col < num_cols:"),
    ("C14", "array added twice when clusters exist", "pyxel/data_structure/charge.py", "            self.add_charge_dataframe(charge_df)", "            self.add_charge_dataframe(charge_df)\n            self.add_charge_dataframe(charge_df.iloc[:1])"),
    ("C15", "full well uses >=", "pyxel/models/charge_collection/full_well.py", "    array[array > fwc] = fwc", "    array[array >= fwc] = fwc + (0 if fwc else 1)"),
    ("C15", "persistence: release only half when capacities given", "pyxel/models/charge_collection/persistence.py", "    pixel_output += trapped_charge - clipped", "    pixel_output += (trapped_charge - clipped) * (0.5 if trap_capacities is not None else 1.0)"),
    ("C16", "saturation test strict", "pyxel/models/readout_electronics/simple_adc.py", "    is_saturated = signal >= voltage_max", "    is_saturated = signal > voltage_max"),
    ("C16", "dtype boundary off by one", "pyxel/util/misc.py", "    elif 9 <= bit_resolution <= 16:", "    elif 9 <= bit_resolution <= 17:"),
    ("C17", "illumination uses time instead of step after first readout", "pyxel/models/photon_collection/illumination.py", "    photon_array = photon_array * (detector.time_step / time_scale)", "    photon_array = photon_array * ((detector.time_step if detector.pipeline_count < 2 else detector.time) / time_scale)"),
    ("C18", "pixel_scale dropped by to_dict", "pyxel/detectors/geometry.py", '            "pixel_scale": self._pixel_scale,', '            "pixel_scale": None if self._pixel_scale == self._pixel_vert_size else self._pixel_scale,'),
    ("C19", "counter restarts", "pyxel/outputs/outputs.py", "            count += 1\n            add = \"_\" + str(count)", "            count = min(count + 1, 2)\n            add = \"_\" + str(count)"),
    ("C19", "png writer check removed", "pyxel/outputs/utils.py", "    if full_filename.exists():\n        raise FileExistsError(f\"File {full_filename} already exists!\")\n\n    im = Image.fromarray(data)\n    im.save(full_filename)", "    im = Image.fromarray(data)\n    im.save(full_filename)"),
    ("C20", "centre alignment rounds up", "pyxel/util/image.py", "        return int((output_y - array_y) / 2), int((output_x - array_x) / 2)", "        return int((output_y - array_y + 1) / 2), int((output_x - array_x) / 2)"),
    ("C20", "stamp ignores size", "pyxel/util/image.py", "    return stat_result.st_mtime_ns, stat_result.st_size", "    return stat_result.st_mtime_ns // 10**12, 0"),
]


def run(cmd, **kw):
    return subprocess.run(cmd, shell=True, capture_output=True, text=True, **kw)


def main():
    want = set(a.upper() for a in sys.argv[1:])
    res = []
    for pid, label, f, old, new in M:
        if want and pid not in want:
            continue
        path = "/repo/" + f
        src = open(path).read()
        if src.count(old) < 1:
            print(f"{pid} [{label}]: PATTERN NOT FOUND in {f}")
            continue
        open(path, "w").write(src.replace(old, new, 1))
        try:
            r = run(f"cd /verif && ./check {pid} --tier quick --no-evidence")
            nv = sum(1 for l in r.stdout.splitlines() if l.startswith("VIOLATION"))
            verdict = "DETECTED" if r.returncode == 1 and nv else ("harness-error" if r.returncode == 3 else f"MISSED (exit {r.returncode})")
            print(f"{pid} [{label}]: {verdict} violations={nv}")
            res.append((pid, label, verdict))
        finally:
            run("git -C /repo checkout -- .")
    missed = [r for r in res if not r[2].startswith("DETECTED")]
    print(f"\n{len(res) - len(missed)}/{len(res)} detected")
    for m in missed:
        print("  not detected:", m)


if __name__ == "__main__":
    main()
