#!/usr/bin/env python3
"""Development-time helper: file the second round of sub-agent seeded changes under /verif/seeded/<ID>b/.

Reads /tmp/seed2_<ID>/{patch.diff,demo.py,notes.md} and /tmp/val2_<ID>.summary (written by
tools/validate_seed_demo.sh).  Not registered in MANIFEST.
"""
import json
import os
import shutil
import sys

R = {
    # id: (title, needs, result with the harness as it was when the change arrived, result now, what was strengthened)
    "C01": ("ModelGroup.__iter__ iterates a cached tuple of the models that were enabled at first use",
            "the same pipeline object used (run / repr / iterated) once, then `enabled` flags flipped, then run again",
            "MISSED (every pipeline object ran once)", "detected (C01/reconfigure/*)",
            "reconfigure tasks: build, touch (run / repr / iterate), flip every flag to a second symbolic pattern, run; the second run must execute exactly the models enabled now"),
    "C02": ("ReadoutProperties validates with `np.any(steps < 0)`: equal consecutive times pass",
            "a schedule with a tie installed through the Readout.times setter / set_readout", "detected (C02/ctor/accept_iff_valid/ReadoutProperties ...)", "detected", None),
    "C03": ("result slices labelled with detector.time instead of absolute_time", "non-zero start_time", "detected (C03/witness/time_labels)", "detected", None),
    "C04": ("compute_simple_prnu memoised with lru_cache: later calls in the process draw nothing",
            "fixed_pattern_noise with a factor, no model seed, a pipeline seed, same shape/QE/factor computed earlier in the process",
            "MISSED (one non-reproducing counterexample from cache pollution between explored paths: exit 3)", "detected (C04/model/fixed_pattern_noise/history_independent/draws)",
            "model_twice tasks: every stochastic model called twice on identical detectors from the same generator state must consume the same draws and leave the same buckets"),
    "C05": ("sequential mode: `parameter_dict.get(key) or default_value`", "a stepped value that is falsy (0, 0.0) and differs from the configured value",
            "detected (C05/sequential/sequence ...), with non-reproducing replays", "detected cleanly", "replay takes the configured defaults and the temperature list from the model"),
    "C06": ("create_new_processor empties the caller's detector before the deepcopy", "caller's detector already holding data, sequential observation",
            "counterexamples found but harness crashed on the emptied copy: exit 3", "detected (C06/copy/caller_unchanged_by_copy, frame, run/caller_unchanged)",
            "havoc / replay tolerate missing buckets; run replay starts from a detector that holds data"),
    "C08": ("Processor.set converts list elements only when every element is a string", "a list mixing numbers and numeric strings, e.g. [60.0, '1e2']",
            "MISSED (lists were all-text or all-number)", "detected (C08/set/list_values/mixed, combinations)", "mixed list case plus all pairs / rotating triples over a pool of numbers, falsy values, numeric and plain text"),
    "C09": ("sequential observation formats parameter values with `{value:g}` inside the except block", "a failing run whose swept value is a tuple / list / None (format raises TypeError, replacing the model's error)",
            "MISSED (swept values were integers)", "detected (C09/observation/propagates, notes ... for list values)", "crash tasks over swept value kinds: float, str, list, bool, numpy float"),
    "C10": ("convert_to_parameters hoists `b = 1` out of the loop", "a vector parameter declared before a scalar, with a logarithmic parameter at or after it", "detected (C10/convert/value, in_box)", "detected", None),
    "C11": ("_apply_parameters no longer passes pipeline_seed to run_pipeline", "a pipeline seed and a stochastic model: champion re-simulation differs from the data its fitness was computed from",
            "MISSED by C11 (caught by C04/plumb/apply_parameters)", "detected (C11/accumulate/champion_resimulation/*) and by C04",
            "champion re-simulation obligation: after fitness(), _apply_parameters on every processor must run with the same processor id, parameter, readout and seed-dependent frame"),
    "C12": ("adc_bit_resolution setter uses `value not in range(4, 64)`", "exactly 64 through the attribute or a sweep", "detected (C12/field/characteristics.adc_bit_resolution/setter_eq_documented, sweep/same_limits)", "detected", None),
    "C13": ("Photon.array setter releases a held 3-D cube before validating the 2-D value", "container holding multi-wavelength photons, then an invalid 2-D assignment",
            "MISSED (2-D assignments were only tried on empty / 2-D containers)", "detected (C13/photon3d/reject_keeps_content)", "2-D set / array_2d / update with valid and invalid arrays on containers holding a cube; concrete replay of photon3d obligations with real xarray"),
    "C14": ("convert_df_to_array: `(position / pixel_size).astype(int)` (truncation toward zero) instead of floor_divide",
            "a cluster less than one pixel outside the top / left edge (position in (-pixel_size, 0))", "detected (C14/cluster/credit_pixel ...)", "detected", None),
    "C15": ("run_cdm_serial computes every species' capture from a per-column snapshot of the packet taken before the species loop",
            "serial direction, >= 2 trap species, strong capture, >= 3 columns (the surplus trapped charge is released into trailing pixels)",
            "MISSED (quick: one species; thorough with 2 species over 3 transfers: 37 inconclusive NRA queries, one non-reproducing model)",
            "detected (C15/cdm_state/serial/pixel_plus_trapped_never_grows, params 0 and 3) in seconds",
            "inductive step of the transfer kernel from an arbitrary valid trap state (the kernel's np.zeros is replaced by a symbolic occupancy array that stays observable): "
            "pixel + trapped never grows, nothing negative; concrete physics vectors with beta = 1 keep the query piecewise linear"),
    "C16": ("apply_sar_adc normalises the signal by max_volt once and starts the reference at 0.5", "a range maximum with a long mantissa (3.3, 0.7 V) and a voltage within 1 ulp of a code transition: sar_adc and the zero-noise noisy variant disagree by one code",
            "MISSED (zero-noise equivalence was proved in real arithmetic only, where both forms agree)", "detected (C16/sar_noise/zero_noise_equiv/fp,...: x = 0x1.7199999999999p+1 for 3.3 V / 4 bit)",
            "exact IEEE-754 layer for the zero-noise equivalence (cvc5, concrete range maxima 3.3 / 0.7 / 1.8 / 0.2048 / 5.0 V); SymFP coerces constant selections (value * mask) exactly"),
    "C17": ("stripe_pattern: compute_pattern memoised with lru_cache and the flux scaling done in place (`*=`) on the cached array", "stripe_pattern called at least twice in a process with time_step / time_scale != 1",
            "detected (C17/nondestructive/partition_invariant, depends_only_on_interval ... stripes)", "detected", None),
    "C18": ("Detector.from_dict restores a non-empty cluster table through add_charge_dataframe after assigning the charge array", "a detector whose Charge.frame holds at least one in-bounds cluster",
            "detected (C18/asdf_standin/roundtrip/*/charge_frame, containers ...)", "detected", None),
    "C19": ("Outputs.save_to_file rescales into the shared `data` variable for png/jpg and falls through to the next writer", "sequential observation / deprecated exposure path with an image-bucket format list where a picture format precedes a lossless one",
            "MISSED (contents handed to the writers were not observed at all)", "detected (C19/content/writer_receives_bucket/image/jpg+fits ...)",
            "content tasks: Outputs.save_to_file with recording writers and a symbolic image / pixel bucket, over ordered format lists (all pairs of 5 formats plus longer lists); replay writes real files and reads them back"),
    "C20": ("_get_file_stamp keys the image cache on whole seconds of mtime plus size", "same path rewritten with same-size content within the same second", "MISSED (the rewrite changed both mtime seconds and size)",
            "detected (C20/cache/fresh_after_rewrite/*/same_second_same_size_1ns ...)", "seven rewrite cases per loader: +1 ns, +50 ms, +0.9 s, +1 s, -1 us, -1 s with equal size, and equal mtime with size + 1"),
}


def main():
    only = sys.argv[1:]
    n = 0
    for pid, (title, needs, old, new, strengthened) in R.items():
        if only and pid not in only:
            continue
        src, dst = f"/tmp/seed2_{pid}", f"/verif/seeded/{pid}b"
        os.makedirs(dst, exist_ok=True)
        for f in ("patch.diff", "demo.py", "notes.md"):
            shutil.copy(os.path.join(src, f), os.path.join(dst, f))
        val = open(f"/tmp/val2_{pid}.summary").read().strip().splitlines()[-1]
        assert "demo_clean_exit=0 demo_patched_exit=1" in val and "stable_pass=1969" in val and "passed=1969" in val, (pid, val)
        meta = {"property": pid, "round": 2, "title": title,
                "author": "independent sub-agent given only the property text, the title of the round-1 change to avoid, and a scratch worktree of /repo",
                "needs_to_manifest": needs,
                "confirmed_by_me": {"scratch_worktree": "fresh `git worktree add` of /repo HEAD under /tmp, removed afterwards", "demo_on_unchanged_code": "exit 0", "demo_with_patch": "exit 1",
                                    "pinned_test_suite_with_patch": val.split("tests: ")[-1],
                                    "commands": [f"tools/validate_seed_demo.sh {pid} /tmp/seed2_{pid} --full-tests", f"git -C /repo apply patch.diff; ./check {pid} --tier quick; git -C /repo checkout -- ."]},
                "check_when_the_change_arrived": old, "check_now": new}
        if strengthened:
            meta["strengthened"] = strengthened
        json.dump(meta, open(os.path.join(dst, "meta.json"), "w"), indent=1)
        n += 1
    print("filed", n)


if __name__ == "__main__":
    main()
