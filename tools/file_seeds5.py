#!/usr/bin/env python3
"""Development-time helper: file the fifth round of sub-agent seeded changes under /verif/seeded/<ID>e/.

Reads /tmp/seed5_<ID>/{patch.diff,demo.py,notes.md} and /tmp/val5_<ID>.summary (written by
tools/validate_seed_demo.sh).  Not registered in MANIFEST.
"""
import json
import os
import shutil
import sys

R = {
    "C01": ("to_model_function pops `enabled` out of the mapping the YAML loader produced", "a YAML model entry defined with an anchor and listed again through an alias (the loader hands the same dict to both positions)",
            "MISSED (every entry was its own mapping)", "detected (C01/aliased/*)", "one mapping object listed in several groups / positions: every occurrence is built with the same enabled flag and arguments"),
    "C02": ("run_pipeline derives the time step from the previous clock value (a fresh clock starts at 0, not at start_time)", "a non-zero start time", "detected (C02/*/time_step*)", "detected", None),
    "C03": ("Charge.array caches the particle conversion per dataframe object", "charge written as particles, then edited in place (set_frame_values / remove_from_frame with ids) by a later model of the same step, debug on",
            "MISSED (charge was written through add_charge_array only)", "detected (C03/witness/particle_charge_edited_in_place/*)",
            "particle pipeline make -> edit in place -> snapshot computed from the dataframe (not through Charge.array), with and without debug records, three kinds of edit"),
    "C04": ("output_node_noise enters set_random_seed(seed) only at the first readout time", "a seeded stochastic model on a detector at readout step >= 1",
            "MISSED (models were run on a detector at step 0)", "detected (C04/model/*@later_step/*)", "every stochastic model also on a detector at a later readout step of a multi-step readout"),
    "C05": ("dask product grid labelled with sorted MultiIndex levels", "with_dask product mode and a value list that is not ascending", "harness error (positional replay of the parallel array)", "detected (C05/worker/*)",
            "the parallel-array replay selects by label; descending and shuffled value lists"),
    "C06": ("Detector._memory becomes a class-level dict", "two runs / copies of a detector whose models keep state in detector memory", "MISSED (memory was re-bound, never filled in place)", "detected (C06/copy/*memory*)",
            "detector memory is filled in place (clear + update) so that a shared dict shows"),
    "C08": ("calibration update_processor collapses a one-element list key to a scalar", "calibration variable declared with values: [_]", "MISSED (calibration entry point outside C08)", "detected (C08/calibration_keys/*)",
            "calibration variable keys with one- and multi-placeholder lists: the assigned value has the declared shape and reads back"),
    "C09": ("the error note looks the failing model up by its position among enabled models in the list of all models", "a disabled model listed in front of the failing one", "MISSED (no disabled models in the faulting groups)",
            "detected (C09/*/note_names_model/*)", "disabled models are listed in front of the probes in every group"),
    "C10": ("ModelFittingDataTree.gradient() = pygmo finite differences probing outside the box", "a gradient-based NLopt solver (slsqp, lbfgs, mma ...) or any caller of problem.gradient near a face of the box",
            "MISSED (only conversion of in-box decision vectors was checked)", "detected (C10/evaluated/in_box/*)",
            "real pygmo runs over the algorithm family (sade, sga, nlopt derivative-free and gradient-based) plus every evaluation entry point of pg.problem at solver-chosen corners; every value reaching the pipeline is recorded by the model"),
    "C11": ("scalar weights expanded with np.full_like(target) (inherits the integer dtype of the target file)", "an integer-typed target file and a non-integer weight", "harness error (symnp.full_like signature)", "detected (C11/accumulate/*int32*)",
            "integer-typed targets with real weights; stand-in signature completed"),
    "C12": ("to_observation_outputs builds ObservationOutputs from a params dict that drops custom_dir_name", "observation mode with outputs.custom_dir_name given in the file", "MISSED (mode settings were not compared)", "detected (C12/build/leaf_equality/*/mode_settings)",
            "the built configuration is compared on outputs (folder, custom_dir_name, save list), pipeline seed and with_dask; replay through pyxel.load of a generated YAML file"),
    "C13": ("identity fast path in ArrayBase.__eq__ runs before the shape check (None is None)", "two empty containers of the same kind and different shapes", "MISSED", "detected (C13/equality_shapes/*)",
            "containers of different shapes are never equal, empty or not; this also exposed a genuine defect in Photon.__eq__ (fix b533f3b)"),
    "C14": ("remove_from_frame masks by row position instead of index label", "a removal by id after an earlier partial removal (labels != positions)", "harness error (pandas .loc on a symbolic array)", "detected (C14/mixed/*XY*)",
            "removal of the oldest cluster (op Y) leaves gaps in the ids before later removals; pandas runs on real numpy inside the symbolic run"),
    "C15": ("CDM parallel: the release-only branch for empty pixels no longer depletes the traps", "a mostly empty column behind a hot pixel", "detected (C15/cdm_state/*)", "detected", None),
    "C16": ("simple_adc digitises in the native type and converts to the optional data_type afterwards (silent wrap)", "option data_type narrower than adc_bit_resolution", "MISSED (option data_type was not exercised)",
            "detected (C16/model/data_type/*)", "every (storage class, data_type) pair: refused with no image stored, or stored wide enough with full scale and order; numpy-2 refusal of out-of-range Python integers modelled in the stand-in (selftest instance added)"),
    "C17": ("MKID.empty drops the reset flag (pixel zeroed before every step)", "MKID detector, non-destructive readout with >= 2 steps", "MISSED (CCD only)", "detected (C17/*/mkid/*)", "every detector type (ccd, cmos, mkid, apd)"),
    "C18": ("run_pipeline keeps the processed-data handle taken before the loop", "load_detector inside a pipeline run through a running mode, file with processed data, the /data group of the result inspected",
            "MISSED (the running detector was compared, not the result)", "detected (C18/load_model/result_holds_loaded_state/*)",
            "real run_mode (exposure / observation, load model first or after a writer, 1-2 steps, solver-chosen) on a real ASDF file: buckets and /data of the result, and what later models see"),
    "C19": ("write_to_fits copies the caller's cards with header.update (BZERO / BSCALE of a raw uint16 frame reach a float image)", "detector.header from load_image include_header on an unsigned 16-bit FITS, float bucket saved as fits",
            "MISSED (no header on the detector)", "detected (C19/witness/exposure_files_equal_buckets/*,header)", "witness exposure with the real load_image(include_header) on a uint16 frame; float buckets written as FITS too"),
    "C20": ("load_table replaces the sniffed space delimiter by the regex \\s+", "a space-delimited text table with an empty field", "MISSED (tables outside; images only)", "detected (C20/tables/roundtrip/space,*)",
            "table round-trips over the five delimiters x three extensions x missing-value layouts (and npy)"),
}


def main():
    only = sys.argv[1:]
    n = 0
    for pid, (title, needs, old, new, strengthened) in R.items():
        if only and pid not in only:
            continue
        src, dst = f"/tmp/seed5_{pid}", f"/verif/seeded/{pid}e"
        os.makedirs(dst, exist_ok=True)
        for f in ("patch.diff", "demo.py", "notes.md"):
            shutil.copy(os.path.join(src, f), os.path.join(dst, f))
        val = open(f"/tmp/val5_{pid}.summary").read().strip().splitlines()[-1]
        assert "demo_clean_exit=0 demo_patched_exit=1" in val and "stable_pass=1969" in val and "passed=1969" in val, (pid, val)
        meta = {"property": pid, "round": 5, "title": title,
                "author": "independent sub-agent given only the property text, the titles of the four earlier changes to avoid, and a scratch worktree of /repo",
                "needs_to_manifest": needs,
                "confirmed_by_me": {"scratch_worktree": "fresh `git worktree add` of /repo HEAD under /tmp, removed afterwards", "demo_on_unchanged_code": "exit 0", "demo_with_patch": "exit 1",
                                    "pinned_test_suite_with_patch": val.split("tests: ")[-1],
                                    "commands": [f"tools/validate_seed_demo.sh {pid} /tmp/seed5_{pid} --full-tests", f"git -C /repo apply patch.diff; ./check {pid} --tier quick; git -C /repo checkout -- ."]},
                "check_when_the_change_arrived": old, "check_now": new}
        if strengthened:
            meta["strengthened"] = strengthened
        json.dump(meta, open(os.path.join(dst, "meta.json"), "w"), indent=1)
        n += 1
    print("filed", n)


if __name__ == "__main__":
    main()
