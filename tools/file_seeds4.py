#!/usr/bin/env python3
"""Development-time helper: file the fourth round of sub-agent seeded changes under /verif/seeded/<ID>b/.

Reads /tmp/seed4_<ID>/{patch.diff,demo.py,notes.md} and /tmp/val4_<ID>.summary (written by
tools/validate_seed_demo.sh).  Not registered in MANIFEST.
"""
import json
import os
import shutil
import sys

R = {
    "C01": ("ModelFunction.__call__ drops every configured argument whose value is None", "an argument explicitly set to null / None whose model default is not None (or a model taking **kwargs)",
            "MISSED (probe arguments were an integer and a real)", "detected (C01/kwargs_exact/*)", "every probe is configured with null, zero, empty text, False and an empty list besides the symbolic arguments; exact names, types and values are compared"),
    "C02": ("Pixel.empty() re-uses the buffer with `*= 0`", "a pixel holding inf / NaN at the end of a step or of an earlier run", "MISSED (real arithmetic: NaN / inf outside)", "detected (C02/buckets/reset_ieee/pixel/*)",
            "IEEE layer of the reset: pixel and charge buffers with arbitrary Float64 contents (NaN, infinities) read exactly zero after Detector.empty(), four detector types"),
    "C03": ("debug recording forgets the previous snapshot at every new readout time", "debug on, non-destructive readout, >= 2 readouts, a first model that leaves the carried-over pixel bucket alone",
            "MISSED (only the first step's writer node was inspected)", "detected (C03/witness/debug/*)", "three-model pipeline with per-model before / after snapshots: recorded buckets = changed by the model (+ changed by the reset for the first model of a step), every step, both readout modes"),
    "C04": ("charge_deposition takes its isotropic direction from a helper that draws from numpy.random.default_rng(None)", "charge_deposition(_in_mct) with particle_direction=isotropic and a model or pipeline seed",
            "MISSED (model not exercised; local generators not modelled)", "detected (C04/model/charge_deposition/isotropic/no_entropy_when_seeded)", "the RNG model records generators created from operating-system entropy (default_rng(None), RandomState(None)); charge_deposition exercised with the shipped stopping-power table"),
    "C05": ("ProductMode._product_indices uses len(step.values) (length of the expression text for numpy expressions)", "product mode, a numpy-expression parameter yielding more values than its text has characters",
            "MISSED (numpy.* expressions outside)", "detected (C05/product/numpy_expression/*)", "value lists given as textual numpy expressions (four expressions, shorter and longer than their value count) in product and sequential mode"),
    "C06": ("build_processors sets the input arguments on the caller's processor before copying", "calibration with result_input_arguments", "detected (C06/copy/caller_unchanged_by_copy/build_processors/*)", "detected", None),
    "C08": ("_get_short_dimension_names_new iterates ambiguous keys first (same defect class as C05c, filed under C08)", "dask sweep with a uniquely named key before / between two keys sharing their last component",
            "MISSED by C08 (caught by C05/worker/*)", "detected (C08/sweep/value_reaches_its_own_key/*) and by C05", "C08 asserts per key that a swept value reaches its own setting through the real dask worker function"),
    "C09": ("pyxel.run(): `return None` inside the finally block when no outputs are configured", "entry point pyxel.run(<yaml>), no outputs section, a model that raises",
            "MISSED (only run_mode was driven)", "detected (C09/run_yaml_exposure/*, run_yaml_observation/*)", "the symbolic crash point is also driven through pyxel.run on a generated YAML file (exposure and observation)"),
    "C10": ("get_best_individuals converts the first N rows of the unsorted population", "num_best_decisions > 0 and a non-flat fitness", "MISSED (best-individual reporting outside)", "detected (C10/report/best_individuals/*)",
            "real get_best_individuals on a stub archipelago for all 6 fitness rankings x 1..3 requested individuals (solver-enumerated), linear / logarithmic / vector parameters"),
    "C11": ("Calibration converts its fit ranges once in __init__; run_calibration uses the cached objects", "a fit range re-declared through the attribute setter before the run", "MISSED", "detected (C11/declared/*_at_run)",
            "Calibration settings re-declared through attributes (symbolic ranges, weights, seed) must be what run_calibration hands to the fitting problem"),
    "C12": ("Geometry row / col setters assign first and validate afterwards", "a refused row / col assignment followed by continued use of the object", "MISSED (only acceptance was compared)", "detected (C12/field/geometry.row/refused_value_not_stored)",
            "after a refused assignment the field still holds its previous value (every validated field)"),
    "C13": ("ArrayBase.__iadd__ stores `self._array + other` directly when dtypes differ", "+= with an operand whose promotion leaves the allowed dtype family or shape", "detected (C13/*/iadd/invariant)", "detected", None),
    "C14": ("new clusters get ids from a RangeIndex starting at nextid (collides with array-derived clusters)", "array, clusters, clusters again, then removal by id", "MISSED (removals were outside)", "detected (C14/mixed/ACCX ...)",
            "removal by id of the most recently added cluster is an operation of the histories; this also exposed a genuine defect (fix 316d81b)"),
    "C15": ("Charge._array_to_frame swaps rows and columns of the shape", "non-square detector, array charge and cluster charge in one step", "detected (C15/collection/steps_add_exactly/array+clusters)", "detected", None),
    "C16": ("Image.array setter casts a new image to the dtype the container already holds", "a detector still holding a narrower image when the resolution is raised and a converter model runs again", "MISSED", "detected (C16/model/reuse/*)",
            "simple_adc / sar_adc on a detector holding the image of an earlier, lower-resolution conversion (all pairs of storage classes)"),
    "C17": ("Detector.set_readout returns early for identical times / mode and only updates start_time (steps not recomputed)", "the same detector exposed twice with equal readout times and a different start time",
            "MISSED (fresh detector per exposure)", "detected (C17/nondestructive/reused_detector, destructive/reused_detector)", "exposures on a detector that was exposed before with the same times and another (symbolic) start time"),
    "C18": ("to_asdf skips data groups whose Dataset is falsy (no data variables)", "a processed-data tree with a coordinate-only parent group or an empty leaf", "MISSED (one group with a variable)", "detected (C18/*/roundtrip/*/data)",
            "processed-data tree with a variable group, a coordinate-only parent with a child, and an empty leaf"),
    "C19": ("Charge.array no longer stores the converted array; save_to_files writes the stale private buffer", "charge bucket saved to file with a cluster-producing model, exposure / dask path", "MISSED (writers were observed at unit level only)",
            "detected (C19/witness/exposure_files_equal_buckets/*)", "end-to-end witness: exposure with outputs, every reported lossless file read back and compared with the result bucket (clusters / arrays / both)"),
    "C20": ("the un-cached route of load_cropped_and_aligned_image passes (x, y) to a function that now takes (y, x)", "a file os.stat cannot see (URL, working-directory relative) and an offset with row != column",
            "MISSED (loader only called with offset 0, 0)", "detected (C20/loader/pixelwise/*,no_stamp)", "the loader itself with symbolic offsets on both routes (with and without a file stamp)"),
}


def main():
    only = sys.argv[1:]
    n = 0
    for pid, (title, needs, old, new, strengthened) in R.items():
        if only and pid not in only:
            continue
        src, dst = f"/tmp/seed4_{pid}", f"/verif/seeded/{pid}d"
        os.makedirs(dst, exist_ok=True)
        for f in ("patch.diff", "demo.py", "notes.md"):
            shutil.copy(os.path.join(src, f), os.path.join(dst, f))
        val = open(f"/tmp/val4_{pid}.summary").read().strip().splitlines()[-1]
        assert "demo_clean_exit=0 demo_patched_exit=1" in val and "stable_pass=1969" in val and "passed=1969" in val, (pid, val)
        meta = {"property": pid, "round": 4, "title": title,
                "author": "independent sub-agent given only the property text, the titles of the three earlier changes to avoid, and a scratch worktree of /repo",
                "needs_to_manifest": needs,
                "confirmed_by_me": {"scratch_worktree": "fresh `git worktree add` of /repo HEAD under /tmp, removed afterwards", "demo_on_unchanged_code": "exit 0", "demo_with_patch": "exit 1",
                                    "pinned_test_suite_with_patch": val.split("tests: ")[-1],
                                    "commands": [f"tools/validate_seed_demo.sh {pid} /tmp/seed4_{pid} --full-tests", f"git -C /repo apply patch.diff; ./check {pid} --tier quick; git -C /repo checkout -- ."]},
                "check_when_the_change_arrived": old, "check_now": new}
        if strengthened:
            meta["strengthened"] = strengthened
        json.dump(meta, open(os.path.join(dst, "meta.json"), "w"), indent=1)
        n += 1
    print("filed", n)


if __name__ == "__main__":
    main()
