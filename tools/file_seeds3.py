#!/usr/bin/env python3
"""Development-time helper: file the third round of sub-agent seeded changes under /verif/seeded/<ID>b/.

Reads /tmp/seed3_<ID>/{patch.diff,demo.py,notes.md} and /tmp/val3_<ID>.summary (written by
tools/validate_seed_demo.sh).  Not registered in MANIFEST.
"""
import json
import os
import shutil
import sys

R = {
    "C01": ("hand-written DetectionPipeline.__deepcopy__ lists nine of the ten groups (signal_transfer missing)", "observation / calibration (they run on deep copies) with an enabled signal_transfer model",
            "MISSED (observation mode only for 9 of the 45 group pairs, none with signal_transfer)", "detected (C01/order ... modes/observation, dask_fn, fitness with signal_transfer)",
            "every group in three copy-based modes: sequential observation, the dask worker function, calibration fitness"),
    "C02": ("Detector.empty() keeps the Scene object and Scene.empty() returns early when the root node is empty", "a scene_generation model adding a source, >= 2 readouts or a second run",
            "MISSED (no step wrote a scene; emptiness was read from the root node only)", "detected (C02/buckets/empty_at_start)", "scene bucket: symbolic prior content, a source added at every step, emptiness counted over the whole tree"),
    "C03": ("image cast back to its unsigned dtype only for a root-level 'image' variable after the merge", "hierarchical layout and >= 2 readouts", "detected (C03/witness/image_dtype)", "detected", None),
    "C04": ("Calibration.__init__: `pygmo_seed or random`", "pygmo_seed = 0 (lower bound of the documented range)", "MISSED (optimiser seed fixed to 7)", "detected (C04/plumb/calibration/pygmo_seed)",
            "optimiser seed chosen by the solver among 0, 1, 7, 100000; archipelago seed, pygmo global seed and the attribute must equal it"),
    "C05": ("_get_short_dimension_names_new returns colliding names first", "dask path, >= 2 parameters with colliding short names and a non-colliding one declared before / between them",
            "MISSED (colliding parameters were always declared first)", "detected (C05/worker/mapping_in_declaration_order, each_model_gets_its_own_value)",
            "dask worker pairing: all permutations of three keys (two colliding) through dimension names, parameter array and the real worker function with symbolic values"),
    "C06": ("Processor.__deepcopy__ shares the Observation (and its Readout) with the copy", "a sweep of observation.readout.times", "MISSED (processor state had no running mode attached)",
            "detected (C06/havoc/caller_unchanged, copy/frame ...)", "the caller's Observation / Readout is part of the processor state; key observation.readout.times through create_new_processor and replace"),
    "C08": ("ModelGroup.__deepcopy__ deep-copies enabled models only", "a key addressing a model that is disabled at copy time, applied through Processor.replace / a sweep",
            "MISSED (C08 applied keys to one processor only; C06's models were all enabled)", "detected (C08/copies/*, C06/havoc/*)",
            "C08 copies obligations (replace twice: base and sibling copies independent); C06: enabled flags are part of the arbitrary state"),
    "C09": ("requires_pygmo decorator wraps the whole call in `except ModuleNotFoundError`", "calibration, fault during the initial population, exception class ModuleNotFoundError",
            "MISSED (calibration mode was outside)", "detected (C09/witness/calibration/initial/ModuleNotFoundError,*)",
            "calibration-mode witness runs with real pygmo (initial population and evolution) over exception classes - these also exposed a genuine defect (fix c9f984f)"),
    "C10": ("ParameterValues sorts the boundaries array along axis 0", "per-component boundaries whose lows / highs are not ascending across components",
            "inconclusive: numpy.sort outside the stand-in (exit 3 through the vacuity guard)", "detected (C10/bounds/layout ...)", "symnp.sort (forking insertion sort of short lanes)"),
    "C11": ("_get_champions reports the best individual of the current population instead of pygmo's best-ever champion", "nlopt with replacement: random, >= 2 evolutions",
            "MISSED (champion reporting was outside: pygmo)", "detected (C11/champion/reported_is_best_ever)", "archipelago stub under pygmo's contract (champion <= every current individual, never worse over evolutions); real _get_champions with a recording xarray"),
    "C12": ("create_new_processor skips falsy sweep values; sequential defaults tolerate missing keys", "a sweep value 0 / 0.0 on the sequential path", "MISSED (sweeps went through Processor.set only)",
            "detected (C12/sweep/same_limits/*/create_new_processor, applies_value)", "three sweep routes (set, replace, create_new_processor); an accepted value must be the value the new processor holds"),
    "C13": ("update() casts incoming data to the dtype the bucket already holds before validating", "a bucket holding a valid array, then update() with a wrong-dtype array", "detected (C13/*/update/...)", "detected", None),
    "C14": ("pixel-centre helpers take a flat index; the vertical one divides by num_rows instead of num_cols", "non-square detector with arrays converted to clusters (mixed use)",
            "inconclusive: numpy.flatnonzero outside the stand-in (exit 3)", "detected (C14/mixed/*)", "symnp.nonzero / flatnonzero / argwhere / count_nonzero"),
    "C15": ("Charge.array cached on `nextid`, which empty() rewinds", ">= 2 steps separated by detector.empty() adding the same number of clusters", "MISSED (C15 collected once per detector)",
            "detected (C15/collection/steps_add_exactly)", "repeated-step collection obligations (clusters / arrays / both, 2-3 steps on one detector)"),
    "C16": ("noisy SAR accumulates codes in zeros_like(signal): float32 / float16 frames lose codes", "a float32 frame with >= 25 bits or float16 with >= 12 bits", "MISSED (frames were float64)",
            "detected (C16/sar_noise/codes_stored_exactly)", "narrow-float frames: every number parked in a float32 / float16 array is recorded; integers among them must fit the mantissa (side condition of the real layer)"),
    "C17": ("load_image: the convert_to_photons branch re-assigns the combined scale (time factor lost)", "convert_to_photons=True and time_step / time_scale != 1", "MISSED (option off)",
            "detected (C17/*/image_adu)", "model set image_adu (load_image with the photon-transfer conversion)"),
    "C18": ("Characteristics.from_dict sorts adc_voltage_range", "a range given high-to-low", "inconclusive: float() of a symbolic value (exit 3)", "detected (C18/*/roundtrip/*/characteristics)", "numeric conversions of loaded values stay symbolic (shadowed float / int in the detector modules)"),
    "C19": ("save_to_files groups reported files with itertools.groupby (adjacent keys only)", "a save list naming the same bucket in non-adjacent entries", "MISSED (one fixed, adjacent order)",
            "detected (C19/files/every_request_reported_once)", "rotations of three save lists; concrete replay on real files"),
    "C20": ("FITS read with do_not_scale_image_data=True", "an unsigned-integer or BSCALE / BZERO FITS image", "MISSED (format readers outside)", "detected (C20/formats/roundtrip/fits,uint16 ...)",
            "concrete witness layer: write / read cycles of boundary values for eight dtypes in npy / FITS, scaled FITS, five text layouts"),
}


def main():
    only = sys.argv[1:]
    n = 0
    for pid, (title, needs, old, new, strengthened) in R.items():
        if only and pid not in only:
            continue
        src, dst = f"/tmp/seed3_{pid}", f"/verif/seeded/{pid}c"
        os.makedirs(dst, exist_ok=True)
        for f in ("patch.diff", "demo.py", "notes.md"):
            shutil.copy(os.path.join(src, f), os.path.join(dst, f))
        val = open(f"/tmp/val3_{pid}.summary").read().strip().splitlines()[-1]
        assert "demo_clean_exit=0 demo_patched_exit=1" in val and "stable_pass=1969" in val and "passed=1969" in val, (pid, val)
        meta = {"property": pid, "round": 3, "title": title,
                "author": "independent sub-agent given only the property text, the titles of the round-1 and round-2 changes to avoid, and a scratch worktree of /repo",
                "needs_to_manifest": needs,
                "confirmed_by_me": {"scratch_worktree": "fresh `git worktree add` of /repo HEAD under /tmp, removed afterwards", "demo_on_unchanged_code": "exit 0", "demo_with_patch": "exit 1",
                                    "pinned_test_suite_with_patch": val.split("tests: ")[-1],
                                    "commands": [f"tools/validate_seed_demo.sh {pid} /tmp/seed3_{pid} --full-tests", f"git -C /repo apply patch.diff; ./check {pid} --tier quick; git -C /repo checkout -- ."]},
                "check_when_the_change_arrived": old, "check_now": new}
        if strengthened:
            meta["strengthened"] = strengthened
        json.dump(meta, open(os.path.join(dst, "meta.json"), "w"), indent=1)
        n += 1
    print("filed", n)


if __name__ == "__main__":
    main()
