#!/bin/bash
# usage: tools/try_mutant.sh <ID> <file-in-repo> <sed-expression>   (development aid: applies, checks, reverts)
ID=$1; F=$2; EXPR=$3
cd /repo && sed -i "$EXPR" "$F" && git diff --stat | tail -1
cd /verif && ./check "$ID" --tier quick --no-evidence 2>&1 | grep -v conda | grep -c "^VIOLATION" | sed 's/^/VIOLATION lines: /'
./check "$ID" --tier quick --no-evidence 2>&1 | grep -v conda | tail -1
git -C /repo checkout -- .
