#!/usr/bin/env python3
"""Development-time helper: file the seventh (partial) round of sub-agent seeded changes under /verif/seeded/<ID>e/.

Reads /tmp/seed7_<ID>/{patch.diff,demo.py,notes.md} and /tmp/val7_<ID>.summary (written by
tools/validate_seed_demo.sh).  Not registered in MANIFEST.
"""
import json
import os
import shutil
import sys

R = {
    "C04": ("run_pipelines_with_dask no longer hands pipeline_seed to the lazily executed runs (only the eager layout run is seeded)", "observation with_dask=True, a pipeline seed, a stochastic model without its own seed",
            "MISSED (the worker function was driven directly with the seed; the graph that calls it was not)", "detected (C04/plumb/observation_dask)",
            "the whole parallel path - graph built by run_pipelines_with_dask, executed by dask's synchronous scheduler - with a symbolic pipeline seed: every execution of the pipeline is seeded with it"),
    "C10": ("parameter slices of the decision vector pre-computed in __init__, keyed by ParameterValues.short_name", "two calibrated parameters whose keys end in the same argument name",
            "harness error (the problem object was built with __new__, the pre-computed attribute was missing)", "detected (C10/update/slices/S,S ...)",
            "the problem object is built through its real constructor (only the target-file loader is replaced); two scalar parameters share their argument name in different models"),
    "C11": ("_get_slice_length resolves an open-ended slice with the TARGET's size for both ranges", "result range open-ended, explicit target range covering the whole target, detector larger than the target",
            "MISSED (both ranges were explicit, or both absent)", "detected (C11/ranges/open_result_equal_extent/*)",
            "result range open in rows / columns / both against an explicit symbolic target range, with the detector's size an unknown the checker is not told"),
    "C12": ("Geometry.__init__ checks the two pixel sizes only when both are given", "a geometry giving one pixel size only, out of range", "detected (C12/field/geometry.pixel_vert_size/ctor_eq_documented)", "detected", None),
    "C16": ("sar_adc_with_noise short-cuts to floor(signal * 2**bits / max) when all strengths and noises are zero", "zero strengths and noises, a range maximum that is not binary-friendly, a voltage one ulp below a code transition",
            "MISSED (model-level equivalence was decided in real arithmetic; exact-FP equivalence on the apply_* functions only)", "detected (C16/sar_noise/models_zero_noise_equiv/fp,bits=4,vmax=3.3)",
            "exact IEEE-754 equivalence of the two SAR models on (0, 3.3 V) and (0, 0.7 V)"),
    "C19": ("write_to_jpg normalises the suffix to .jpg while save_to_files reports the name it was given", "the jpeg alias in the save list (exposure / dask path)", "MISSED (no alias in the save lists)",
            "detected (C19/files/reported_implies_written_when_fresh)", "a save list with jpeg, jpg, fits and npy entries in every rotation"),
}


def main():
    only = sys.argv[1:]
    n = 0
    for pid, (title, needs, old, new, strengthened) in R.items():
        if only and pid not in only:
            continue
        src, dst = f"/tmp/seed7_{pid}", f"/verif/seeded/{pid}g"
        os.makedirs(dst, exist_ok=True)
        for f in ("patch.diff", "demo.py", "notes.md"):
            shutil.copy(os.path.join(src, f), os.path.join(dst, f))
        val = open(f"/tmp/val7_{pid}.summary").read().strip().splitlines()[-1]
        assert "demo_clean_exit=0 demo_patched_exit=1" in val and "stable_pass=1969" in val and "passed=1969" in val, (pid, val)
        meta = {"property": pid, "round": 7, "title": title,
                "author": "independent sub-agent given only the property text, the titles of the six earlier changes to avoid, and a scratch worktree of /repo",
                "needs_to_manifest": needs,
                "confirmed_by_me": {"scratch_worktree": "fresh `git worktree add` of /repo HEAD under /tmp, removed afterwards", "demo_on_unchanged_code": "exit 0", "demo_with_patch": "exit 1",
                                    "pinned_test_suite_with_patch": val.split("tests: ")[-1],
                                    "commands": [f"tools/validate_seed_demo.sh {pid} /tmp/seed7_{pid} --full-tests", f"PYTHONPATH=/tmp/wt7_{pid} ./check {pid} --tier quick   (the sub-agent's worktree with the change applied shadows /repo; /repo untouched)", f"git -C /repo apply patch.diff; ./check {pid} --tier quick; git -C /repo checkout -- ."]},
                "check_when_the_change_arrived": old, "check_now": new}
        if strengthened:
            meta["strengthened"] = strengthened
        json.dump(meta, open(os.path.join(dst, "meta.json"), "w"), indent=1)
        n += 1
    print("filed", n)


if __name__ == "__main__":
    main()
