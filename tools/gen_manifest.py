#!/usr/bin/env python3
"""Regenerate /verif/MANIFEST.json from the table below (kept in one place so it stays valid)."""

import json
import os

ROOT = os.path.dirname(os.path.dirname(os.path.abspath(__file__)))

CLAIMED = {
    # id: (level, text, note, technique, design_ref)
    "C02": (
        "model_checking",
        "Bounded symbolic execution of the real Readout/ReadoutProperties validation and of the real "
        "exposure loop: readout times, start time, destructive flag, prior bucket contents and written "
        "values are z3 reals/booleans; every feasible path (n<=6 quick, n<=12 thorough readouts, 2x2 frame) "
        "is executed and the clock/bucket-lifecycle clauses are decided by z3 per path; every path witness "
        "is replayed on the unpatched code (thinned to 40 + every 25th path per task in the quick tier). The scene bucket has symbolic prior content and receives a source at every step; its emptiness is counted over the whole tree. IEEE layer of the reset: pixel and charge buffers with arbitrary Float64 contents (NaN, infinities) read exactly zero after Detector.empty() on all four detector types. The symbolic loop also runs on CMOS, MKID and APD detectors (n = 2 quick, 1..3 thorough).",
        "Real arithmetic (IEEE rounding, NaN/inf outside); numpy replaced by the vx.symnp stand-in in the "
        "encoded modules; _extract_datatree_2d stubbed during symbolic runs; z3 trusted.",
        "dynamic symbolic execution of the real Python code (own engine vx) + z3 LRA, path-witness replay",
        "DESIGN.md section 4 C02",
    ),
    "C20": (
        "model_checking",
        "fit_into_array / _set_relative_position / load_cropped_and_aligned_image executed symbolically: offsets are "
        "unbounded z3 integers, pixels reals, shapes 1..3 (quick) / 1..4 (thorough) squared for input and detector; "
        "np.intersect1d forks on membership so the finitely many overlap configurations are enumerated by the solver "
        "while the no-overlap half-lines stay symbolic; per path z3 decides pixelwise placement, rejection iff no "
        "overlap, alignment geometry; freshness: history write A, load, rewrite B, load through the real cache on real files, for seven stat-level rewrite cases (+1 ns, +50 ms, +0.9 s, +1 s, -1 us, -1 s with equal size; equal mtime with size + 1) and three loaders. First sentence (formats): concrete witness layer only - write / read cycles of boundary values for eight dtypes in npy / FITS, scaled FITS and five text layouts through pyxel.inputs.load_image. The loader itself (load_cropped_and_aligned_image) with symbolic offsets on the cached and the un-cached route. Tables: concrete witness layer over five delimiters x three extensions x four missing-value layouts (and npy) through pyxel.inputs.load_table.",
        "Format decoders (np.load, astropy FITS, text sniffing) are third-party / C code: witness runs, not symbolic. "
        "pyxel.inputs.load_image is a stub reading a symbolic file store in the freshness harness.",
        "dynamic symbolic execution of the real Python code (vx) + z3 LIA/LRA, path-witness replay",
        "DESIGN.md section 4 C20",
    ),
    "C16": (
        "model_checking",
        "apply_simple_adc / get_dtype / apply_sar_adc / apply_sar_adc_with_noise executed on symbolic values. Exact layer: "
        "IEEE-754 double terms (Float64, RNE, RTZ truncation, integer casts as exact integers with the in-range side condition "
        "as its own obligation) for every listed (resolution, concrete voltage range): bounds, low/full-scale saturation, "
        "no-wrap for 10 (quick) / 61 (thorough) resolutions, monotonicity for <= 8 / 10 bits; decided by cvc5 (z3 fall-back). "
        "Symbolic voltage range: bug-hunting under a time cap. Real-arithmetic layer: all clauses for every range, every listed "
        "resolution; SAR bounds/full-scale up to 24 (64) bits, SAR monotone <= 8 (12) bits, zero-noise equivalence (reals, and exact Float64 for concrete range maxima 3.3 / 0.7 V quick, plus 1.8 / 0.2048 / 5.0 V thorough, 4..12 bits); float32 / float16 signal frames: every number parked in a narrow float array is recorded and integers among them must fit the mantissa (side condition that makes the real-arithmetic verdicts valid for those frames); simple_adc / sar_adc on a detector still holding the image of a lower-resolution conversion (all pairs of storage classes); the data_type option of simple_adc for every (storage class, requested type) pair with fixed-width wrap modelled: refused with nothing stored, or stored wide enough, full scale and ordered; the two SAR models (sar_adc, sar_adc_with_noise with zero strengths and noises) on detectors with a symbolic voltage range store the same image (reals), and exactly in IEEE-754 on (0, 3.3 V) / (0, 0.7 V).",
        "NaN inputs excluded; exact-FP verdicts hold for the listed concrete ranges; FP monotonicity beyond 8/10 bits is out of "
        "solver reach (stated), covered only by the real-arithmetic layer; cvc5/z3 trusted.",
        "symbolic execution of the real Python code (vx) to QF_FP / LRA terms, decided by cvc5 and z3",
        "DESIGN.md section 4 C16",
    ),
    "C15": (
        "model_checking",
        "Real model functions / kernels (numba bypassed via .py_func) executed on z3 reals: simple_collection, simple_conversion/"
        "apply_qe (binomial draw = fresh integer with contract 0<=k<=n), simple_full_well, ipc_kernel on 2x2 symbolic frames; "
        "run_cdm_parallel/serial with symbolic beta (uninterpreted pow/exp with valid axioms), 2 (3) transfers, 1 (2) trap species; "
        "persistence kernels: 1 species fully symbolic, 1..3 species with symbolic pixel/trapped/capacity values over a stated list of "
        "concrete parameter vectors (fully symbolic 2..3 species in thorough, may be inconclusive: NRA). CDM inductive step: two pixels along the transfer direction from an ARBITRARY valid trap occupancy (the kernel's np.zeros replaced by a symbolic array the harness keeps), 1..3 species, five concrete physics vectors with beta = 1: pixel + trapped never grows, nothing negative. Collection over 2-3 steps on one detector (clusters / arrays / both, equal cluster counts): each step adds exactly what it generated. Clip branches are enumerated as paths.",
        "Real arithmetic (no rounding, no fastmath reassociation); FFT convolution of IPC and sampler internals outside; "
        "persistence parameter vectors for >=2 species are a concrete list (stated in evidence bounds).",
        "dynamic symbolic execution of the real Python code (vx) + z3 LRA/NRA+UF, path-witness replay",
        "DESIGN.md section 4 C15",
    ),
    "C10": (
        "model_checking",
        "ParameterValues boundaries, ModelFittingDataTree._set_bound/get_bounds/convert_to_parameters/update_processor and "
        "Processor.set/get executed with symbolic boundary pairs and symbolic decision vectors (1-D and 2-D) for every layout of "
        "1..3 variables (scalar / vector of 1..2 (3) placeholders, shared or per-component boundaries, linear or logarithmic): "
        "bound vectors, value = dv or 10**dv by owner, inside [lo,hi], slices applied to the right keys, reported == applied. Best-individual reporting: the real get_best_individuals on a stub archipelago for all 6 fitness rankings x 1..3 requested individuals (reported parameters are the conversion of the reported decision vectors). Evaluated candidates: concrete witness layer - real pygmo runs (sade, nlopt neldermead / slsqp / lbfgs quick; + sga, bobyqa, mma thorough) on a two-parameter problem with the optimum on the box faces plus every evaluation entry point the pygmo problem exposes (fitness, gradient, hessians, batch_fitness) at a solver-chosen corner: every value the pipeline is run with lies in the box. Vector variables declared as a list or as a tuple of placeholders (symbolic choice); the problem object is built through its real constructor; two scalar parameters sharing their argument name.",
        "10**x/log10 are uninterpreted functions constrained to be mutually inverse and monotone (real arithmetic); pygmo keeping "
        "candidates inside the box is covered by the witness runs only (C++).",
        "dynamic symbolic execution of the real Python code (vx) + z3 LRA+UF",
        "DESIGN.md section 4 C10",
    ),
    "C11": (
        "model_checking",
        "Fit ranges: to_fit_range/FitRange*.check/check_fit_ranges with unbounded symbolic integer bounds and target sizes (accepted => "
        "equal extents and inside the target; valid pairs not refused). Formulas: the three fitness functions (numba bypassed) against "
        "their textbook definitions on symbolic 2x2 / 1x3 arrays. Accumulation: real ModelFittingDataTree.__init__ (target slicing, "
        "weights) and fitness() for 1..3 (processor, target) pairs with symbolic frames: sum over pairs of f(sim[result range], "
        "target[target range], weights), each pair with its own processor, parameter applied.",
        "run_pipeline and xarray.DataArray are recording stand-ins in the accumulation harness (the stand-in frame depends on the seed the run is "
        "given, an unseeded run on a fresh unknown); champion re-simulation is decided at the level of _apply_parameters (same processor, parameter, "
        "readout and seed-dependent frame as fitness()); settings re-declared through attributes after construction (fit ranges, weights, seed; symbolic) are what run_calibration hands to the fitting problem; champion reporting (_get_champions) is executed against an archipelago stub under pygmo's contract (an island's champion is its best-ever individual and never gets worse): reported == best-ever, hence never worse than before; pygmo honouring that contract is assumed; integer-typed target files with real weights; every target paired with a model argument and a detector setting of its own; a result range left open against an explicit target range (the detector's size unknown to the checker); NaN handling outside (real arithmetic).",
        "dynamic symbolic execution of the real Python code (vx) + z3 LIA/NRA, path-witness replay",
        "DESIGN.md section 4 C11",
    ),
    "C14": (
        "model_checking",
        "Real Charge methods executed with symbolic array values, cluster numbers and cluster positions (any real, including negative and "
        "beyond-range), pixel sizes symbolic (single cluster) or from a stated list: binning on 2x3 / 1x2 geometries with 1..2 clusters, all "
        "histories of <= 3 operations over {array add, cluster add, read, reset} (+ final read), reset-in-the-middle histories of length 4 and histories with removal by id of the newest (X) and of the oldest (Y) cluster (ids with gaps), on a 1x2 geometry with square and with 0.5 x 3.0 pixels, against an independent "
        "per-pixel accumulator; the binning loop runs un-jitted with numba index semantics, so an index outside the array is a reported event.",
        "Real arithmetic (positions exactly on pixel borders follow exact floor); removals are covered for the newest and the oldest cluster; "
        "the cluster table is a real pandas DataFrame holding symbolic cells; numba.njit is the identity during the symbolic run and replays "
        "run the real jitted code with numba bounds checking on.",
        "dynamic symbolic execution of the real Python code (vx) + z3 LRA/LIA, path-witness replay",
        "DESIGN.md section 4 C14",
    ),
    "C12": (
        "model_checking",
        "Every validated field of Geometry / Characteristics / Environment / WavelengthHandling / APDCharacteristics with a symbolic value "
        "(z3 Real/Int, and Float64 terms incl. NaN, +-inf for real-valued fields): constructor accepts <=> attribute setter accepts <=> "
        "the three sweep routes (Processor.set, Processor.replace, create_new_processor) accept <=> documented range (independent table); stored value equals the given one, an accepted sweep value is the value the new processor holds, a refused value is not stored. "
        "_build_configuration / to_* builders on a mapping with symbolic numeric leaves for 4 detector types x {exposure, observation}: "
        "every attribute of detector, readout, pipeline and parameter list equals its leaf; 3+4 presence flags (128 patterns): exactly one "
        "running mode and one detector. Mode settings of the built configuration (outputs folder, custom_dir_name, save list, pipeline seed, dask flag) equal the file's; counterexamples are replayed through pyxel.load on a generated YAML file. numpy.* value-range / readout-time texts (linspace, arange, geomspace, logspace, integer arange; decades 1e-15..1e3, solver-chosen) evaluate to exactly the numbers they denote through eval_range, ParameterValues and Readout.",
        "YAML text parsing outside; textual numpy.* expressions are evaluated by numpy (concrete) and compared exactly; calibration builder outside; 'running the file gives the same results' "
        "is not decided; the documented ranges are a table written from docstrings and error messages.",
        "dynamic symbolic execution of the real Python code (vx) + z3 LRA/LIA/FP, path-witness replay",
        "DESIGN.md section 4 C12",
    ),
    "C13": (
        "model_checking",
        "One inductive step from an arbitrary valid state for every container kind (pixel, signal, image, phase, photon 2-D): pre-state "
        "empty or holding a valid array with symbolic values, one operation in {set, update, +=, +} with an argument of 13 numpy dtypes "
        "x 5 shapes (right, transposed, broadcastable, extra axis, scalar) and symbolic values, plus empty/read/==; the validity invariant "
        "(detector shape, allowed dtype family, photon >= 0 after assignment), 'refused operations keep the content', 'reading empty raises', "
        "and the definition + symmetry of == (also between containers of different detector shapes, empty or filled) are decided per path; numpy's own casting/broadcast verdicts come from ghost arrays.",
        "Real arithmetic plus an IEEE layer for the photon sign rule (NaN, +-inf, -0.0); multi-wavelength photons through a recording stand-in for "
        "xarray.DataArray: 3-D set / += and 2-D set / array_2d / update (valid and invalid) on empty, 2-D and 3-D pre-states; histories follow by "
        "induction on the invariant.",
        "dynamic symbolic execution of the real Python code (vx) + z3, one inductive step per operation",
        "DESIGN.md section 4 C13",
    ),
    "C01": (
        "model_checking",
        "The enabled flag of every model is a symbolic boolean and every model receives symbolic argument terms; the real pyxel.run_mode "
        "(exposure; sequential observation with a one-value product) runs unmodified and the code's own `if model.enabled` forks enumerate the "
        "on/off patterns: all 45 group pairs x 2 models (16 patterns each), 3 models inside each of the 10 groups, 8 (quick) / 10 (thorough) "
        "groups x 1 model (256 / 1024 patterns), 1..3 readouts, debug on/off, pipelines built from Python objects and from mappings with "
        "group keys reversed / rotated, absent groups as None / [] / missing. Per path the probe trace is compared with the order written "
        "in the harness from the statement (once per step, disabled never, kwargs terms exact, detector identity). Re-use: a pipeline object that was already run / printed / iterated gets a second symbolic on/off pattern and must execute exactly the models enabled now. Every group also in the three modes that work on copies of the processor: sequential observation, the function each dask worker executes, and the fitness evaluation of calibration. Every probe is additionally configured with null, zero, empty-text, False and empty-list arguments, which must arrive with their names, types and values. One mapping object listed in several groups (what a YAML alias produces) builds every occurrence with the same flag and arguments.",
        "YAML text parsing, pygmo's evolution loop and dask graph scheduling are outside; an always-enabled helper model initialises the buckets the real "
        "exposure loop needs to build its result.",
        "dynamic symbolic execution of the real Python code (vx) + z3 (Bool/LIA/LRA equalities), path-witness replay",
        "DESIGN.md section 4 C01",
    ),
    "C09": (
        "model_checking",
        "The fault point (run, step, model position) is three symbolic integers: every probe raises iff its own coordinates equal it, so the "
        "solver enumerates every feasible crash point (plus the no-fault path) through the real pyxel.run_mode in exposure and sequential "
        "observation (3 runs x 1..3 steps x 2..4 models, 17 exception classes incl. StopIteration and a user subclass; swept values of kind int, float, str, list, bool, numpy float) and through ModelFittingDataTree.fitness: the same exception "
        "object reaches the caller, notes name group and model (and the failing run's parameter values), no result is returned, nothing runs "
        "after the fault, later runs never start. Solver-found crash points are replayed concretely in the dask path (.load()); calibration mode (initial population and evolution, real pygmo, 1 island) is covered by concrete witness runs over exception classes and fault positions; the symbolic crash point is also driven through pyxel.run on generated YAML files (exposure and observation); disabled models are listed in front of the probes so that positions among enabled models differ from positions in the group.",
        "dask graph execution and pygmo (C++) are concrete witness runs only, not symbolic.",
        "dynamic symbolic execution of the real Python code (vx) + z3 LIA (symbolic crash point), concrete replay for dask",
        "DESIGN.md section 4 C09",
    ),
    "C05": (
        "model_checking",
        "ParameterValues / ProductMode / SequentialMode / CustomMode executed on opaque symbolic list elements and table cells carried "
        "by real pandas / xarray containers, symbolic enabled flags: 1..3 (4) parameters with lists of 1..3 values (ascending and "
        "descending), scalar and vector placeholders, 1..3 table rows. Oracles from the statement: lexicographic Cartesian product with "
        "mixed-radix indices, concatenation with the processor's configured values for the other keys, one run per row with columns "
        "consumed left to right; run_index = position; disabled parameters ignored; the parameter array of the parallel path denotes the "
        "same runs (each cell at the coordinates carrying its own values). Labels of the merged result: every path witness is replayed "
        "through the real run_mode and selected by label. Parallel path per cell: for all orders of three keys (two with colliding short names) the dimension-name "
        "mapping lists the keys in declaration order and the real dask worker function hands every model the value requested for its own key. Value lists given as "
        "textual numpy expressions (four expressions, product and sequential mode) yield one run per evaluated value. The parallel parameter array is compared by label for ascending, descending and shuffled value lists. Custom mode built from a table file wider than the column range, with symbolic present / empty cells in the unused columns.",
        "Lists are assumed strictly monotone in symbolic runs (pandas sorts index levels); coordinate attachment and xr.merge are "
        "checked on solver-chosen witnesses only; numpy.* range strings and dask execution outside.",
        "dynamic symbolic execution of the real Python code (vx) + z3 (equalities over opaque terms), concrete label replay per path",
        "DESIGN.md section 4 C05",
    ),
    "C08": (
        "model_checking",
        "Processor.set/get/has, _get_obj_att and Arguments on processors of all four detector types whose every settable leaf holds a symbolic "
        "value: for each of ~21 keys, set(key, v) with a symbolic v of the right shape (int, real, bool, list) => get(key) == v and every "
        "other leaf keeps its initial term (frame condition), or it raises and nothing changed. Misspelt / truncated / extended / swapped keys "
        "(6 mutations of 5 base keys) at every entry point (set, has, validate_steps, apply_overrides, update_processor): refused, no attribute "
        "created, state unchanged; arguments of a disabled model (flag symbolic) and undeclared arguments are errors; same-named models in different groups; keys applied through Processor.replace twice (base processor and sibling copies independent, enabled and disabled models); "
        "list values: falsy / text / mixed / nested cases and all ordered pairs and rotating triples over a pool of 13 element kinds; calibration variable keys with one- and multi-placeholder lists (update_processor assigns a value of the declared shape). eval_entry: decimal "
        "renderings and a sample list in vx, arbitrary strings of length <= 3 (4) with CrossHair.",
        "The eval_entry sub-check over arbitrary strings is bug-hunting only (ast.literal_eval is C code: CrossHair realises the string); "
        "literals denoting None/dict/set/bytes are unspecified; assigned numeric values are assumed inside the documented ranges.",
        "dynamic symbolic execution of the real Python code (vx) + z3; CrossHair 0.0.110 for the string sub-check (bug-hunting)",
        "DESIGN.md section 4 C08",
    ),
    "C04": (
        "model_checking",
        "The process-wide numpy generator is modelled as a state machine over an uninterpreted sort (seed(s) -> seeded(s) with s possibly "
        "symbolic, draws advance next(.), get_state/set_state move terms; drawn data come from a private generator keyed on the state term so "
        "the numerical code runs unmodified). set_random_seed with symbolic seed / None, 0..2 draws and an optional exception in the body: final "
        "state term == initial term, seeded draws do not depend on the prior state (substitution of a fresh initial state). 15 stochastic model "
        "functions on real detectors: restored when seeded (also when the model fails late), draws independent of the prior state, no re-seeding "
        "without a seed; called twice on identical detectors from the same generator state every model consumes the same draws and leaves the same buckets (no process-level memo). Seed plumbing with a symbolic pipeline seed through real run_mode (exposure, sequential observation), the deprecated exposure entry point, the dask worker "
        "function, fitness(), _apply_parameters and Calibration.run_calibration (archipelago stubbed); the optimiser seed is solver-chosen among 0, 1, 7, 100000 and must reach the archipelago, pygmo's global seed and the attribute unchanged. Nested seeding contexts (a model seed inside a pipeline seed, symbolic seeds, 0..3 draws each); generators created from operating-system entropy are recorded and must not occur under a seed; charge_deposition runs with the shipped stopping-power table; every stochastic model also on a detector at a later readout step; option combinations that leave one of a model's noise sources on. Two seeded contexts overlapping in time (the threaded parallel mode): the order of their enter / draw / exit steps is a vector of symbolic booleans over the real context manager, counterexamples replayed with two real threads stepped by events - open known finding (18 non-serial orders). The whole parallel path (graph of run_pipelines_with_dask under dask's synchronous scheduler) with a symbolic pipeline seed.",
        "Bit-identity of results additionally assumes numpy's generator and pygmo are deterministic functions of their seeds; local generators "
        "are not modelled; models needing external files (cosmix, charge_deposition, nghxrg, qe maps) are not exercised; pulse_processing's "
        "deterministic physics is stubbed (170 s per pixel).",
        "dynamic symbolic execution of the real Python code (vx) + z3 UF (uninterpreted RNG state machine), 2-copy non-interference by substitution",
        "DESIGN.md section 4 C04",
    ),
    "C06": (
        "model_checking",
        "One inductive step from an arbitrary valid state (symbolic detector fields, symbolic 2x2 buckets, detector memory, trapped charge, "
        "model arguments incl. mutable lists/dicts, detector memory filled in place, symbolic enabled flags, the caller's Observation with its Readout): new = f(processor, {key: v}) for deepcopy, create_new_processor, Processor.replace, "
        "update_processor, build_processors and 9 keys (incl. observation.readout.times); the copy differs from the original in exactly the targeted leaf (== v), shares no "
        "object with it, and after the copy is havocked (fresh value in every leaf, arrays mutated in place, mutable arguments appended to, a "
        "model mutating its arguments and the detector memory run through the real _run_single_pipeline) every leaf of the caller's processor "
        "still equals its initial term. The caller's state being invariant under any run, every run starts from the same state.",
        "Equality of a run's result with a standalone exposure's result is a concrete replay (C05), not a solver obligation; dask worker "
        "processes (pickling) outside.",
        "dynamic symbolic execution of the real Python code (vx) + z3, havoc-the-copy frame condition (one inductive step)",
        "DESIGN.md section 4 C06",
    ),
    "C18": (
        "model_checking",
        "to_dict / from_dict of CCD, CMOS, MKID and APD, the property classes, Photon, Detector.save/load dispatch and the ASDF backend "
        "executed with symbolic (valid) property fields, symbolic 2x2 bucket contents, symbolic charge-cluster cells, and symbolic flags for "
        "which containers are initialised (8 patterns per task quick, all 64 thorough): field-by-field structural equality written in the "
        "harness. The asdf module is a stand-in store (contract: returns the tree it was given); every path witness is additionally replayed "
        "through the real ASDF library on disk. The load_detector model, called directly and inside a pipeline, must replace the running "
        "detector's buckets by the file's (arbitrary) contents - also when the same file is loaded a second time after the running detector changed - and later models must see them. "
        "The processed-data tree has a variable group, a coordinate-only parent and an empty leaf. Result of a running mode after the load model (exposure / observation, load first or after a writer, 1-2 steps: solver-chosen; real ASDF file, concrete values): last-step buckets and the /data group of the result are the file's, later models see them.",
        "HDF5 is outside (h5py not installed); scene / processed-data / 3-D photon contents are concrete; the real ASDF library is exercised "
        "by concrete witness replays only.",
        "dynamic symbolic execution of the real Python code (vx) + z3 equalities, per-path witness replay through the real ASDF library",
        "DESIGN.md section 4 C18",
    ),
    "C19": (
        "model_checking",
        "create_output_directory against a symbolic file system (existence of each candidate directory a symbolic boolean = also what a "
        "concurrent start may have created, opaque clock so that all starts may fall into the same second, mkdir the atomic test-and-create; "
        "<= 6 colliding candidates): the returned directory is created by this call, did not exist, three successive calls return three "
        "different directories. Nine writers (write_to_fits/npy/jpg, to_fits/npy/txt/csv/png/jpg) with a symbolic exists(target): on no path "
        "is a write primitive reached for a target that may exist. apply_run_number over a symbolic set of used numbers, build_filenames "
        "injective and complete over all save lists of 3 buckets x 3 formats, per-run suffixes disjoint, "
        "save_to_files reports every request once and never overwrites. Contents: Outputs.save_to_file with recording writers and a symbolic image / "
        "pixel bucket over ordered format lists (all ordered pairs of fits/npy/jpg/png/txt plus longer lists): every lossless writer receives exactly "
        "the bucket (values, dtype), picture writers its 8-bit preview, the bucket is untouched. save_to_files under rotations of four save lists (same bucket in non-adjacent entries; picture formats with the jpeg alias). Existence of a foreign path is re-sampled at every "
        "observation (monotone), so a directory appearing between a test and the creation is covered; a non-terminating candidate loop is an obligation. End-to-end witness exposures (clusters / arrays / both, 1-2 (4) steps, with and without a FITS header of a raw uint16 frame on the detector): every reported npy / FITS file equals the result bucket. Witness observations with outputs (product grids 3x2, 2x2, 2x3, sequential lists; dask and sequential engine): every reported file exists, is reported for one run only and holds that run's bucket.",
        "Write primitives are recorders honouring their documented overwrite contract; the encoders themselves (astropy, numpy, PIL: bytes on disk) "
        "and the HDF5 writer are outside the symbolic claim (concrete replays write and read back real files); OS-level atomicity of mkdir assumed.",
        "dynamic symbolic execution of the real Python code (vx) + z3 Bool/LIA over a symbolic file system",
        "DESIGN.md section 4 C19",
    ),
    "C03": (
        "exploration",
        "Concolic: the solver supplies one concrete schedule per feasible path of the real Readout validation / step computation (1..3 (5) "
        "readouts), crossed with 12 choice vectors (destructive flag, image dtype uint8..uint64, float dtype float16..64, 2-D / 3-wavelength "
        "photon, which optional buckets are written, debug); each witness is run end-to-end through the real pyxel.run_mode in both result "
        "layouts (and with debug) with a last-in-step probe snapshotting every bucket, and the returned DataTree is compared slice by slice: "
        "values, one slice per readout, absolute-time labels, row/column labels, image dtype, flat == hierarchical, debug does not change the "
        "result; per model and per step (three-model pipeline, both readout modes) the recorded buckets are those the model changed; charge written as particles and edited in place by the next model (three kinds of edit) against a reference computed from the dataframe, with and without debug; debug records are compared by value with what the detector held when the model returned (a second photon model adds in place; 2-D and 3-D photons). The comparison is concrete: this is exploration on solver-chosen inputs, not a proof.",
        "xarray / pandas cannot hold symbolic values, so C03 is not decided symbolically; every step writes the image bucket (real pyxel "
        "cannot merge >= 2 steps otherwise).",
        "concolic input generation with vx + z3 (one witness per path), concrete end-to-end comparison",
        "DESIGN.md section 4 C03",
    ),
    "C17": (
        "model_checking",
        "The real exposure loop and the real flux-integrating models (uniform / rectangular / elliptic illumination, load_image, stripe_pattern, "
        "load_charge, simple_conversion without sampling, simple_collection; load_image also as ADU with the photon-transfer conversion; 7 model sets; CCD, CMOS, MKID and APD detectors; exposures on a detector that was exposed before with the same times and another start time) run on symbolic schedules: start, end and interior "
        "readout times, levels, file contents, quantum efficiency (time scales symbolic in the per-model sets). Non-destructive: final pixel frame of "
        "one readout at `end` == final frame of n readouts with symbolic interior points (n <= 4 quick, <= 12 thorough) and == rate x (end - start); "
        "destructive: frame i == rate x (t_i - t_(i-1)) and scaling all intervals by a symbolic lambda scales every frame by lambda. Every path "
        "witness of the split schedule is replayed through the real run_mode with real files.",
        "Real arithmetic: in IEEE the equality holds up to rounding only. Noise-free dark_current goes through astropy Quantity and is compared "
        "concretely (two schedules) only; stripe rotation (skimage) outside; load_cropped_and_aligned_image is a stub returning arbitrary content.",
        "dynamic symbolic execution of the real Python code (vx) + z3 NRA identities, two-schedule comparison, path-witness replay",
        "DESIGN.md section 4 C17",
    ),
}

NOT_APPLICABLE = {
    "C07": "quantifies over dask schedulers / pygmo island threads (third-party scheduler and C++ code); no engine here "
    "interleaves it symbolically and a hand model would only verify the model. The pyxel-side parts are decided under C05/C06/C09.",
}

NOT_YET = "check not built yet in this session (planned in DESIGN.md section 4); not claimed"


def main():
    ids = [json.loads(l)["id"] for l in open(os.path.join(ROOT, "properties.jsonl"))]
    checks = []
    for pid in ids:
        if pid not in CLAIMED:
            continue
        level, text, note, tech, ref = CLAIMED[pid]
        checks.append(
            {
                "property_id": pid,
                "quick_cmd": f"./check {pid} --tier quick",
                "thorough_cmd": f"./check {pid} --tier thorough",
                "evidence_file": f"/verif/evidence/{pid}.json",
                "replay_cmd_template": f"./check {pid} --replay {{path}}",
                "engine": "vx",
                "level_claimed": {"category": level, "text": text, "design_ref": ref},
                "level_note": note,
                "technique": tech,
            }
        )
    na = []
    for pid in ids:
        if pid in CLAIMED:
            continue
        na.append({"property_id": pid, "reason": NOT_APPLICABLE.get(pid, NOT_YET)})
    man = {
        "version": 1,
        "setup_cmd": "./setup.sh",
        "hooks": {
            "guard": "PYXEL_VERIF",
            "enable": "no source hooks: all instrumentation is applied from outside by swapping module attributes "
            "for the duration of one symbolic run (vx/patching.py)",
            "baseline_off_cmd": "cd /repo && /venv/bin/python -m pytest -ra -q -p no:cacheprovider --timeout=900 --continue-on-collection-errors",
            "source_commits": [],
            "add_only": True,
        },
        "engines": [
            {
                "name": "vx",
                "path": "/verif/vx",
                "serves_properties": sorted(CLAIMED),
                "kind_free_text": "dynamic symbolic executor (operator overloading + DFS path re-execution) over z3, "
                "numpy stand-in with ghost typing, module-attribute patching, replay of every counterexample on the unpatched code",
            }
        ],
        "checks": checks,
        "not_applicable": na,
        "notes": "Exit codes: 0 held / known findings only; 1 VIOLATION (reproduced counterexample); 3 harness error. "
        "known_findings.json lists open findings and fixed ones.",
    }
    with open(os.path.join(ROOT, "MANIFEST.json"), "w") as fh:
        json.dump(man, fh, indent=1)
    print("MANIFEST.json written:", len(checks), "checks,", len(na), "not claimed")


if __name__ == "__main__":
    main()
