#!/bin/bash
# usage: tools/validate_seed.sh <ID> <dir with patch.diff and demo.py> [--full-tests]
# 1. demo passes on the unchanged code and fails with the patch (scratch worktree)
# 2. optional: the pinned test suite still passes with the patch
# 3. the check of <ID> (quick tier) is run against /repo with the patch applied, then /repo is restored
set -u
ID=$1; DIR=$2; FULL=${3:-}
WT=/tmp/val_$ID
git -C /repo worktree remove --force $WT >/dev/null 2>&1
git -C /repo worktree add -q --detach $WT HEAD || exit 9
cd $WT
echo "== demo on unchanged code"; (cd $WT && PYTHONPATH=$WT timeout 900 /venv/bin/python $DIR/demo.py >/tmp/val_${ID}_clean.log 2>&1); echo "exit=$?"
git -C $WT apply $DIR/patch.diff || { echo "PATCH DOES NOT APPLY"; git -C /repo worktree remove --force $WT; exit 8; }
echo "== demo with the patch"; (cd $WT && PYTHONPATH=$WT timeout 900 /venv/bin/python $DIR/demo.py >/tmp/val_${ID}_patched.log 2>&1); echo "exit=$?"
if [ "$FULL" = "--full-tests" ]; then
  echo "== pinned test suite with the patch"; BASELINE_REPO=$WT python3 /verif/tools/baseline.py
fi
git -C /repo worktree remove --force $WT
echo "== check $ID against /repo + patch"
git -C /repo apply $DIR/patch.diff && (cd /verif && ./check $ID --tier quick --no-evidence 2>&1 | grep -v conda | grep -c "^VIOLATION" | sed 's/^/VIOLATION lines: /'; ./check $ID --tier quick --no-evidence 2>&1 | grep -v conda | tail -1)
git -C /repo checkout -- . ; git -C /repo status --short | grep -v "^??" | head -3
