#!/bin/bash
# Build the overlay venv offline (files on disk only).  `--if-missing` returns at once when the
# venv already imports everything.  Serialised with flock so parallel checks do not race.
set -u
cd "$(dirname "$0")"
V=/verif/.venv
probe() { [ -x "$V/bin/python" ] && "$V/bin/python" -c "import z3, cvc5, crosshair, pyxel, numpy" >/dev/null 2>&1; }
if [ "${1:-}" = "--if-missing" ] && probe; then exit 0; fi
exec 9>/verif/.setup.lock
flock 9
if ! probe; then
  rm -rf "$V"
  /venv/bin/python -m venv "$V" || exit 3
  echo "import site; site.addsitedir('/venv/lib/python3.12/site-packages')" > "$V/lib/python3.12/site-packages/_overlay.pth"
  PIP_NO_INDEX=1 "$V/bin/pip" install -q --no-index --find-links /opt/veriftools/wheels crosshair-tool z3-solver cvc5 pysmt >/dev/null 2>&1 || {
    echo "setup: pip install from the offline wheelhouse failed" >&2; exit 3; }
fi
probe || { echo "setup: overlay venv cannot import z3/cvc5/crosshair/pyxel" >&2; exit 3; }
if [ "${1:-}" != "--if-missing" ]; then
  "$V/bin/python" -m vx.selftest || exit 3
fi
exit 0
